//! C07 (phase 2) — stage diff "real compiler vs Lean model of the compiler".
//!
//! For every template source the REAL parser's AST (`verif_hooks::compile_stage_wire`, kwargs in
//! the real compile order) is handed to the Lean model of the bytecode compiler (`drv_c07c`,
//! request `compile <template_wire>`); what the model emits must equal what the REAL compiler
//! emitted, instruction for instruction, for the main chunk, every block chunk, every component
//! chunk and the call tables (spans compared by presence only).
//!
//!  * second tie (independent of the Lean model, keeps the hook honest): for every template set
//!    that registers, `call_tables` / `stored_chunks_wire` of the registered template (with the
//!    optimisation pass switched off in this process) against the hook's tables / chunks;
//!  * on a mismatch: shrink, then look for a failure of the property itself on the real engine
//!    (optimisation ON, in a child process): renders under adversarial contexts must not panic,
//!    final stacks (0,0,0), every stored chunk passes the verified checker (`drv_c07 wf`), every
//!    call name is in the call tables; also on mutated neighbours of the shrunk source.
use std::collections::{BTreeMap, HashMap, HashSet};
use std::time::{Duration, Instant};
use tera::verif_hooks as hooks;
use tera::{Context, Delimiters, Tera};
use tera_verif_harness::bcgen::*;
use tera_verif_harness::childrun::{child_main, run_batch, Batch, Capped};
use tera_verif_harness::report::{out_path, replay_path, Report};
use tera_verif_harness::rng::Rng;
use tera_verif_harness::wire::{decode, hex};
use tera_verif_harness::{catch, driver, quiet_panics, Env};

const CHILD_FLAG: &str = "--child-oracle";
const BIN: &str = "c07c";

// ------------------------------------------------------------------------------ small helpers

fn unhex(s: &str) -> String {
    String::from_utf8(tera_verif_harness::wire::unhex(s).unwrap_or_default()).unwrap_or_else(|_| format!("hex:{s}"))
}

fn first_line(s: &str) -> String {
    s.lines().next().unwrap_or("").chars().take(200).collect()
}

fn clip(s: &str, n: usize) -> String {
    if s.chars().count() <= n { s.to_string() } else { format!("{}… ({} characters)", s.chars().take(n).collect::<String>(), s.chars().count()) }
}

fn par_map<T: Sync, R: Send>(items: &[T], threads: usize, f: impl Fn(usize, &T) -> R + Sync) -> Vec<R> {
    if items.is_empty() {
        return Vec::new();
    }
    let chunk = items.len().div_ceil(threads.max(1)).max(1);
    let f = &f;
    std::thread::scope(|s| {
        let hs: Vec<_> = items
            .chunks(chunk)
            .enumerate()
            .map(|(ci, c)| s.spawn(move || c.iter().enumerate().map(|(k, x)| f(ci * chunk + k, x)).collect::<Vec<R>>()))
            .collect();
        hs.into_iter().flat_map(|h| h.join().unwrap()).collect()
    })
}

fn split_tok(tok: &str) -> (&str, &str) {
    let head = tok.split_once('@').map(|x| x.0).unwrap_or(tok);
    head.split_once(':').unwrap_or((head, ""))
}

// ------------------------------------------------------------------------------ real side

struct Compiled {
    wire: String,
    chunks: Vec<(String, Vec<String>)>,
    tables: Vec<(String, Vec<String>)>,
}

enum RealOut {
    Compiled(Box<Compiled>),
    Rejected(String),
    Panic(String),
}

fn real_side(name: &str, src: &str) -> RealOut {
    match catch(std::panic::AssertUnwindSafe(|| hooks::compile_stage_wire(name, src, Delimiters::default()))) {
        Ok(Ok(st)) => RealOut::Compiled(Box::new(Compiled { wire: st.template_wire, chunks: st.chunks, tables: st.tables })),
        Ok(Err(e)) => RealOut::Rejected(catch(std::panic::AssertUnwindSafe(|| format!("{e}"))).unwrap_or_else(|p| format!("panic while displaying the error: {p}"))),
        Err(p) => RealOut::Panic(p),
    }
}

type Sections = Vec<(String, Vec<String>)>;

fn canon_tok(tok: &str) -> String {
    match tok.split_once('@') {
        Some((head, spans)) => format!("{head}@{}", if spans.is_empty() { "" } else { "s" }),
        None => format!("{tok}@"),
    }
}

fn canon_label(l: &str) -> String {
    if let Some(n) = l.strip_prefix("block:") {
        format!("block:{}", hex(n.as_bytes()))
    } else if let Some(n) = l.strip_prefix("component:") {
        format!("component:{}", hex(n.as_bytes()))
    } else {
        l.to_string()
    }
}

/// the real compiler's output in exactly the text form the driver answers with
fn canon_real(c: &Compiled) -> Sections {
    let mut out: Sections = Vec::new();
    for (l, toks) in &c.chunks {
        out.push((canon_label(l), toks.iter().map(|t| canon_tok(t)).collect()));
    }
    for (l, names) in &c.tables {
        let label = if l == "component" { "component_calls".to_string() } else { l.clone() };
        out.push((label, names.iter().map(|n| hex(n.as_bytes())).collect()));
    }
    out
}

fn sections_text(s: &Sections) -> String {
    s.iter().map(|(l, t)| if t.is_empty() { l.clone() } else { format!("{l} {}", t.join(" ")) }).collect::<Vec<_>>().join(" | ")
}

fn n_instructions(c: &Compiled) -> usize {
    c.chunks.iter().map(|(_, t)| t.len()).sum()
}

// ------------------------------------------------------------------------------ model side

enum Model {
    Ok { scoped: bool, sections: Sections },
    Panic(String),
    BadRequest,
    Garbage(String),
}

fn parse_model(line: &str) -> Model {
    let line = line.trim();
    if line == "bad-request" {
        return Model::BadRequest;
    }
    if let Some(site) = line.strip_prefix("panic") {
        return Model::Panic(site.trim().to_string());
    }
    let mut parts = line.split('|').map(|p| p.trim());
    let head = parts.next().unwrap_or("");
    let scoped = match head {
        "ok scoped=1" => true,
        "ok scoped=0" => false,
        _ => return Model::Garbage(clip(line, 300)),
    };
    let mut sections = Vec::new();
    for p in parts {
        let mut ws = p.split_whitespace();
        let Some(label) = ws.next() else { return Model::Garbage(clip(line, 300)) };
        sections.push((label.to_string(), ws.map(|w| w.to_string()).collect()));
    }
    Model::Ok { scoped, sections }
}

fn stage_of_label(label: &str) -> String {
    if label == "main" {
        "compile:main".into()
    } else if let Some(h) = label.strip_prefix("block:") {
        format!("compile:block:{}", unhex(h))
    } else if let Some(h) = label.strip_prefix("component:") {
        format!("compile:component:{}", unhex(h))
    } else {
        format!("compile:calls:{label}")
    }
}

/// stage without the block / component name (for capping reports by kind)
fn stage_kind(stage: &str) -> String {
    let p: Vec<&str> = stage.splitn(3, ':').collect();
    if p.len() == 3 && (p[1] == "block" || p[1] == "component") { format!("{}:{}", p[0], p[1]) } else { stage.to_string() }
}

/// None = agreement; Some((stage, what differs))
fn compare(real: &Sections, model_line: &str) -> Option<(String, String)> {
    match parse_model(model_line) {
        Model::BadRequest => Some(("compile:bad-request".into(), "the model driver cannot read the AST wire of a template the real parser accepted".into())),
        Model::Garbage(l) => Some(("compile:driver".into(), format!("unreadable driver answer: {l}"))),
        Model::Panic(site) => Some(("compile:panic".into(), format!("the model compiler panics at {site}; the real compiler did not"))),
        Model::Ok { scoped, sections } => {
            if !scoped {
                return Some(("compile:scoped".into(), "scoped=0: the model's syntactic precondition (break/continue only directly inside loops, no blocks inside component definitions) fails on an AST the real parser produced".into()));
            }
            let mut rl: Vec<&String> = real.iter().map(|s| &s.0).collect();
            let mut ml: Vec<&String> = sections.iter().map(|s| &s.0).collect();
            rl.sort();
            ml.sort();
            if rl != ml {
                return Some(("compile:sections".into(), format!("real sections {:?}, model sections {:?}", rl, ml)));
            }
            let m: HashMap<&String, &Vec<String>> = sections.iter().map(|(l, t)| (l, t)).collect();
            for (l, rt) in real {
                let mt = m[l];
                if rt != mt {
                    let k = rt.iter().zip(mt.iter()).position(|(a, b)| a != b).unwrap_or(rt.len().min(mt.len()));
                    return Some((
                        stage_of_label(l),
                        format!("first difference at index {k}: real {:?} model {:?} (lengths {} and {})", rt.get(k), mt.get(k), rt.len(), mt.len()),
                    ));
                }
            }
            None
        }
    }
}

// ------------------------------------------------------------------------------ engine

fn build(templates: &[(String, String)]) -> Result<Tera, String> {
    let r = catch(std::panic::AssertUnwindSafe(|| {
        let mut t = Tera::default();
        t.add_raw_templates(templates.iter().map(|(n, s)| (n.as_str(), s.as_str()))).map(|_| t)
    }));
    match r {
        Ok(Ok(t)) => Ok(t),
        Ok(Err(e)) => Err(catch(std::panic::AssertUnwindSafe(|| format!("{e}"))).unwrap_or_else(|p| format!("panic while displaying the error: {p}"))),
        Err(p) => Err(format!("panic {p}")),
    }
}

// ------------------------------------------------------------------------------ input streams

#[derive(Clone)]
struct TSet {
    stream: &'static str,
    origin: String,
    templates: Vec<(String, String)>,
}

fn split_multi_templates(body: &str) -> Vec<(String, String)> {
    body.split("$$ ")
        .skip(1)
        .map(|part| {
            let (name, rest) = part.split_once('\n').unwrap_or((part, ""));
            (name.trim_end_matches('\r').to_string(), rest.trim().to_string())
        })
        .collect()
}

fn walk(dir: &std::path::Path, out: &mut Vec<std::path::PathBuf>) {
    let Ok(rd) = std::fs::read_dir(dir) else { return };
    let mut entries: Vec<_> = rd.filter_map(|e| e.ok()).map(|e| e.path()).collect();
    entries.sort();
    for p in entries {
        if p.is_dir() {
            walk(&p, out);
        } else {
            out.push(p);
        }
    }
}

/// the repository's own snapshot inputs, bench and documentation templates
fn repo_sets(report: &mut Report) -> Vec<TSet> {
    let repo = std::path::PathBuf::from(std::env::var("REPO_DIR").unwrap_or_else(|_| "/repo".into()));
    let mut files = Vec::new();
    for d in ["parser_inputs", "rendering_inputs", "compiler_inputs", "lexer_inputs", "build_errors"] {
        walk(&repo.join("tera/src/snapshot_tests").join(d), &mut files);
    }
    let mut extra = Vec::new();
    walk(&repo.join("tera/benches"), &mut extra);
    walk(&repo.join("docs/templates"), &mut extra);
    files.extend(extra.into_iter().filter(|p| matches!(p.extension().and_then(|e| e.to_str()), Some("html" | "txt" | "tera" | "xml"))));
    let mut out = Vec::new();
    for p in files {
        let Ok(bytes) = std::fs::read(&p) else {
            report.count("repo.unreadable");
            continue;
        };
        if bytes.len() > 200_000 {
            report.count("repo.too_large");
            continue;
        }
        let Ok(text) = String::from_utf8(bytes) else {
            report.count("repo.not_utf8");
            continue;
        };
        let text = text.replace("\r\n", "\n");
        let rel = p.strip_prefix(&repo).unwrap_or(&p).display().to_string();
        let fname = p.file_name().map(|f| f.to_string_lossy().to_string()).unwrap_or_else(|| "f".into());
        report.count("repo.files");
        if text.contains("$$ ") {
            let tpls = split_multi_templates(&text);
            if !tpls.is_empty() {
                out.push(TSet { stream: "repo", origin: rel.clone(), templates: tpls });
            }
        }
        out.push(TSet { stream: "repo", origin: rel.clone(), templates: vec![(fname.clone(), text.clone())] });
        // every line of a file of one-line examples is a template of its own
        let lines: Vec<&str> = text.lines().filter(|l| !l.trim().is_empty() && !l.starts_with("$$ ")).collect();
        if lines.len() > 1 && lines.len() <= 400 {
            for (k, l) in lines.iter().enumerate() {
                if l.contains("{{") || l.contains("{%") {
                    out.push(TSet { stream: "repo-line", origin: format!("{rel}:{k}"), templates: vec![(format!("{fname}.l{k}"), l.to_string())] });
                }
            }
        }
    }
    out
}

// ------------------------------------------------------------------------------ directed stream

fn directed_helpers() -> Vec<(String, String)> {
    vec![
        (
            "dh".to_string(),
            "{% component Comp(a=1, b=2, c=3) %}[{{ a }}{{ b }}{{ c }}{{ body }}]{% endcomponent Comp %}\
             {% component Card(title=\"t\", ...rest) %}<{{ title }}{{ rest | length }}{{ body }}>{% endcomponent Card %}\
             {% component ui.btn(label: string = \"l\", n: integer = 1) %}{{ label }}{{ n }}{% endcomponent ui.btn %}"
                .to_string(),
        ),
        ("inc.html".to_string(), "inc{{ a }}".to_string()),
        ("base.html".to_string(), "B{% block k %}b{% block k2 %}n{% endblock k2 %}{% endblock k %}M{% block j %}{% endblock %}E".to_string()),
        ("mid.html".to_string(), "{% extends \"base.html\" %}{% block k %}m{{ super() }}{% endblock %}".to_string()),
    ]
}

/// every construct of the compiler at least once, in awkward shapes
fn directed_sources() -> Vec<String> {
    let mut v: Vec<String> = Vec::new();
    let mut add = |s: &str| v.push(s.to_string());
    // ---- calls with 0, 1, 2, 3, 5 kwargs (the compile order of several kwargs is the HashMap's)
    for call in [
        "a | upper", "a | upper()", "a | default(value=1)", "a | replace(from=\"a\", to=\"b\")", "a | truncate(length=2, end=\"..\", zz=1)",
        "a | replace(from=\"a\", to=b, k3=c, k4=[1, 2], k5={\"x\": a})", "a | indent(width=2, first=true, blank=false, w4=a.b, w5=a[0], w6=-1)",
        "a is defined", "a is divisible_by(divisor=2)", "a is containing(pat=\"x\", q=1)", "a is starting_with(pat=a, q=b, r=c)",
        "a is ending_with(pat=a ~ b, q=b | upper, r=c is defined, s=range(end=2), t=1 if a else 2)", "a is not defined", "a is not containing(pat=b, x=1)",
        "range(end=3)", "range(start=1, end=3)", "range(start=1, end=9, step_by=2)", "range(start=a, end=b, step_by=c, x=1, y=2)", "throw(message=\"m\")", "range()",
        // nested calls inside kwarg values
        "a | default(value=b | default(value=range(end=3) | length), boolean=c is defined)",
        "range(start=1 if a else 2, end=[x for x in a if x] | length, step_by=a and b or 1)",
        "a | replace(from=b | replace(from=\"x\", to=\"y\"), to=c | replace(from=c | upper, to=a is string))",
        "a | get(key=\"k\", default=<Comp a={ a | default(value=1, boolean=true) }/>)",
        "a | join(sep=b if c else (a if b else c)) | upper | truncate(length=a or b and c, end=not a)",
        "range(end=range(end=range(end=2) | length, start=0) | length, start=a | default(value=0, boolean=b))",
        "a is divisible_by(divisor=b is divisible_by(divisor=c is odd, x=1), y=[a is even])",
        "a | default(value={\"k\": b | default(value=1), ...c}, boolean=[...a, b | upper])",
    ] {
        add(&format!("{{{{ {call} }}}}"));
        add(&format!("{{% if {call} %}}y{{% else %}}n{{% endif %}}"));
    }
    // ---- boolean operators, ternaries
    for e in [
        "a and b or c and not d", "a or b or c or d", "a and b and c and d", "(a or b) and (c or d)", "not (a and b)", "a and (b or c) and d", "not a or not b and not (not c)",
        "a or (b and (c or (d and a)))", "(a and b)[\"k\"] or c.d", "a and b | default(value=c or d)", "a if b else c", "a if b else c if d else e", "(a if b else c) if d else e",
        "a if (b if c else d) else e", "(a if b else c)[\"x\"]", "(a if b else c)[1:]", "a if b and c else d or e", "[a if b else c, d if e else f]", "{\"k\": a if b else c}", "a ~ (b if c else d) ~ e",
        "(a or b) if (c and d) else (e or f)", "not a if b else not c", "-a if b else -c",
    ] {
        add(&format!("{{{{ {e} }}}}"));
    }
    // ---- arrays and maps, spreads
    for e in [
        "[]", "[1]", "[1, 2, 3]", "[1, ...a, 2]", "[...a]", "[...a, ...b]", "[[...a], [1, ...b]]", "[1, \"s\", true, none, 1.5, -2, a.b]", "[a and b, c or d]",
        "{}", "{\"a\": 1}", "{\"a\": 1, \"b\": [1, 2], \"c\": {\"d\": a} }", "{\"a\": 1, ...m}", "{...m}", "{...m, ...n, \"k\": [1, {\"x\": a, ...b}]}", "{1: a, true: b, \"s\": c}",
        "{\"k\": a and b, ...(m if c else n)}", "[...[1, 2], ...[x for x in a]]", "{\"a\": {\"b\": {\"c\": {...d} } } }", "[{...a}, {\"k\": [...b]}]", "{...a | default(value={})}",
        "{\"é😀\": \"ü\", \"\": \"\"}", "[-1, - 1, 1 - 1, -a, -(-a)]", "[1000, 0.5, 9223372036854775807, -9223372036854775807, 0, 00, 1.0, 3.14159, 123456789.125]", "[9223372036854775808]", "[01, 1.5, -0.5, -0]",
        "[\"a\\nb\", 'single', `back`, \"q\\\"q\", \"t\\tt\"]", "[true, True, false, False, none, None, null]",
    ] {
        add(&format!("{{{{ {e} }}}}"));
        add(&format!("{{% set v = {e} %}}{{{{ v }}}}"));
    }
    // ---- subscripts, slices (every subset of start / end / step), optional forms
    for recv in ["a", "a.b", "a?.b", "(a | reverse)", "a[0]", "a?.b?.c", "range(end=5)"] {
        for sl in ["[:]", "[1:]", "[:2]", "[::3]", "[1:2]", "[1::3]", "[:2:3]", "[1:2:3]", "[0]", "[-1]", "[b]", "[b:c:d]", "[b and c:]", "[:b if c else d]", "[\"k\"]", "[b[0]]", "[b[1:][0]]"] {
            add(&format!("{{{{ {recv}{sl} }}}}"));
            if !recv.ends_with(')') {
                add(&format!("{{{{ {recv}?{sl} }}}}"));
            }
        }
    }
    for e in ["a?.b", "a?.b.c", "a.b?.c?.d", "a?[0]?.x?[1:]", "a?.b?[c?.d]", "a.b.c.d.e", "a[\"b\"][\"c\"].d[0][1:2].e", "__tera_context", "__tera_context.a?.b", "loop.index", "a?[1:]?[::2]"] {
        add(&format!("{{{{ {e} }}}}"));
    }
    // ---- binary / unary operators
    for op in ["+", "-", "*", "/", "//", "%", "**", "~", "in", "not in", "<", "<=", ">", ">=", "==", "!=", "and", "or"] {
        add(&format!("{{{{ a {op} b }}}}"));
        add(&format!("{{{{ a {op} b {op} c }}}}"));
        add(&format!("{{{{ (a {op} 1) | str ~ (2 {op} b.c) }}}}").replace("~ (2 not in", "~ (2 in"));
    }
    for e in ["-a", "not a", "-(a + b)", "not (a in b)", "- a ** 2", "a + b * c - d / e // f % g ** h", "(a + b) * (c - d)", "a ~ b ~ c ~ 1 ~ \"s\"", "a < b and b <= c or c > d and d >= e", "a == b != c", "1 + 2 * 3", "\"a\" ~ \"b\"", "a in [1, 2] and b not in {\"k\": 1}", "a | length + 1", "a | length * b | length", "-a | abs", "(-a) | abs", "not a is defined", "not (a is defined)"] {
        add(&format!("{{{{ {e} }}}}"));
    }
    // ---- list comprehensions
    for e in [
        "[x * 2 for x in items if x > 1]", "[k ~ v for k, v in m]", "[x for x in a]", "[x for x in a if x]", "[[y for y in x] for x in a]", "[x for x in [y for y in ys if y > 0]]",
        "[x if a > b else y for x in xs if x > 0]", "[name | upper for name in names | unique]", "[{\"k\": k, \"v\": v} for k, v in m if v is defined and k != \"x\"]",
        "[x for x in (a if c else b)]", "[<Comp a={x}/> for x in a]", "[x | default(value=a, boolean=b) for x in range(end=3, start=1)]", "[x and y or z for x in a if x or y and z]",
        "[x for x in a] | length", "[x for x in a][0]", "[x for x in a][1:]", "[...a, ...[x for x in b]]", "[[k, v] for k, v in m | default(value={})] | first", "[x for x in a if x is containing(pat=\"a\", k=1)]",
        "[[a for a in x if a] for x in [y for y in b if y] if x]",
    ] {
        add(&format!("{{{{ {e} }}}}"));
        add(&format!("{{% for z in {e} %}}{{{{ z }}}}{{% endfor %}}"));
    }
    // ---- component calls
    for e in [
        "{{ <Comp/> }}", "{{ <Comp /> }}", "{{ <Comp a={1} b={x}/> }}", "{{ <Comp a={1} b={x} c={[1, ...y]}/> }}", "{{ <Comp a b c/> }}", "{{ <Comp a=\"s\" b='t' c={a ~ b}/> }}", "{{ <Comp {...m}/> }}",
        "{{ <Comp {...m} a={1} {...n} b/> }}", "{{ <Card title=\"x\" k1={1} k2={2} k3={3} k4={4}/> }}", "{{ <ui.btn label=\"hello\\nworld\" n={ 1 + 2 }/> }}", "{{ <Comp a={ <Comp a={ <Comp/> }/> }/> }}",
        "{{ <Comp a={ a if b else c } b={ a and b } c={ [x for x in a if x] }/> }}", "{{ <Comp/> | upper }}", "{{ <Comp/> ~ <Card/> }}", "{{ [<Comp/>, <Card title={a}/>] }}", "{% set v = <Comp a={1}/> %}{{ v }}",
        "{% <Comp> %}{% </Comp> %}", "{% <Comp> %}body{% </Comp> %}", "{% <Comp a={1} b={x}> %}b{{ a }}{% </Comp> %}", "{% <Comp {...m} c=\"s\"> %}{% if a %}{{ b }}{% endif %}{% </Comp> %}",
        "{% <Card title={a}> %}{% for x in a %}{{ x }}{% if x %}{% break %}{% endif %}{% endfor %}{% </Card> %}", "{% <Comp> %}{% <Card> %}{% <ui.btn> %}deep{% </ui.btn> %}{% </Card> %}{{ <Comp/> }}{% </Comp> %}",
        "{% <Comp> %}{% block inbody %}blk{{ a }}{% endblock %}{% </Comp> %}", "{% <Comp> %}{% include \"inc.html\" %}{% set v %}x{% endset %}{{ v }}{% filter upper %}f{% endfilter %}{% </Comp> %}",
        "{% for x in a %}{% <Comp a={x}> %}{% for y in x %}{% if y %}{% continue %}{% endif %}{{ y }}{% endfor %}{% </Comp> %}{% endfor %}", "{% if a %}{% <Comp> %}a{% </Comp> %}{% else %}{% <Card> %}b{% </Card> %}{% endif %}",
        "{{ a | default(value=<Comp a={ b | default(value=<Card/>) }/>) }}", "{{ range(end=<Comp/> | length) }}",
    ] {
        add(e);
    }
    // ---- component definitions
    for e in [
        "{% component c1() %}{% endcomponent %}", "{% component c1() %}x{% endcomponent c1 %}{{ <c1/> }}", "{% component c1(a, b=1, c=\"s\", d=[], e={}, f=none, g=1.5, h=true) %}{{ a }}{{ b }}{% endcomponent %}",
        "{% component c1(a: string, b: integer = 1, c: map = {}, d: array = [1], e: bool = false, f: float = 0.5) %}{{ a }}{% endcomponent c1 %}", "{% component c1(a, ...rest) %}{{ rest | length }}{% endcomponent %}",
        "{% component c1(greeting: string) {\"css\": \"./a.css\", \"n\": 1} %}Hello{% endcomponent %}", "{% component x.y.z(label=\"hello\\nworld\") %}{{ label }}{% endcomponent x.y.z %}",
        "{% component c1(items) %}{% for i in items %}{% if i.x %}{{ i | upper | truncate(length=2, end=\"\") }}{% elif i.y %}{% include \"inc.html\" %}{% else %}{{ <c2 v={i}/> }}{% endif %}{% else %}none{% endfor %}{% endcomponent c1 %}{% component c2(v) %}{{ v }}{% <c1 items={[]}> %}b{% </c1> %}{% endcomponent c2 %}{{ <c1 items={a}/> }}",
        "{% component c1() %}{% set v | upper | replace(from=\"a\", to=\"b\") %}{{ body }}{% endset %}{{ v }}{% filter trim(pat=\"x\") %}{{ body }}{% endfilter %}{% endcomponent %}pre{% component c2() %}{{ <c1/> }}{{ range(end=2) }}{{ a is odd }}{% endcomponent %}post{{ <c2/> }}",
        "{% component c1(n) %}{% if n > 0 %}{{ n }}{{ <c1 n={n - 1}/> }}{% endif %}{% endcomponent c1 %}{{ <c1 n={3}/> }}", "{% component c1() %}{% for x in a %}{% for y in x %}{% if y %}{% break %}{% elif x %}{% continue %}{% endif %}{% endfor %}{% if x %}{% continue %}{% endif %}{% endfor %}{% endcomponent %}",
        "{% component c1() %}{% block inside %}x{% endblock %}{% endcomponent %}", "{% component c1() %}a{% endcomponent %}{% component c1() %}b{% endcomponent %}", "{% if a %}{% component c1() %}x{% endcomponent %}{% endif %}",
        "{% component c1() %}{{ [x for x in a if x is defined] }}{{ {...m, \"k\": a | default(value=1, boolean=true)} }}{{ a[1:2]?.b }}{% endcomponent %}",
    ] {
        add(e);
    }
    // ---- if chains
    for e in [
        "{% if a %}{% endif %}", "{% if a %}{% else %}{% endif %}", "{% if a %}x{% endif %}", "{% if a %}x{% else %}y{% endif %}", "{% if a %}{% elif b %}{% endif %}", "{% if a %}{% elif b %}{% elif c %}{% else %}{% endif %}",
        "{% if a %}1{% elif b %}2{% elif c %}3{% elif d %}4{% else %}5{% endif %}6", "{% if a %}1{% elif b %}{% elif c %}3{% endif %}", "{% if a %}{% if b %}{% if c %}x{% else %}y{% endif %}{% elif d %}z{% endif %}{% else %}{% if e %}w{% endif %}{% endif %}",
        "{% if a and b or c %}x{% elif not a %}y{% endif %}", "{% if a if b else c %}x{% endif %}", "{% if a is defined and a | length > 2 %}{{ a }}{% endif %}", "{% if true %}t{% endif %}{% if false %}f{% else %}e{% endif %}{% if none %}{% endif %}{% if 1 %}{% endif %}",
        "{% if a %}x{% else %}{% endif %}", "{% if a %}{% else %}y{% endif %}", "{% if [x for x in a if x] %}x{% elif <Comp/> %}y{% endif %}",
    ] {
        add(e);
    }
    // ---- loops, break / continue
    for e in [
        "{% for x in a %}{% endfor %}", "{% for x in a %}{{ x }}{% endfor %}", "{% for k, v in m %}{{ k }}={{ v }}{% endfor %}", "{% for x in a %}{{ x }}{% else %}empty{% endfor %}", "{% for k, v in m %}{% else %}{% endfor %}",
        "{% for x in a %}{% break %}{% endfor %}", "{% for x in a %}{% continue %}{% endfor %}", "{% for x in a %}{% if x %}{% break %}{% endif %}{{ x }}{% if not x %}{% continue %}{% endif %}z{% endfor %}",
        "{% for x in a %}{% if x %}{% if x.y %}{% if x.y.z %}{% break %}{% else %}{% continue %}{% endif %}{% endif %}{% elif b %}{% continue %}{% else %}{% break %}{% endif %}{% endfor %}",
        "{% for x in a %}{% for y in x %}{% for z in y %}{% if z %}{% break %}{% endif %}{{ z }}{% endfor %}{% if y %}{% continue %}{% endif %}{% else %}{% if x %}{% break %}{% endif %}{% endfor %}{% continue %}{% endfor %}",
        "{% for x in a %}{% for y in b %}{{ y }}{% else %}{% continue %}{% endfor %}{% endfor %}", "{% for x in a %}{% for y in b %}{{ y }}{% else %}{% break %}{% endfor %}{% else %}e{% endfor %}",
        "{% for x in a %}x{% else %}{% break %}{% endfor %}", "{% for x in a %}x{% else %}{% continue %}{% endfor %}", "{% for x in a %}x{% else %}{% if b %}{% continue %}{% endif %}{% endfor %}",
        "{% for x in a %}{% block inloop %}{% continue %}{% endblock %}{% endfor %}", "{% for x in a %}{% block inloop %}{% break %}{% endblock %}{% endfor %}", "{% for x in a %}{% block inloop %}{% if x %}{% continue %}{% endif %}{% endblock %}{% endfor %}",
        "{% for x in a %}{% block inloop %}{% for y in x %}{% continue %}{% endfor %}{% endblock %}{% endfor %}", "{% for x in a %}{{ [y for y in x if y] }}{% if x %}{% continue %}{% endif %}{% endfor %}",
        "{% for x in a %}{% filter upper %}{% for y in x %}{% break %}{% endfor %}{% endfilter %}{% break %}{% endfor %}", "{% for x in a %}{% set v %}{% for y in x %}{% if y %}{% continue %}{% endif %}{% endfor %}{% endset %}{% endfor %}",
        "{% for x in a %}{% filter upper %}{% break %}{% endfilter %}{% endfor %}", "{% for x in a %}{% set v %}{% continue %}{% endset %}{% endfor %}", "{% for x in a %}{% <Comp> %}{% break %}{% </Comp> %}{% endfor %}",
        "{% break %}", "{% continue %}", "{% if a %}{% break %}{% endif %}", "{% block b %}{% continue %}{% endblock %}",
        "{% for x in range(end=3) %}{{ loop.index }}{{ loop.index0 }}{{ loop.first }}{{ loop.last }}{{ loop.length }}{% endfor %}", "{% for x in [1, 2, 3] | reverse %}{{ x }}{% endfor %}", "{% for x in a if b else c %}{{ x }}{% endfor %}",
        "{% for x in a and b %}{{ x }}{% endfor %}", "{% for x in a[1:] %}{% for x in x %}{{ x }}{% endfor %}{{ x }}{% endfor %}", "{% for k, v in {\"a\": 1, ...m} %}{{ k }}{% endfor %}", "{% for c in \"héllo\" %}{{ c }}{% endfor %}",
        "{% for x in a %}{% set y = x %}{% set_global g = y %}{% endfor %}{{ g }}", "{% for x in a -%} {{ x }} {%- else -%} e {%- endfor %}",
    ] {
        add(e);
    }
    // ---- set, set_global, set blocks, filter sections, include
    for e in [
        "{% set x = 1 %}{{ x }}", "{% set x = a and b %}", "{% set_global x = a if b else c %}", "{% set x = (b + 1) | round %}", "{% set x = [x for x in a] %}", "{% set x = {\"k\": x} %}{% set x = x %}",
        "{% set x %}{% endset %}", "{% set x %}body{{ a }}{% endset %}{{ x }}", "{% set_global x %}g{% endset %}", "{% set x | upper %}Hello{% endset %}", "{% set x | upper | replace(from=\"a\", to=\"b\") %}a{{ a }}{% endset %}",
        "{% set_global x | upper(with=1) | trim(pat='fr', q=a, r=b and c) | safe %}Hello{% endset %}", "{% set x | default(value=a if b else c, boolean=[y for y in a]) %}{% if a %}{{ b }}{% endif %}{% endset %}",
        "{% set x %}{% set y %}{% set z | upper %}in{% endset %}{{ z }}{% endset %}{{ y }}{% endset %}{{ x }}", "{% set x %}{% block inset %}blk{% endblock %}{% endset %}{{ x }}", "{% set x %}{% for i in a %}{{ i }}{% else %}e{% endfor %}{% endset %}",
        "{% filter upper %}{% endfilter %}", "{% filter upper %}x{{ a }}{% endfilter %}", "{% filter safe %} hello {% endfilter %}", "{% filter upper(hey=1) -%} hello {%- endfilter %}", "{% filter replace(from=\"a\", to=\"b\") %}a{% endfilter %}",
        "{% filter truncate(length=a | length, end=b if c else d, k3=[1]) %}{% if true %}a{% endif %}{% endfilter %}", "{% filter upper %}{% filter lower %}{% filter trim %} x {% endfilter %}{% endfilter %}{% endfilter %}",
        "{% filter upper %}{% block infilter %}blk{{ a }}{% endblock %}{% endfilter %}", "{% filter upper %}{% set v %}x{% endset %}{{ v }}{% include \"inc.html\" %}{{ <Comp/> }}{% endfilter %}",
        "{% include \"inc.html\" %}", "{% include \"inc.html\" %}{% include \"inc.html\" %}{% include \"base.html\" %}", "{% if a %}{% include \"inc.html\" %}{% endif %}{% for x in a %}{% include \"inc.html\" %}{% endfor %}", "{% include 'inc.html' %}",
    ] {
        add(e);
    }
    // ---- blocks, extends, super
    for e in [
        "{% block k %}{% endblock %}", "{% block k %}x{% endblock k %}", "a{% block k %}b{% block k2 %}c{% block k3 %}d{% endblock %}e{% endblock k2 %}f{% endblock %}g", "{% block k %}1{% endblock %}{% block j %}2{% endblock %}",
        "{% block k %}{{ a | upper }}{% if a is defined %}{{ range(end=2) }}{% endif %}{% include \"inc.html\" %}{{ <Comp/> }}{% endblock %}", "{% if a %}{% block k %}x{% endblock %}{% endif %}", "{% for x in a %}{% block k %}{{ x }}{% endblock %}{% endfor %}",
        "{% for x in a %}x{% else %}{% block k %}e{% endblock %}{% endfor %}", "{% block k %}{% filter upper %}{% block k2 %}{% set v %}{% block k3 %}x{% endblock %}{% endset %}{% endblock %}{% endfilter %}{% endblock %}",
        "{% extends \"base.html\" %}", "{% extends \"base.html\" %}{% block k %}c{% endblock %}", "{% extends \"base.html\" %}{% block k %}c{{ super() }}{% endblock %}", "{% extends \"base.html\" %}{% block k %}{{ super() }}{{ super() }}{% block k2 %}{{ super() }}{% endblock %}{% endblock %}{% block j %}j{% endblock %}",
        "{% extends \"mid.html\" %}{% block k %}{{ super() | upper }}{% if a %}{{ super() }}{% endif %}{% endblock %}", "{% extends \"base.html\" %}ignored{{ a }}{% block k %}c{% endblock %}ignored too{% set x = 1 %}", "{# c #}{% extends \"base.html\" %}",
        "{% extends 'base.html' %}{% block j %}{% for x in a %}{{ super() }}{% if x %}{% break %}{% endif %}{% endfor %}{% endblock j %}", "{% block k %}{{ super() }}{% endblock %}", "{{ super() }}", "{% block k %}a{% endblock %}{% block k %}b{% endblock %}",
        "{% block k %}{% block k %}x{% endblock %}{% endblock %}", "{% extends \"base.html\" %}{% extends \"mid.html\" %}", "x{% extends \"base.html\" %}",
    ] {
        add(e);
    }
    // ---- raw, comments, whitespace control, text
    for e in [
        "", "plain text only", "{% raw %}{{ a }}{% if %}{% endraw %}", "a{% raw %} {{ x }} {% endraw %}b{{ a }}", "{# comment #}", "a{# c #}b{#- c -#}c", "{#- https://x #}", "  {{- a -}}  {%- if a -%}  x  {%- endif -%}  ",
        "{{ a }}\n{{- b }}\n{%- set x = 1 -%}\n{{ x -}}\n end", "é😀{{ \"ü\" }}{% if a %}ß{% endif %}", "{{a}}{{b}}{%if a%}x{%endif%}", "{ { a } } {% raw %}{% endraw %}", "{{ \"{{ not a tag }}\" }}", "line1\r\nline2{{ a }}\r\n",
        "{{ a }}{{ a }}{{ a.b }}{{ a.b }}txt{{ a.b.c }}", "x{{ 1 }}y{{ \"s\" }}z{{ true }}{{ none }}{{ 1.5 }}{{ -1 }}",
    ] {
        add(e);
    }
    // ---- everything at once
    add("{% extends \"base.html\" %}{% block k %}{% for k, v in m | default(value={\"a\": [1, 2]}, boolean=true) %}{% if v is iterable and v | length > 1 or k in [\"x\", ...ks] %}{% set s | upper | truncate(length=3, end=\"\") %}{{ k ~ \":\" ~ (v[0] if v else none) }}{% endset %}{{ s }}{% <Card title={k} n={loop.index} {...v?.extra}> %}{% for i in v[::2] %}{% if i is odd %}{% continue %}{% elif i > 10 %}{% break %}{% endif %}{{ <ui.btn label={i | str} n={i ** 2 // 3}/> }}{% else %}{{ super() }}{% endfor %}{% </Card> %}{% elif not v %}{% filter replace(from=\"a\", to=k) %}{% include \"inc.html\" %}{% endfilter %}{% else %}{{ [x * 2 for x in v if x > 1] | join(sep=\",\") }}{% endif %}{% else %}{% set_global none_seen = true %}{% endfor %}{% endblock %}");
    v
}

fn directed_sets() -> Vec<TSet> {
    let helpers = directed_helpers();
    let mut out = vec![TSet { stream: "directed", origin: "helpers".into(), templates: helpers.clone() }];
    for (k, src) in directed_sources().into_iter().enumerate() {
        // autoescaped and not, alternately (no effect on the compiler; the names differ)
        let name = if k % 2 == 0 { format!("d{k}.html") } else { format!("d{k}") };
        let mut t = helpers.clone();
        t.push((name, src));
        out.push(TSet { stream: "directed", origin: format!("directed#{k}"), templates: t });
    }
    out
}

/// calls with 2 to 6 keyword arguments whose values are generated expressions (jumps, nested
/// calls, comprehensions, component calls): the compile order of the kwargs is the HashMap's
fn kwargs_sets(rng: &mut Rng, n: usize) -> Vec<TSet> {
    let helpers = directed_helpers();
    let mut out = Vec::new();
    for k in 0..n {
        let n_kw = 2 + rng.below(5);
        let mut names: Vec<&str> = vec!["value", "from", "to", "end", "start", "pat", "length", "sep", "k", "key", "default", "x"];
        let mut kw = Vec::new();
        for _ in 0..n_kw {
            let name = names.remove(rng.below(names.len()));
            let depth = 1 + rng.below(2) as u32;
            kw.push(format!("{name}={}", gen_expr(rng, depth, &[]).replace("@@HI@@", "Comp")));
        }
        let kw = kw.join(", ");
        let src = match rng.below(7) {
            0 => format!("{{{{ a | replace({kw}) }}}}"),
            1 => format!("{{{{ range({kw}) }}}}"),
            2 => format!("{{{{ a is containing({kw}) }}}}"),
            3 => format!("{{% filter truncate({kw}) %}}x{{{{ b }}}}{{% endfilter %}}"),
            4 => format!("{{% set v | upper | default({kw}) | trim %}}x{{% endset %}}{{{{ v }}}}"),
            5 => format!("{{% if a | default({kw}) and range({kw}) %}}y{{% endif %}}"),
            _ => format!("{{% for x in a | get({kw}) %}}{{{{ x | default({kw}) }}}}{{% endfor %}}"),
        };
        let mut t = helpers.clone();
        t.push((format!("kw{k}"), src));
        out.push(TSet { stream: "kwargs", origin: format!("kwargs#{k} ({n_kw} kwargs)"), templates: t });
    }
    out
}

// ------------------------------------------------------------------------------ mutation stream

/// `{% … %}`, `{{ … }}`, `{# … #}` and the text between them
fn segments(src: &str) -> Vec<String> {
    let b = src.as_bytes();
    let mut out = Vec::new();
    let mut i = 0;
    let mut text_start = 0;
    while i + 1 < b.len() {
        let close = match (b[i], b[i + 1]) {
            (b'{', b'%') => "%}",
            (b'{', b'{') => "}}",
            (b'{', b'#') => "#}",
            _ => {
                i += 1;
                continue;
            }
        };
        let Some(rel) = src[i + 2..].find(close) else { break };
        let end = i + 2 + rel + 2;
        if text_start < i {
            out.push(src[text_start..i].to_string());
        }
        out.push(src[i..end].to_string());
        i = end;
        text_start = end;
    }
    if text_start < src.len() {
        out.push(src[text_start..].to_string());
    }
    out
}

fn tag_word(seg: &str) -> Option<String> {
    let inner = seg.strip_prefix("{%")?.trim_start_matches('-').trim_start();
    if inner.starts_with("</") {
        return Some("</".into());
    }
    if inner.starts_with('<') {
        return Some("<".into());
    }
    let w: String = inner.chars().take_while(|c| c.is_alphanumeric() || *c == '_').collect();
    Some(w)
}

/// index of the tag closing the one opened at `i` (by nesting depth of opening / closing words)
fn matching_close(segs: &[String], i: usize) -> Option<usize> {
    let opens = |s: &str| -> bool {
        match tag_word(s).as_deref() {
            Some("if" | "for" | "block" | "filter" | "component" | "<" | "raw") => true,
            Some("set" | "set_global") => !s.contains('='),
            _ => false,
        }
    };
    let closes = |s: &str| matches!(tag_word(s).as_deref(), Some("endif" | "endfor" | "endblock" | "endfilter" | "endcomponent" | "</" | "endraw" | "endset"));
    if !opens(&segs[i]) {
        return None;
    }
    let mut depth = 0usize;
    for (j, s) in segs.iter().enumerate().skip(i) {
        if opens(s) {
            depth += 1;
        } else if closes(s) {
            depth -= 1;
            if depth == 0 {
                return Some(j);
            }
        }
    }
    None
}

/// one light mutation at the level of tags; returns (operator, new source)
fn mutate(rng: &mut Rng, src: &str) -> Option<(&'static str, String)> {
    let mut segs = segments(src);
    if segs.is_empty() {
        return None;
    }
    let tags: Vec<usize> = (0..segs.len()).filter(|i| segs[*i].starts_with("{%")).collect();
    let any: Vec<usize> = (0..segs.len()).filter(|i| segs[*i].starts_with('{')).collect();
    let ranges: Vec<(usize, usize)> = tags.iter().filter_map(|i| matching_close(&segs, *i).map(|j| (*i, j))).collect();
    let op = rng.below(13);
    let name: &'static str;
    match op {
        0 | 1 if !tags.is_empty() => {
            name = "delete-tag";
            segs.remove(*rng.pick(&tags));
        }
        2 if !tags.is_empty() => {
            name = "duplicate-tag";
            let i = *rng.pick(&tags);
            segs.insert(i, segs[i].clone());
        }
        3 if tags.len() >= 2 => {
            name = "swap-tags";
            let (i, j) = (*rng.pick(&tags), *rng.pick(&tags));
            segs.swap(i, j);
        }
        4 if !ranges.is_empty() => {
            name = "delete-range";
            let (i, j) = *rng.pick(&ranges);
            segs.drain(i..=j);
        }
        5 if !ranges.is_empty() => {
            name = "duplicate-range";
            let (i, j) = *rng.pick(&ranges);
            let copy: Vec<String> = segs[i..=j].to_vec();
            let at = if rng.chance(1, 2) { j + 1 } else { rng.below(segs.len() + 1) };
            for (k, s) in copy.into_iter().enumerate() {
                segs.insert(at + k, s);
            }
        }
        6 | 7 => {
            name = "wrap-range";
            let (i, j) = if !ranges.is_empty() && rng.chance(2, 3) { *rng.pick(&ranges) } else { let i = rng.below(segs.len()); (i, i) };
            let (open, close) = *rng.pick(&[
                ("{% if a %}", "{% endif %}"),
                ("{% if a %}x{% else %}", "{% endif %}"),
                ("{% for q in a %}", "{% endfor %}"),
                ("{% for q in a %}z{% else %}", "{% endfor %}"),
                ("{% filter upper %}", "{% endfilter %}"),
                ("{% set w9 %}", "{% endset %}"),
                ("{% block mb9 %}", "{% endblock %}"),
                ("{% <Comp> %}", "{% </Comp> %}"),
                ("{% component mc9() %}", "{% endcomponent %}"),
            ]);
            segs.insert(j + 1, close.to_string());
            segs.insert(i, open.to_string());
        }
        8 => {
            name = "insert-tag";
            let t = *rng.pick(&["{% break %}", "{% continue %}", "{% else %}", "{% elif b %}", "{% set q = a %}", "{% include \"inc.html\" %}", "{{ super() }}", "{% endif %}", "{% endfor %}", "{% if a %}", "{% for q in a %}", "{{ a | upper(x=1, y=2) }}"]);
            let at = rng.below(segs.len() + 1);
            segs.insert(at, t.to_string());
        }
        9 if !tags.is_empty() => {
            name = "move-tag";
            let i = *rng.pick(&tags);
            let s = segs.remove(i);
            let at = rng.below(segs.len() + 1);
            segs.insert(at, s);
        }
        10 if !any.is_empty() => {
            name = "delete-segment";
            segs.remove(*rng.pick(&any));
        }
        11 if any.len() >= 2 => {
            name = "swap-segments";
            let (i, j) = (*rng.pick(&any), *rng.pick(&any));
            segs.swap(i, j);
        }
        _ if !ranges.is_empty() => {
            name = "move-range";
            let (i, j) = *rng.pick(&ranges);
            let part: Vec<String> = segs.drain(i..=j).collect();
            let at = rng.below(segs.len() + 1);
            for (k, s) in part.into_iter().enumerate() {
                segs.insert(at + k, s);
            }
        }
        _ => {
            name = "duplicate-segment";
            let i = rng.below(segs.len());
            segs.insert(i, segs[i].clone());
        }
    }
    let out = segs.concat();
    if out == src { None } else { Some((name, out)) }
}

fn mutation_sets(rng: &mut Rng, base: &[TSet], n: usize) -> Vec<TSet> {
    let mut out = Vec::new();
    if base.is_empty() {
        return out;
    }
    let mut tries = 0;
    while out.len() < n && tries < n * 4 {
        tries += 1;
        let s = rng.pick(base);
        if s.templates.is_empty() {
            continue;
        }
        // mostly the main (last) template of the set
        let k = if rng.chance(3, 4) { s.templates.len() - 1 } else { rng.below(s.templates.len()) };
        let mut src = s.templates[k].1.clone();
        let mut ops = Vec::new();
        for _ in 0..(1 + rng.below(2)) {
            if let Some((op, m)) = mutate(rng, &src) {
                ops.push(op);
                src = m;
            }
        }
        if ops.is_empty() || src.len() > 100_000 {
            continue;
        }
        let mut t = s.clone();
        t.stream = "mutation";
        t.origin = format!("{} [{}]", s.origin, ops.join("+"));
        // a name of its own: the set may be registered next to its original in the oracle
        t.templates[k].1 = src;
        // the mutated template comes last so that `cases` sees it as the case of this set
        let m = t.templates.remove(k);
        t.templates.push(m);
        out.push(t);
    }
    out
}

// ------------------------------------------------------------------------------ second tie: hook vs Template::new

const JUMPS: [&str; 5] = ["Jump", "PopJumpIfFalse", "JumpIfFalseOrPop", "JumpIfTrueOrPop", "Iterate"];

fn multiset<'a>(it: impl Iterator<Item = &'a str>) -> BTreeMap<&'a str, usize> {
    let mut m = BTreeMap::new();
    for x in it {
        *m.entry(x).or_insert(0) += 1;
    }
    m
}

/// `stored` (what `Template::new` kept, optimisation off) against the hook's chunks and tables.
/// The two come from two parses: several kwargs of one call may be compiled in a different order.
fn tie_template(tera: &Tera, name: &str, hook: &Compiled) -> Option<String> {
    let Some(tables) = hooks::call_tables(tera, name) else { return Some(format!("call_tables has no template {name}")) };
    let hook5: Vec<(String, Vec<String>)> = hook.tables.iter().take(5).cloned().collect();
    if tables != hook5 {
        return Some(format!("call tables differ: registered template {tables:?}, hook {hook5:?}"));
    }
    let Some(stored) = hooks::stored_chunks_wire(tera, name) else { return Some(format!("stored_chunks_wire has no template {name}")) };
    let sl: Vec<&String> = stored.iter().map(|c| &c.0).collect();
    let hl: Vec<&String> = hook.chunks.iter().map(|c| &c.0).collect();
    if sl != hl {
        return Some(format!("chunk labels differ: registered template {sl:?}, hook {hl:?}"));
    }
    for ((label, s), (_, h)) in stored.iter().zip(hook.chunks.iter()) {
        if s.len() != h.len() {
            return Some(format!("chunk {label}: {} instructions stored, {} from the hook", s.len(), h.len()));
        }
        let kinds_s = multiset(s.iter().map(|t| split_tok(t).0));
        let kinds_h = multiset(h.iter().map(|t| split_tok(t).0));
        if kinds_s != kinds_h {
            return Some(format!("chunk {label}: instruction kinds differ: stored {kinds_s:?}, hook {kinds_h:?}"));
        }
        let reorderable = s.iter().any(|t| {
            let (k, a) = split_tok(t);
            k == "BuildMap" && a.parse::<usize>().map(|n| n >= 2).unwrap_or(true)
        });
        if !reorderable {
            for (k, (a, b)) in s.iter().zip(h.iter()).enumerate() {
                let (ka, kb) = (split_tok(a).0, split_tok(b).0);
                if ka != kb || (ka != "LoadConst" && a != b) {
                    return Some(format!("chunk {label}, instruction {k}: stored {a}, hook {b}"));
                }
            }
        } else {
            // position independent part: every token that is neither a constant nor a jump
            let keep = |t: &&String| { let k = split_tok(t).0; k != "LoadConst" && !JUMPS.contains(&k) };
            let ms = multiset(s.iter().filter(keep).map(|t| t.as_str()));
            let mh = multiset(h.iter().filter(keep).map(|t| t.as_str()));
            if ms != mh {
                let d: Vec<&&str> = ms.keys().filter(|k| ms.get(*k) != mh.get(*k)).chain(mh.keys().filter(|k| !ms.contains_key(*k))).take(4).collect();
                return Some(format!("chunk {label}: instruction multisets differ, e.g. at {d:?}"));
            }
        }
    }
    None
}

enum TieOut {
    NotRegistered(String),
    RegistrationPanic(String),
    /// (templates compared, failures: (template index in the set, what))
    Checked(usize, Vec<(usize, String)>),
}

fn case_key(name: &str, src: &str) -> String {
    format!("{name}\u{0}{src}")
}

fn tie_set(set: &TSet, index: &HashMap<String, usize>, outs: &[RealOut]) -> TieOut {
    let tera = match build(&set.templates) {
        Ok(t) => t,
        Err(e) if e.starts_with("panic") => return TieOut::RegistrationPanic(e),
        Err(e) => return TieOut::NotRegistered(first_line(&e)),
    };
    let mut n = 0;
    let mut fails = Vec::new();
    for (k, (name, src)) in set.templates.iter().enumerate() {
        // a later template of the same name replaces this one
        if set.templates[k + 1..].iter().any(|(n2, _)| n2 == name) {
            continue;
        }
        let Some(ci) = index.get(&case_key(name, src)).copied() else { continue };
        match &outs[ci] {
            RealOut::Compiled(c) => {
                n += 1;
                if let Some(d) = tie_template(&tera, name, c) {
                    fails.push((k, d));
                }
            }
            RealOut::Rejected(e) => fails.push((k, format!("the hook rejects a template that registers: {}", first_line(e)))),
            RealOut::Panic(p) => fails.push((k, format!("the hook panics on a template that registers: {p}"))),
        }
    }
    TieOut::Checked(n, fails)
}

// ------------------------------------------------------------------------------ property oracles (copied from c07.rs)

fn adversarial_leaves() -> Vec<String> {
    let mut v: Vec<String> = [
        "y:ff00fe", "y:", "u128:340282366920938463463374607431768211455",
        "i128:-170141183460469231731687303715884105728", "u64:18446744073709551615",
        "i64:-9223372036854775808", "f:7ff8000000000000", "f:7ff0000000000000", "f:fff0000000000000",
        "f:8000000000000000", "f:0000000000000001", "f:7fefffffffffffff", "s:", "s:f09f9880c3a9e2808b",
        "S:3c623e", "s:3c7363726970743e26", "U", "N", "B1", "B0", "A0", "M0", "A2 U N", "M1 s:62 U",
        "M2 i64:1 s:78 B1 s:79", "M1 s: i64:1", "i64:0", "i64:-1", "u64:2", "f:3ff8000000000000",
        "A3 i64:3 i64:1 i64:2", "A2 s:62 s:61", "M2 s:62 A1 U s:63 y:80",
    ]
    .iter()
    .map(|s| s.to_string())
    .collect();
    let long: String = "c3a9f09f9880".repeat(60);
    v.push(format!("s:{long}"));
    let mut deep = "i64:1".to_string();
    for i in 0..64 {
        deep = if i % 2 == 0 { format!("A1 {deep}") } else { format!("M1 s:62 {deep}") };
    }
    v.push(deep);
    v
}

fn rich_with_leaf(l: &str) -> String {
    format!("M2 s:62 M2 s:62 {l} s:63 M1 s:62 {l} s:63 A2 {l} M1 s:62 M2 s:62 {l} s:63 M1 s:62 {l}")
}

/// three specs (for the variables a b c): `-` unbound, `L<i>` lattice value, `A<k>` adversarial
/// leaf, `R<k>` the rich shape with leaf k; anything else is a literal wire value
fn adversarial_ctx(rng: &mut Rng, n_leaves: usize) -> Vec<String> {
    (0..3)
        .map(|_| match rng.below(20) {
            0..=4 => format!("L{RICH}"),
            5 => format!("L{RICH_SAFE}"),
            6..=12 => format!("R{}", rng.below(n_leaves)),
            13..=16 => format!("A{}", rng.below(n_leaves)),
            17 => format!("L{}", rng.below(LATTICE.len())),
            _ => "-".to_string(),
        })
        .collect()
}

fn wire_of_spec(spec: &str, leaves: &[String]) -> String {
    let idx = |s: &str| s[1..].parse::<usize>().ok();
    match spec.as_bytes().first() {
        Some(b'L') if idx(spec).is_some_and(|i| i < LATTICE.len()) => LATTICE[idx(spec).unwrap()].to_string(),
        Some(b'A') if spec.len() > 1 && idx(spec).is_some_and(|i| i < leaves.len()) => leaves[idx(spec).unwrap()].clone(),
        Some(b'R') if idx(spec).is_some_and(|i| i < leaves.len()) => rich_with_leaf(&leaves[idx(spec).unwrap()]),
        _ => spec.to_string(),
    }
}

fn ctx_of_specs(w: &[String], leaves: &[String]) -> Context {
    let mut ctx = Context::new();
    for (i, name) in ROOTS.iter().enumerate() {
        let Some(spec) = w.get(i) else { continue };
        let wire = wire_of_spec(spec, leaves);
        if wire != "-" {
            if let Some(v) = decode(&wire) {
                ctx.insert_value(*name, v);
            }
        }
    }
    ctx
}

/// the handful of contexts every oracle run uses: `contexts_for` of the generator + adversarial ones
fn oracle_contexts(rng: &mut Rng, n_random: usize, n_adversarial: usize) -> Vec<Vec<String>> {
    let n_leaves = adversarial_leaves().len();
    let mut out: Vec<Vec<String>> = contexts_for(rng, n_random).iter().map(|c| c.iter().map(|i| format!("L{i}")).collect()).collect();
    for _ in 0..n_adversarial {
        out.push(adversarial_ctx(rng, n_leaves));
    }
    out
}

/// one render: ("ok"|"err"|"panic", detail, what breaks the property)
fn observe(t: &Tera, name: &str, mode: &Mode, ctx: &Context) -> (&'static str, String, Option<String>) {
    let mut w = Capped::new(4 << 20);
    let _ = hooks::take_final_stacks();
    let r = catch(std::panic::AssertUnwindSafe(|| match mode {
        Mode::Render => t.render_to(name, ctx, &mut w),
        Mode::Block(b) => t.render_block_to(name, b, ctx, &mut w),
        Mode::Component(c) => t.render_component_to(c, ctx, Some("bd"), true, &mut w),
    }));
    match r {
        Err(p) => ("panic", p.clone(), Some(format!("panic: {p}"))),
        Ok(Err(e)) => match catch(std::panic::AssertUnwindSafe(|| format!("{e}"))) {
            Err(p) => ("panic", p.clone(), Some(format!("panic while displaying the error: {p}"))),
            Ok(m) => {
                let l = m.to_lowercase();
                let missing = l.contains("has no block lineage")
                    || (l.contains("not found") && (l.contains("template") || l.contains("component") || l.contains("filter") || l.contains("function") || l.contains("test `")))
                    || l.contains("is not registered");
                let first = m.lines().next().unwrap_or("").chars().take(120).collect::<String>();
                // a direct render of a component / block that does not exist is the caller's mistake
                let missing = missing && matches!(mode, Mode::Render);
                ("err", first.clone(), if missing { Some(format!("a missing reference is reported at render time: {first}")) } else { None })
            }
        },
        Ok(Ok(())) => {
            let mut problem = None;
            if std::str::from_utf8(&w.buf).is_err() {
                problem = Some("the rendered bytes are not valid UTF-8".to_string());
            }
            if !matches!(mode, Mode::Component(_)) {
                match hooks::take_final_stacks() {
                    Some((0, 0, 0)) => {}
                    Some(s) => problem = Some(format!("after a successful render the (value, loop, capture) stacks hold {s:?} entries")),
                    None => problem = Some("take_final_stacks() recorded nothing after a successful render".to_string()),
                }
            }
            ("ok", String::new(), problem)
        }
    }
}

/// every name used by a call instruction of any chunk of `name` is in its call tables
fn static_refs(tera: &Tera, name: &str) -> Option<String> {
    let tables = hooks::call_tables(tera, name)?;
    let table = |k: &str| -> HashSet<String> { tables.iter().find(|(kk, _)| kk == k).map(|(_, v)| v.iter().cloned().collect()).unwrap_or_default() };
    let (filters, tests, functions, includes, components) = (table("filter"), table("test"), table("function"), table("include"), table("component"));
    let chunks = hooks::stored_chunks_wire(tera, name)?;
    let own_blocks: HashSet<String> = chunks.iter().filter_map(|(n, _)| n.strip_prefix("block:").map(|s| s.to_string())).collect();
    for (cn, l) in &chunks {
        for tok in l {
            let (kind, arg) = split_tok(tok);
            let n = unhex(arg);
            let ok = match kind {
                "ApplyFilter" => filters.contains(&n),
                "RunTest" => tests.contains(&n),
                "CallFunction" => functions.contains(&n),
                "Include" => includes.contains(&n),
                "RenderInlineComponent" | "RenderBodyComponent" => components.contains(&n),
                "RenderBlock" => own_blocks.contains(&n),
                _ => true,
            };
            if !ok {
                return Some(format!("{kind}({n}) in chunk {cn} of {name} is not in the template's call table"));
            }
        }
    }
    None
}

fn templates_of_json(v: &serde_json::Value) -> Vec<(String, String)> {
    v.as_array()
        .map(|a| a.iter().map(|p| (p[0].as_str().unwrap_or("").to_string(), p[1].as_str().unwrap_or("").to_string())).collect())
        .unwrap_or_default()
}

/// Child process (optimisation pass ON, as in production). Item: {"templates", "name", "ctxs"}.
/// Lines: `B <error>` not registered; `S ok err panic`; `V {json}` one per property problem.
fn child_oracle(infile: &str, outfile: &str) -> ! {
    quiet_panics();
    let leaves = adversarial_leaves();
    let wf_exe = driver::driver_path(&Env::from_env().verif_dir, "drv_c07");
    child_main(
        infile,
        outfile,
        6,
        |_| (),
        |_, item| {
            let templates = templates_of_json(&item["templates"]);
            let name = item["name"].as_str().unwrap_or("");
            let tera = match build(&templates) {
                Ok(t) => t,
                Err(e) if e.starts_with("panic") => {
                    return vec![format!("V {}", serde_json::json!({"oracle": "registration", "problem": format!("registration panics: {}", clip(&e, 200))}))];
                }
                Err(e) => return vec![format!("B {}", first_line(&e))],
            };
            let mut lines = Vec::new();
            // (d) every call name is in the call tables; (c) every stored chunk passes the verified checker
            let mut reqs = Vec::new();
            let mut req_of = Vec::new();
            for (n, _) in &templates {
                if let Some(d) = static_refs(&tera, n) {
                    lines.push(format!("V {}", serde_json::json!({"oracle": "static-refs", "problem": format!("a reference is not collected for validation: {d}")})));
                }
                for (cn, l) in hooks::stored_chunks_wire(&tera, n).unwrap_or_default() {
                    reqs.push(format!("wf {}", l.join(" ")));
                    req_of.push((n.clone(), cn, l.join(" ")));
                }
            }
            match driver::run_batch(&wf_exe, &reqs) {
                Ok(ans) => {
                    for (a, (n, cn, l)) in ans.iter().zip(req_of.iter()) {
                        if a != "ok" {
                            lines.push(format!("V {}", serde_json::json!({"oracle": "wf", "problem": format!("the verified bytecode checker rejects chunk {cn} of {n}: {a}"), "chunk_listing": l})));
                        }
                    }
                    lines.push(format!("W {}", ans.len()));
                }
                Err(e) => lines.push(format!("D {}", first_line(&e))),
            }
            // (a) renders do not panic, (b) final stacks are empty
            let mut modes = vec![Mode::Render];
            for (cn, _) in hooks::stored_chunks_wire(&tera, name).unwrap_or_default() {
                if let Some(b) = cn.strip_prefix("block:") {
                    modes.push(Mode::Block(b.to_string()));
                } else if let Some(c) = cn.strip_prefix("component:") {
                    modes.push(Mode::Component(c.to_string()));
                }
            }
            let mut counts = [0u64; 3];
            let mut n_v = 0;
            let empty = Vec::new();
            for mode in &modes {
                for c in item["ctxs"].as_array().unwrap_or(&empty) {
                    let specs: Vec<String> = c.as_array().map(|a| a.iter().map(|x| x.as_str().unwrap_or("-").to_string()).collect()).unwrap_or_default();
                    let ctx = ctx_of_specs(&specs, &leaves);
                    let (class, detail, problem) = observe(&tera, name, mode, &ctx);
                    counts[match class { "ok" => 0, "err" => 1, _ => 2 }] += 1;
                    if let Some(p) = problem {
                        if n_v < 3 {
                            n_v += 1;
                            lines.push(format!("V {}", serde_json::json!({"oracle": "render", "mode": format!("{mode:?}"), "ctx": specs, "class": class, "detail": detail, "problem": p})));
                        }
                    }
                }
            }
            lines.push(format!("S {} {} {}", counts[0], counts[1], counts[2]));
            lines
        },
    )
}

#[derive(Default, Debug)]
struct OracleOut {
    registered: bool,
    build_error: Option<String>,
    renders: [u64; 3],
    wf_checked: u64,
    problems: Vec<serde_json::Value>,
    notes: Vec<String>,
}

/// run the oracles on a list of (set, template to render) in one child process (restarted after a
/// case that does not come back); a case that does not come back is run again alone with 30 s
fn run_oracle(id: usize, items: &[(Vec<(String, String)>, String)], ctxs: &[Vec<String>], wall: Duration) -> Vec<OracleOut> {
    let mk = |t: &Vec<(String, String)>, n: &String| serde_json::json!({"templates": t, "name": n, "ctxs": ctxs});
    let b = Batch { common: serde_json::json!({}), items: items.iter().map(|(t, n)| mk(t, n)).collect() };
    let r = run_batch(CHILD_FLAG, id, &b, wall, 3);
    let mut out: Vec<OracleOut> = (0..items.len()).map(|_| OracleOut::default()).collect();
    let digest = |o: &mut OracleOut, lines: &Vec<String>| {
        o.registered = true;
        for l in lines {
            if let Some(v) = l.strip_prefix("V ") {
                if let Ok(j) = serde_json::from_str::<serde_json::Value>(v) {
                    o.problems.push(j);
                }
            } else if let Some(e) = l.strip_prefix("B ") {
                o.registered = false;
                o.build_error = Some(e.to_string());
            } else if let Some(s) = l.strip_prefix("S ") {
                let v: Vec<u64> = s.split(' ').filter_map(|x| x.parse().ok()).collect();
                if v.len() == 3 {
                    o.renders = [v[0], v[1], v[2]];
                }
            } else if let Some(w) = l.strip_prefix("W ") {
                o.wf_checked = w.parse().unwrap_or(0);
            } else if let Some(d) = l.strip_prefix("D ") {
                o.notes.push(format!("checker driver unavailable: {d}"));
            }
        }
    };
    for (i, lines) in &r.results {
        digest(&mut out[*i], lines);
    }
    for (i, reason) in &r.culprits {
        let mut item = mk(&items[*i].0, &items[*i].1);
        item["ctxs"] = serde_json::json!(ctxs);
        let b1 = Batch { common: serde_json::json!({"limit_secs": 30}), items: vec![item] };
        let again = run_batch(CHILD_FLAG, id + 500_000 + i, &b1, Duration::from_secs(90), 0);
        if let Some((_, r2)) = again.culprits.first() {
            out[*i].registered = true;
            out[*i].problems.push(serde_json::json!({"oracle": "render", "problem": format!("registering / rendering does not return an answer: {r2} (first seen: {reason}; limit 30 s / 3 GiB for the case on its own)")}));
        } else if let Some((_, lines)) = again.results.first() {
            digest(&mut out[*i], lines);
        }
    }
    out
}

// ------------------------------------------------------------------------------ one case, shrinking

struct Diff {
    stage: String,
    what: String,
    real: String,
    model: String,
}

/// the stage diff of a list of sources of one template name, with ONE driver run.
/// Per source: None = rejected by the parser or agreement.
fn diff_batch(exe: &std::path::Path, name: &str, srcs: &[String]) -> Vec<Option<Diff>> {
    let reals: Vec<RealOut> = srcs.iter().map(|s| real_side(name, s)).collect();
    let mut reqs = Vec::new();
    for r in &reals {
        if let RealOut::Compiled(c) = r {
            reqs.push(format!("compile {}", c.wire));
        }
    }
    let answers = if reqs.is_empty() { Ok(Vec::new()) } else { driver::run_batch(exe, &reqs) };
    let mut k = 0;
    reals
        .iter()
        .zip(srcs.iter())
        .map(|(r, src)| match r {
            RealOut::Rejected(_) => None,
            RealOut::Panic(p) => {
                let model = hooks::template_wire(src, Delimiters::default()).ok().and_then(|w| driver::run_batch(exe, &[format!("compile {w}")]).ok()).and_then(|a| a.into_iter().next()).unwrap_or_default();
                Some(Diff { stage: "real:panic".into(), what: format!("the real compiler panics: {p}"), real: format!("panic {p}"), model })
            }
            RealOut::Compiled(c) => {
                let real = canon_real(c);
                let i = k;
                k += 1;
                match &answers {
                    Err(e) => Some(Diff { stage: "compile:driver".into(), what: clip(e, 300), real: sections_text(&real), model: String::new() }),
                    Ok(a) => compare(&real, &a[i]).map(|(stage, what)| Diff { stage, what, real: sections_text(&real), model: a[i].clone() }),
                }
            }
        })
        .collect()
}

/// greedy deletion of segments, then of characters, while a mismatch of the same kind remains
/// `keep`: the set the template belongs to when that set registers — candidates that no longer
/// register (a renamed filter, a lost helper) are then not taken, so the oracles can still run
fn shrink(exe: &std::path::Path, name: &str, src: &str, kind: &str, deadline: Instant, keep: Option<&[(String, String)]>) -> String {
    let mut best = src.to_string();
    let same = |d: &Option<Diff>| d.as_ref().is_some_and(|d| stage_kind(&d.stage) == kind);
    let pick = |ds: &[Option<Diff>], cands: &[String]| -> Option<usize> {
        ds.iter().enumerate().position(|(i, d)| same(d) && keep.is_none_or(|set| build(&with_source(set, name, &cands[i])).is_ok()))
    };
    // segments
    loop {
        if Instant::now() > deadline {
            return best;
        }
        let segs = segments(&best);
        if segs.len() <= 1 {
            break;
        }
        let mut cands: Vec<String> = Vec::new();
        // whole balanced ranges first (they keep the template parsable), then single segments
        for i in 0..segs.len() {
            if let Some(j) = matching_close(&segs, i) {
                cands.push(segs[..i].concat() + &segs[j + 1..].concat());
                cands.push(segs[..i].concat() + &segs[i + 1..j].concat() + &segs[j + 1..].concat());
            }
        }
        for i in 0..segs.len() {
            cands.push(segs[..i].concat() + &segs[i + 1..].concat());
        }
        cands.retain(|c| c.len() < best.len());
        cands.truncate(400);
        let ds = diff_batch(exe, name, &cands);
        match pick(&ds, &cands) {
            Some(i) => best = cands[i].clone(),
            None => break,
        }
    }
    // characters (windows of 8, 3, 1)
    for w in [8usize, 3, 1] {
        loop {
            if Instant::now() > deadline || best.chars().count() > 600 {
                return best;
            }
            let chars: Vec<char> = best.chars().collect();
            if chars.len() <= w {
                break;
            }
            let cands: Vec<String> = (0..=chars.len() - w).map(|i| chars[..i].iter().chain(chars[i + w..].iter()).collect()).collect();
            let ds = diff_batch(exe, name, &cands);
            match pick(&ds, &cands) {
                Some(i) => best = cands[i].clone(),
                None => break,
            }
        }
    }
    best
}

fn with_source(set: &[(String, String)], name: &str, src: &str) -> Vec<(String, String)> {
    let mut t: Vec<(String, String)> = set.to_vec();
    match t.iter().rposition(|(n, _)| n == name) {
        Some(i) => t[i].1 = src.to_string(),
        None => t.push((name.to_string(), src.to_string())),
    }
    t
}

/// mutated variants of `src` that the real parser still accepts
fn neighbours(rng: &mut Rng, name: &str, src: &str, n: usize) -> Vec<String> {
    let mut out: Vec<String> = Vec::new();
    let mut seen: HashSet<String> = HashSet::new();
    seen.insert(src.to_string());
    let chars: Vec<char> = src.chars().collect();
    let mut tries = 0;
    while out.len() < n && tries < n * 6 {
        tries += 1;
        let cand = if rng.chance(2, 3) || chars.len() < 2 {
            let mut s = src.to_string();
            for _ in 0..(1 + rng.below(2)) {
                if let Some((_, m)) = mutate(rng, &s) {
                    s = m;
                }
            }
            s
        } else {
            // a small edit of the text: delete / duplicate / swap a window of characters
            let i = rng.below(chars.len());
            let w = (1 + rng.below(6)).min(chars.len() - i);
            let mut c = chars.clone();
            match rng.below(3) {
                0 => {
                    c.drain(i..i + w);
                }
                1 => {
                    let part: Vec<char> = c[i..i + w].to_vec();
                    for (k, ch) in part.into_iter().enumerate() {
                        c.insert(i + w + k, ch);
                    }
                }
                _ => {
                    let j = rng.below(chars.len());
                    c.swap(i, j);
                }
            }
            c.into_iter().collect()
        };
        if cand.len() > 50_000 || !seen.insert(cand.clone()) {
            continue;
        }
        if matches!(real_side(name, &cand), RealOut::Compiled(_)) {
            out.push(cand);
        }
    }
    out
}

// ------------------------------------------------------------------------------ a mismatch: shrink, oracles, neighbours, report

#[allow(clippy::too_many_arguments)]
fn investigate(report: &mut Report, exe: &std::path::Path, rng: &mut Rng, env: &Env, set: &TSet, name: &str, src: &str, first: &Diff, id: usize) {
    let kind = stage_kind(&first.stage);
    let t0 = Instant::now();
    let registers = build(&set.templates).is_ok();
    let keep: Option<&[(String, String)]> = if registers { Some(&set.templates) } else { None };
    let small = if kind == "compile:driver" { src.to_string() } else { shrink(exe, name, src, &kind, t0 + Duration::from_secs(env.budget(4, 20) as u64), keep) };
    let d = diff_batch(exe, name, &[small.clone()]).into_iter().next().flatten();
    let (small, d) = match d {
        Some(d) if stage_kind(&d.stage) == kind => (small, d),
        _ => (src.to_string(), Diff { stage: first.stage.clone(), what: first.what.clone(), real: first.real.clone(), model: first.model.clone() }),
    };
    report.count(&format!("mismatch.reported.{kind}"));
    // the property itself on the real engine: the shrunk case, the original one, then neighbours
    let ctxs = oracle_contexts(rng, 2, 4);
    let small_set = with_source(&set.templates, name, &small);
    let mut items: Vec<(Vec<(String, String)>, String)> = vec![(small_set.clone(), name.to_string()), (set.templates.clone(), name.to_string())];
    let n_neigh = 10 * env.budget(30, 150);
    for s in neighbours(rng, name, &small, n_neigh) {
        items.push((with_source(&set.templates, name, &s), name.to_string()));
    }
    let outs = run_oracle(id, &items, &ctxs, Duration::from_secs(env.budget(60, 600) as u64));
    let mut registered = 0u64;
    for o in &outs {
        if o.registered {
            registered += 1;
        }
        report.oracle_checks += o.renders.iter().sum::<u64>() + o.wf_checked;
        report.oracle_failures += o.problems.len() as u64;
        for n in &o.notes {
            if !report.notes.contains(n) && report.notes.len() < 12 {
                report.notes.push(n.clone());
            }
        }
    }
    report.count_n("mismatch.oracle.sets_tried", outs.len() as u64);
    report.count_n("mismatch.oracle.sets_registered", registered);
    let base = serde_json::json!({
        "harness_bin": BIN, "stage": d.stage, "name": name, "source": small, "templates": small_set, "real": d.real, "model": d.model,
        "original_source": clip(src, 4000), "stream": set.stream, "origin": set.origin,
        "detail": {"stage": d.stage, "difference": d.what, "oracle_sets_tried": outs.len(), "oracle_sets_registered": registered, "contexts": ctxs},
        "rerun": format!("harness/target/release/{BIN} --replay <this file>"),
    });
    if let Some((i, o)) = outs.iter().enumerate().find(|(_, o)| !o.problems.is_empty()) {
        let mut p = o.problems[0].clone();
        let mut failing_set = items[i].0.clone();
        if i != 0 {
            // the failure is not on the shrunk case: shrink this one while the same oracle still fails
            let okind = p["oracle"].as_str().unwrap_or("").to_string();
            let one_ctx: Vec<Vec<String>> = match p["ctx"].as_array() {
                Some(c) => vec![c.iter().map(|x| x.as_str().unwrap_or("-").to_string()).collect()],
                None => ctxs.clone(),
            };
            let mut best = failing_set.iter().rfind(|(n, _)| n == name).map(|t| t.1.clone()).unwrap_or_default();
            let deadline = Instant::now() + Duration::from_secs(env.budget(8, 40) as u64);
            let mut round = 0;
            while Instant::now() < deadline {
                round += 1;
                let segs = segments(&best);
                if segs.len() <= 1 {
                    break;
                }
                let mut cands: Vec<String> = Vec::new();
                for k in 0..segs.len() {
                    if let Some(j) = matching_close(&segs, k) {
                        cands.push(segs[..k].concat() + &segs[j + 1..].concat());
                        cands.push(segs[..k].concat() + &segs[k + 1..j].concat() + &segs[j + 1..].concat());
                    }
                }
                for k in 0..segs.len() {
                    cands.push(segs[..k].concat() + &segs[k + 1..].concat());
                }
                cands.retain(|c| c.len() < best.len() && matches!(real_side(name, c), RealOut::Compiled(_)));
                cands.truncate(120);
                if cands.is_empty() {
                    break;
                }
                let its: Vec<(Vec<(String, String)>, String)> = cands.iter().map(|c| (with_source(&failing_set, name, c), name.to_string())).collect();
                let os = run_oracle(id + 100 * round, &its, &one_ctx, Duration::from_secs(60));
                match os.iter().position(|o| o.problems.iter().any(|q| q["oracle"].as_str().unwrap_or("") == okind)) {
                    Some(k) => {
                        best = cands[k].clone();
                        failing_set = its[k].0.clone();
                        p = os[k].problems.iter().find(|q| q["oracle"].as_str().unwrap_or("") == okind).cloned().unwrap_or(p);
                    }
                    None => break,
                }
            }
        }
        let mut replay = base.clone();
        replay["templates"] = serde_json::json!(failing_set);
        replay["source"] = serde_json::json!(failing_set.iter().rfind(|(n, _)| n == name).map(|t| t.1.clone()));
        replay["oracle"] = p.clone();
        replay["where"] = serde_json::json!(match i { 0 => "the shrunk case", 1 => "the original case (shrunk again while the oracle still fails)", _ => "a neighbour of the shrunk case (shrunk again while the oracle still fails)" });
        report.violation(
            "property",
            format!("`{}` ({name}): {} [found while following the compiler stage mismatch {}]", clip(replay["source"].as_str().unwrap_or(""), 300), p["problem"].as_str().unwrap_or("?"), d.stage),
            replay,
        );
    } else {
        report.violation(
            "model-mismatch",
            format!("{}: real compiler and Lean model compiler differ on `{}` ({name}): {}", d.stage, clip(&small, 300), clip(&d.what, 300)),
            base,
        );
    }
}

// ------------------------------------------------------------------------------ replay, dump

fn print_case(exe: &std::path::Path, name: &str, src: &str) {
    println!("template {name}: {src}");
    match real_side(name, src) {
        RealOut::Rejected(e) => println!("real: rejected-by-parser: {}", first_line(&e)),
        RealOut::Panic(p) => {
            println!("real: PANIC {p}");
            if let Ok(w) = hooks::template_wire(src, Delimiters::default()) {
                println!("ast (kwargs sorted): {w}");
                println!("model: {:?}", driver::run_batch(exe, &[format!("compile {w}")]));
            }
        }
        RealOut::Compiled(c) => {
            let real = canon_real(&c);
            println!("ast: {}", c.wire);
            println!("real:  {}", sections_text(&real));
            match driver::run_batch(exe, &[format!("compile {}", c.wire)]) {
                Err(e) => println!("model: driver error: {e}"),
                Ok(a) => {
                    println!("model: {}", a[0]);
                    match compare(&real, &a[0]) {
                        None => println!("stage diff: agreement"),
                        Some((stage, what)) => println!("stage diff: MISMATCH {stage}: {what}"),
                    }
                }
            }
        }
    }
}

fn run_replay(path: &str, exe: &std::path::Path) {
    let text = std::fs::read_to_string(path).expect("replay file");
    let j: serde_json::Value = serde_json::from_str(&text).expect("replay json");
    let j = if j.get("replay").is_some() { j["replay"].clone() } else { j };
    let templates = templates_of_json(&j["templates"]);
    let name = j["name"].as_str().map(|s| s.to_string()).or_else(|| templates.last().map(|t| t.0.clone())).unwrap_or_default();
    let src = j["source"].as_str().map(|s| s.to_string()).or_else(|| templates.iter().rfind(|(n, _)| *n == name).map(|t| t.1.clone())).unwrap_or_default();
    println!("stage recorded: {}", j["stage"]);
    print_case(exe, &name, &src);
    let set = if templates.is_empty() { vec![(name.clone(), src.clone())] } else { with_source(&templates, &name, &src) };
    for (n, s) in &set {
        if *n != name {
            println!("with template {n}: {s}");
        }
    }
    // second tie (this process: optimisation off)
    let idx: HashMap<String, usize> = set.iter().enumerate().map(|(i, (n, s))| (case_key(n, s), i)).collect();
    let outs: Vec<RealOut> = set.iter().map(|(n, s)| real_side(n, s)).collect();
    match tie_set(&TSet { stream: "replay", origin: String::new(), templates: set.clone() }, &idx, &outs) {
        TieOut::NotRegistered(e) => println!("registration: refused: {e}"),
        TieOut::RegistrationPanic(e) => println!("registration: PANIC {e}"),
        TieOut::Checked(n, f) => println!("hook vs Template::new on {n} templates: {}", if f.is_empty() { "agreement".to_string() } else { format!("{f:?}") }),
    }
    // the property oracles, optimisation on, in a child
    let mut ctxs = oracle_contexts(&mut Rng::new(7), 2, 4);
    if let Some(c) = j["oracle"]["ctx"].as_array() {
        ctxs.insert(0, c.iter().map(|x| x.as_str().unwrap_or("-").to_string()).collect());
    }
    if let Some(cs) = j["detail"]["contexts"].as_array() {
        for c in cs {
            if let Some(c) = c.as_array() {
                ctxs.push(c.iter().map(|x| x.as_str().unwrap_or("-").to_string()).collect());
            }
        }
    }
    let o = run_oracle(1, &[(set, name)], &ctxs, Duration::from_secs(120));
    println!("oracles (renders ok/err/panic, checker, problems): {:?}", o[0]);
    tera_verif_harness::childrun::cleanup();
}

fn ast_tags(wire: &str, report: &mut Report) {
    for w in wire.split(' ') {
        let tag: &str = w.split(':').next().unwrap_or("");
        let key = match tag {
            "Fil" | "Tst" | "Fn" | "Ter" | "LC" | "CC0" | "CC1" | "SL0" | "SL1" | "GA0" | "GA1" | "GI0" | "GI1" | "Blk" | "For" | "If" | "FS" | "Inc" | "Brk" | "Cnt" | "Not" | "Neg" | "Sp" | "Comp" | "Content" | "Bin" => tag,
            t if t.starts_with("BSet") => "BSet",
            t if t.starts_with("Set") => "Set",
            t if t.starts_with('K') && t[1..].parse::<usize>().is_ok() => {
                let n: usize = t[1..].parse().unwrap_or(0);
                match n { 0 => "K0", 1 => "K1", 2 => "K2", 3 => "K3", 4 => "K4", _ => "K5+" }
            }
            _ => continue,
        };
        if key == "Bin" {
            report.count(&format!("ast.{w}"));
        } else {
            report.count(&format!("ast.{key}"));
        }
    }
}

// ------------------------------------------------------------------------------ main

fn main() {
    quiet_panics();
    let args: Vec<String> = std::env::args().collect();
    if let Some(i) = args.iter().position(|a| a == CHILD_FLAG) {
        // the oracles run with the optimisation pass on, as in production
        child_oracle(&args[i + 1], &args[i + 2]);
    }
    let env = Env::from_env();
    // c07c never needs optimised code in this process
    hooks::set_skip_optimize(true);
    let threads = std::thread::available_parallelism().map(|n| n.get()).unwrap_or(8).min(16);
    let exe = driver::driver_path(&env.verif_dir, "drv_c07c");
    if let Some(p) = replay_path() {
        run_replay(&p, &exe);
        return;
    }
    let t_start = Instant::now();
    let mut report = Report::new("C07");
    let mut rng = Rng::new(env.seed ^ 0x07c);

    // ---- input streams
    let mut sets: Vec<TSet> = Vec::new();
    for c in generate_cases(&mut rng, env.budget(2, 60), env.budget(1500, 60_000)) {
        sets.push(TSet { stream: if c.stream == "general" { "bcgen-general" } else { "bcgen-jump" }, origin: format!("case {} {} {:?}", c.id, c.shape, c.place), templates: c.templates() });
    }
    sets.extend(repo_sets(&mut report));
    sets.extend(directed_sets());
    sets.extend(kwargs_sets(&mut rng, env.budget(500, 10_000)));
    let n_mut = env.budget(2500, 80_000);
    let muts = mutation_sets(&mut rng, &sets, n_mut);
    sets.extend(muts);

    if std::env::var("C07C_DUMP").is_ok() {
        // the real side alone (and the model's answer when the driver is there) for a few templates
        let want = std::env::var("C07C_DUMP").unwrap_or_default();
        if want == "rejected" {
            // which hand-written templates the parser refuses, and why
            for s in sets.iter().filter(|s| s.stream == "directed") {
                let (name, src) = s.templates.last().unwrap();
                match real_side(name, src) {
                    RealOut::Rejected(e) => println!("REJECTED {src}\n    {}", e.lines().filter(|l| !l.trim().is_empty()).take(6).collect::<Vec<_>>().join(" / ")),
                    RealOut::Panic(p) => println!("PANIC {src}\n    {p}"),
                    RealOut::Compiled(_) => {
                        if let Err(e) = build(&s.templates) {
                            println!("NOT-REGISTERED {src}\n    {}", first_line(&e));
                        }
                    }
                }
            }
            return;
        }
        let n: usize = want.parse().unwrap_or(8);
        for s in sets.iter().filter(|s| s.stream == "directed").skip(1).take(n) {
            let (name, src) = s.templates.last().unwrap();
            print_case(&exe, name, src);
            println!();
        }
        return;
    }

    // ---- cases: every distinct (name, source)
    struct CaseRef {
        set: usize,
        tpl: usize,
    }
    let mut cases: Vec<CaseRef> = Vec::new();
    let mut index: HashMap<String, usize> = HashMap::new();
    for (si, s) in sets.iter().enumerate() {
        for (ti, (n, src)) in s.templates.iter().enumerate() {
            let key = case_key(n, src);
            if !index.contains_key(&key) {
                index.insert(key, cases.len());
                cases.push(CaseRef { set: si, tpl: ti });
            }
        }
    }
    let case_tpl = |c: &CaseRef| -> &(String, String) { &sets[c.set].templates[c.tpl] };

    // ---- real side, all cores
    let outs: Vec<RealOut> = par_map(&cases, threads, |_, c| {
        let (n, s) = case_tpl(c);
        real_side(n, s)
    });
    let mut compiled_idx: Vec<usize> = Vec::new();
    let mut real_panics: Vec<usize> = Vec::new();
    let mut distinct: HashSet<&str> = HashSet::new();
    for (i, o) in outs.iter().enumerate() {
        let stream = sets[cases[i].set].stream;
        report.count(&format!("stream.{stream}.templates"));
        match o {
            RealOut::Compiled(c) => {
                report.count(&format!("stream.{stream}.compiled"));
                report.count("outcome.compiled");
                compiled_idx.push(i);
                let n = n_instructions(c);
                report.count(&format!("size.instructions.{}", match n { 0..=2 => "0-2", 3..=9 => "3-9", 10..=29 => "10-29", 30..=99 => "30-99", _ => "100+" }));
                report.count(&format!("size.chunks.{}", match c.chunks.len() { 1 => "1", 2 => "2", 3 => "3", _ => "4+" }));
                if n >= 3 {
                    distinct.insert(c.wire.as_str());
                }
                for (_, l) in &c.chunks {
                    for tok in l {
                        report.count(&format!("instr.{}", split_tok(tok).0));
                    }
                }
                ast_tags(&c.wire, &mut report);
            }
            RealOut::Rejected(_) => {
                report.count(&format!("stream.{stream}.rejected-by-parser"));
                report.count("outcome.rejected-by-parser");
            }
            RealOut::Panic(_) => {
                report.count(&format!("stream.{stream}.real-compiler-panic"));
                report.count("outcome.real-compiler-panic");
                real_panics.push(i);
            }
        }
    }
    report.evaluations = compiled_idx.len() as u64;
    report.distinct_nontrivial = distinct.len() as u64;
    let reach = if cases.is_empty() { 0.0 } else { 100.0 * compiled_idx.len() as f64 / cases.len() as f64 };
    report.count_n("reach.percent_of_templates_compiled", reach.round() as u64);
    report.notes.push(format!("{} of {} distinct (name, source) templates are accepted by the real parser and reach the compiler ({reach:.1} %); the others are counted as rejected-by-parser", compiled_idx.len(), cases.len()));
    if reach < 60.0 {
        report.violation("model-mismatch", format!("only {reach:.1} % of the generated templates reach the compiler (at least 60 % required)"), serde_json::json!({"harness_bin": BIN, "detail": {"stage": "generator:reach"}}));
    }

    // ---- model side
    let reqs: Vec<String> = compiled_idx.iter().map(|i| match &outs[*i] { RealOut::Compiled(c) => format!("compile {}", c.wire), _ => unreachable!() }).collect();
    let answers: Vec<String> = match driver::run_batch_parallel(&exe, &reqs, threads) {
        Ok(a) => a,
        Err(e) => {
            report.violation("model-mismatch", format!("compile:driver: model driver could not be run: {}", clip(&e, 300)), serde_json::json!({"harness_bin": BIN, "stage": "compile:driver", "detail": {"stage": "compile:driver", "error": e}}));
            Vec::new()
        }
    };
    let cmp: Vec<Option<(String, String)>> = if answers.is_empty() {
        Vec::new()
    } else {
        let pairs: Vec<(usize, &String)> = compiled_idx.iter().copied().zip(answers.iter()).collect();
        par_map(&pairs, threads, |_, (i, a)| match &outs[*i] { RealOut::Compiled(c) => compare(&canon_real(c), a), _ => None })
    };
    let mut mismatches: Vec<(usize, usize)> = Vec::new(); // (case, position among the compiled ones)
    for (k, c) in cmp.iter().enumerate() {
        report.model_comparisons += 1;
        match c {
            None => report.count("model.agreement"),
            Some((stage, _)) => {
                report.model_disagreements += 1;
                report.count(&format!("model.mismatch.{}", stage_kind(stage)));
                mismatches.push((compiled_idx[k], k));
            }
        }
    }

    // ---- second tie: hook vs what Template::new stored (optimisation off), per set that registers
    let ties: Vec<TieOut> = par_map(&sets, threads, |_, s| tie_set(s, &index, &outs));
    let mut tie_fail: Vec<(usize, usize, String)> = Vec::new();
    let mut reg_panics: Vec<(usize, String)> = Vec::new();
    for (si, t) in ties.iter().enumerate() {
        let stream = sets[si].stream;
        match t {
            TieOut::NotRegistered(e) => {
                report.count(&format!("tie.{stream}.set-not-registered"));
                if sets[si].stream == "directed" && report.notes.len() < 10 && std::env::var("C07C_VERBOSE").is_ok() {
                    report.notes.push(format!("directed set not registered: {} ({e})", clip(&sets[si].templates.last().unwrap().1, 100)));
                }
            }
            TieOut::RegistrationPanic(e) => {
                report.count(&format!("tie.{stream}.registration-panic"));
                reg_panics.push((si, e.clone()));
            }
            TieOut::Checked(n, fails) => {
                report.count(&format!("tie.{stream}.set-registered"));
                report.count_n("tie.templates_compared", *n as u64);
                report.oracle_checks += *n as u64;
                report.oracle_failures += fails.len() as u64;
                for (k, d) in fails {
                    tie_fail.push((si, *k, d.clone()));
                }
            }
        }
    }
    for (si, k, d) in tie_fail.iter().take(3) {
        let (n, s) = &sets[*si].templates[*k];
        report.violation(
            "model-mismatch",
            format!("hook:template-new: compile_stage_wire and the registered template differ on `{}` ({n}): {}", clip(s, 300), clip(d, 400)),
            serde_json::json!({"harness_bin": BIN, "stage": "hook:template-new", "name": n, "source": s, "templates": sets[*si].templates, "detail": {"stage": "hook:template-new", "difference": d}}),
        );
    }

    // ---- a panic of the real compiler on an AST its parser accepted
    let mut seen_panic: HashSet<String> = HashSet::new();
    for i in real_panics.iter() {
        let RealOut::Panic(p) = &outs[*i] else { continue };
        if !seen_panic.insert(p.chars().take(60).collect()) || seen_panic.len() > 3 {
            continue;
        }
        let set = &sets[cases[*i].set];
        let (n, s) = case_tpl(&cases[*i]);
        // smallest source on which the compiler still panics
        let mut best = s.clone();
        let t0 = Instant::now();
        'outer: while t0.elapsed() < Duration::from_secs(4) {
            let segs = segments(&best);
            for k in 0..segs.len() {
                let cand = segs[..k].concat() + &segs[k + 1..].concat();
                if matches!(real_side(n, &cand), RealOut::Panic(_)) {
                    best = cand;
                    continue 'outer;
                }
            }
            break;
        }
        let alone = vec![(n.clone(), best.clone())];
        let model = hooks::template_wire(&best, Delimiters::default()).ok().and_then(|w| driver::run_batch(&exe, &[format!("compile {w}")]).ok()).and_then(|a| a.into_iter().next());
        report.oracle_checks += 1;
        match build(&alone) {
            Err(e) if e.starts_with("panic") => {
                report.oracle_failures += 1;
                report.violation(
                    "property",
                    format!("registering `{}` panics in the compiler ({}); the parser accepts the template", clip(&best, 300), clip(&e, 200)),
                    serde_json::json!({"harness_bin": BIN, "stage": "real:panic", "name": n, "source": best, "templates": alone, "expect_registration_error": true, "model": model,
                        "original_source": clip(s, 2000), "stream": set.stream, "origin": set.origin, "detail": {"stage": "real:panic", "panic": p}}),
                );
            }
            other => {
                report.violation(
                    "model-mismatch",
                    format!("hook:template-new: compile_stage_wire panics ({}) on `{}` but registration says {:?}", clip(p, 200), clip(&best, 300), other.map(|_| "accepted").map_err(|e| first_line(&e))),
                    serde_json::json!({"harness_bin": BIN, "stage": "hook:template-new", "name": n, "source": best, "templates": alone, "model": model, "detail": {"stage": "hook:template-new", "panic": p}}),
                );
            }
        }
        if let Some(m) = &model {
            if m.starts_with("ok scoped=1") {
                report.model_disagreements += 1;
                report.violation(
                    "model-mismatch",
                    format!("compile:panic: the real compiler panics ({}) on `{}`, the model compiles it", clip(p, 200), clip(&best, 300)),
                    serde_json::json!({"harness_bin": BIN, "stage": "compile:panic", "name": n, "source": best, "templates": alone, "real": format!("panic {p}"), "model": m, "detail": {"stage": "compile:panic"}}),
                );
            }
        }
    }
    for (si, e) in reg_panics.iter().take(2) {
        if !real_panics.is_empty() {
            break; // already reported through the hook
        }
        report.oracle_failures += 1;
        report.violation(
            "property",
            format!("registering the set of `{}` panics: {}", clip(&sets[*si].templates.last().map(|t| t.1.clone()).unwrap_or_default(), 300), clip(e, 200)),
            serde_json::json!({"harness_bin": BIN, "stage": "real:panic", "templates": sets[*si].templates, "expect_registration_error": true, "detail": {"stage": "real:panic", "panic": e}}),
        );
    }

    // ---- mismatches: first 5 distinct stage kinds; shrink, oracles, neighbours
    let mut kinds_done: HashSet<String> = HashSet::new();
    let t_inv = Instant::now();
    for (n_done, (ci, k)) in mismatches.iter().enumerate() {
        let Some((stage, what)) = &cmp[*k] else { continue };
        let kind = stage_kind(stage);
        if kinds_done.contains(&kind) || kinds_done.len() >= 5 {
            continue;
        }
        if t_inv.elapsed() > Duration::from_secs(env.budget(60, 600) as u64) {
            report.notes.push(format!("{} further mismatches not followed up (time)", mismatches.len() - n_done));
            break;
        }
        kinds_done.insert(kind);
        let set = &sets[cases[*ci].set];
        let (n, s) = case_tpl(&cases[*ci]);
        let RealOut::Compiled(c) = &outs[*ci] else { continue };
        let first = Diff { stage: stage.clone(), what: what.clone(), real: sections_text(&canon_real(c)), model: answers[*k].clone() };
        investigate(&mut report, &exe, &mut rng, &env, set, n, s, &first, 1000 + n_done);
    }

    // ---- samples, rule
    for k in [0usize, compiled_idx.len() / 3, compiled_idx.len() / 2, compiled_idx.len().saturating_sub(1)] {
        let Some(i) = compiled_idx.get(k) else { continue };
        let RealOut::Compiled(c) = &outs[*i] else { continue };
        let (n, s) = case_tpl(&cases[*i]);
        report.sample(serde_json::json!({"stream": sets[cases[*i].set].stream, "name": n, "source": clip(s, 600), "ast": clip(&c.wire, 600), "real": clip(&sections_text(&canon_real(c)), 1200), "model": answers.get(k).map(|a| clip(a, 1200)), "agree": cmp.get(k).map(|c| c.is_none())}));
    }
    if let Some(i) = (0..cases.len()).find(|i| matches!(outs[*i], RealOut::Rejected(_))) {
        if let RealOut::Rejected(e) = &outs[i] {
            report.sample(serde_json::json!({"stream": sets[cases[i].set].stream, "source": clip(&case_tpl(&cases[i]).1, 300), "rejected-by-parser": first_line(e)}));
        }
    }
    report.exhaustive = false;
    report.rule = format!(
        "evaluations = distinct (name, source) templates that the real parser accepts (streams: bytecode generator, the repository's snapshot / bench / doc templates whole and line by line, a directed list over every compiler construct, generated calls with 2 to 6 keyword arguments, tag-level mutants); each one's real AST is compiled by the Lean model (drv_c07c) and compared with the real compiler's listing (main, every block, every component, call tables; spans by presence). Non-trivial: distinct by AST wire text among those whose real listing has at least 3 instructions. oracle_checks = templates whose hook output was compared with the registered template (call_tables, stored_chunks_wire; optimisation off){}.",
        if mismatches.is_empty() { "" } else { " + renders and checker runs while following up mismatches" }
    );
    report.count_n("time.total_ms", t_start.elapsed().as_millis() as u64);
    tera_verif_harness::childrun::cleanup();
    report.write(&out_path());
}
