//! C18 — output channels agree, write failures surface, rendering is pure and thread-safe.
//!
//! For every case (a template set, a context, an entry point):
//!  direct oracles on the implementation (independent of the Lean model)
//!   * `render*` (String) vs `render*_to` (Vec / recording writer): same bytes, same error class
//!   * every failure point of the writer: failing at write call k for EVERY k, `Ok(0)` at call k,
//!     and accepting only n bytes for EVERY n (partial write, then error): the result must be
//!     `Err(ErrorKind::Io(kind the writer used))` — never Ok, never another error, never a panic —
//!     and the accepted bytes must be exactly the corresponding prefix of the full output; at
//!     k = #calls / n = #bytes (failure point never reached) the reference result
//!   * short writes (1 byte per call) and `Interrupted` answers change nothing
//!   * run twice, and 8 threads at once on one shared `Tera` and `Context`: byte-identical
//!   * `Send + Sync` of `Tera`, `Context`, `Value`, `Error` asserted at compile time (a lost auto
//!     trait fails the harness build, which the check reports)
//!  correspondence with the Lean model (`drv_c18`, Model/Writer.lean) for generated cases: the
//!  generator draws an abstract output program (text, escaped / safe values, set blocks, filter
//!  sections, includes, blocks with `super()`, components with and without body, loops), prints
//!  it as a template set, and the model must predict result class and accepted bytes of the real
//!  engine under every writer policy, for whole-template and `render_block` entry points.
use std::collections::{BTreeMap, BTreeSet};
use std::io::{self, Write};
use std::panic::AssertUnwindSafe;

use serde_json::json;
use tera::{Context, ErrorKind, Tera, Value};
use tera_verif_harness::report::{out_path, replay_path, Report};
use tera_verif_harness::rng::Rng;
use tera_verif_harness::wire::hex;
use tera_verif_harness::{catch, driver, quiet_panics, Env};

// ------------------------------------------------------------------ compile-time thread safety
fn assert_send_sync<T: Send + Sync>() {}
#[allow(dead_code)]
const THREAD_SAFETY: fn() = || {
    assert_send_sync::<Tera>();
    assert_send_sync::<Context>();
    assert_send_sync::<Value>();
    assert_send_sync::<tera::Error>();
};

// ------------------------------------------------------------------ writers
#[derive(Clone, Debug, PartialEq)]
enum Policy {
    All,
    Trickle,
    /// `Err(Interrupted)` on every even call, whole buffer on odd ones
    Interrupt,
    Call(usize),
    Zero(usize),
    Bytes(usize),
    /// at write call `call`: accept `take` bytes of the buffer (a short write; none when `take`
    /// is 0 or the buffer has one byte), answer ONE transient error on the following call
    /// (kind 0 = WouldBlock, 1 = TimedOut, 2 = Interrupted), then accept everything
    Transient { call: usize, take: usize, kind: u8 },
}

fn transient_kind(kind: u8) -> io::ErrorKind {
    match kind {
        0 => io::ErrorKind::WouldBlock,
        1 => io::ErrorKind::TimedOut,
        _ => io::ErrorKind::Interrupted,
    }
}

impl Policy {
    fn wire(&self) -> Option<String> {
        Some(match self {
            Policy::All => "all".into(),
            Policy::Trickle => "trickle".into(),
            Policy::Interrupt | Policy::Transient { .. } => return None,
            Policy::Call(k) => format!("call:{k}"),
            Policy::Zero(k) => format!("zero:{k}"),
            Policy::Bytes(n) => format!("bytes:{n}"),
        })
    }
    fn parse(s: &str) -> Option<Policy> {
        Some(match s {
            "all" => Policy::All,
            "trickle" => Policy::Trickle,
            "interrupt" => Policy::Interrupt,
            _ if s.starts_with("transient:") => {
                let v: Vec<usize> = s.split(':').skip(1).filter_map(|x| x.parse().ok()).collect();
                if v.len() != 3 {
                    return None;
                }
                Policy::Transient { call: v[0], take: v[1], kind: v[2] as u8 }
            }
            _ => {
                let (a, b) = s.split_once(':')?;
                let n: usize = b.parse().ok()?;
                match a {
                    "call" => Policy::Call(n),
                    "zero" => Policy::Zero(n),
                    "bytes" => Policy::Bytes(n),
                    _ => return None,
                }
            }
        })
    }
    fn name(&self) -> String {
        match self {
            Policy::Interrupt => "interrupt".into(),
            Policy::Transient { call, take, kind } => format!("transient:{call}:{take}:{kind}"),
            p => p.wire().unwrap(),
        }
    }
}

/// the error kinds a failing writer answers with, cycled over the failure point: the render must
/// surface exactly that kind as `ErrorKind::Io(kind)`
const FAIL_KINDS: [io::ErrorKind; 20] = [
    io::ErrorKind::BrokenPipe,
    io::ErrorKind::InvalidData,
    io::ErrorKind::InvalidInput,
    io::ErrorKind::UnexpectedEof,
    io::ErrorKind::Other,
    io::ErrorKind::OutOfMemory,
    io::ErrorKind::PermissionDenied,
    io::ErrorKind::ConnectionReset,
    io::ErrorKind::ConnectionAborted,
    io::ErrorKind::NotConnected,
    io::ErrorKind::TimedOut,
    io::ErrorKind::WouldBlock,
    io::ErrorKind::WriteZero,
    io::ErrorKind::NotFound,
    io::ErrorKind::AlreadyExists,
    io::ErrorKind::AddrInUse,
    io::ErrorKind::AddrNotAvailable,
    io::ErrorKind::ConnectionRefused,
    io::ErrorKind::Unsupported,
    io::ErrorKind::StorageFull,
];

fn fail_kind(point: usize) -> io::ErrorKind {
    FAIL_KINDS[point % FAIL_KINDS.len()]
}

struct PWriter {
    policy: Policy,
    calls: usize,
    accepted: Vec<u8>,
    /// length accepted by each answered call
    trace: Vec<usize>,
    refused: bool,
    /// Transient: the error is due on the next call / has been given
    pending: bool,
    fired: bool,
}

impl PWriter {
    fn new(policy: Policy) -> Self {
        PWriter { policy, calls: 0, accepted: Vec::new(), trace: Vec::new(), refused: false, pending: false, fired: false }
    }
}

impl Write for PWriter {
    fn write(&mut self, buf: &[u8]) -> io::Result<usize> {
        let c = self.calls;
        self.calls += 1;
        let take = match self.policy {
            Policy::All => buf.len(),
            Policy::Trickle => buf.len().min(1),
            Policy::Interrupt => {
                if c % 2 == 0 {
                    return Err(io::Error::new(io::ErrorKind::Interrupted, "again"));
                }
                buf.len()
            }
            Policy::Call(k) => {
                if c >= k {
                    self.refused = true;
                    return Err(io::Error::new(fail_kind(k), "injected"));
                }
                buf.len()
            }
            Policy::Zero(k) => {
                if c >= k {
                    self.refused = !buf.is_empty();
                    return Ok(0);
                }
                buf.len()
            }
            Policy::Transient { call, take, kind } => {
                if self.pending {
                    self.pending = false;
                    self.fired = true;
                    self.refused = kind != 2;
                    return Err(io::Error::new(transient_kind(kind), "try again"));
                }
                if !self.fired && c == call && !buf.is_empty() {
                    if take > 0 && buf.len() > 1 {
                        self.pending = true;
                        take.min(buf.len() - 1)
                    } else {
                        self.fired = true;
                        self.refused = kind != 2;
                        return Err(io::Error::new(transient_kind(kind), "try again"));
                    }
                } else {
                    buf.len()
                }
            }
            Policy::Bytes(n) => {
                let left = n - self.accepted.len();
                if left == 0 && !buf.is_empty() {
                    self.refused = true;
                    return Err(io::Error::new(fail_kind(n), "injected"));
                }
                left.min(buf.len())
            }
        };
        self.accepted.extend_from_slice(&buf[..take]);
        self.trace.push(take);
        Ok(take)
    }
    fn flush(&mut self) -> io::Result<()> {
        Ok(())
    }
}

// ------------------------------------------------------------------ cases
#[derive(Clone, Debug)]
enum Entry {
    Template(String),
    Block(String, String),
    Component { name: String, body: Option<String>, autoescape: bool },
    Str { source: String, autoescape: bool },
}

impl Entry {
    fn to_json(&self) -> serde_json::Value {
        match self {
            Entry::Template(t) => json!({"kind": "template", "name": t}),
            Entry::Block(t, b) => json!({"kind": "block", "name": t, "block": b}),
            Entry::Component { name, body, autoescape } => json!({"kind": "component", "name": name, "body": body, "autoescape": autoescape}),
            Entry::Str { source, autoescape } => json!({"kind": "str", "source": source, "autoescape": autoescape}),
        }
    }
    fn from_json(j: &serde_json::Value) -> Option<Entry> {
        Some(match j["kind"].as_str()? {
            "template" => Entry::Template(j["name"].as_str()?.into()),
            "block" => Entry::Block(j["name"].as_str()?.into(), j["block"].as_str()?.into()),
            "component" => Entry::Component {
                name: j["name"].as_str()?.into(),
                body: j["body"].as_str().map(|s| s.to_string()),
                autoescape: j["autoescape"].as_bool()?,
            },
            "str" => Entry::Str { source: j["source"].as_str()?.into(), autoescape: j["autoescape"].as_bool()? },
            _ => return None,
        })
    }
    fn kind(&self) -> &'static str {
        match self {
            Entry::Template(_) => "template",
            Entry::Block(..) => "block",
            Entry::Component { .. } => "component",
            Entry::Str { .. } => "str",
        }
    }
}

fn run_to(tera: &Tera, entry: &Entry, ctx: &Context, w: &mut PWriter) -> Result<(), tera::Error> {
    match entry {
        Entry::Template(t) => tera.render_to(t, ctx, w),
        Entry::Block(t, b) => tera.render_block_to(t, b, ctx, w),
        Entry::Component { name, body, autoescape } => tera.render_component_to(name, ctx, body.as_deref(), *autoescape, w),
        Entry::Str { source, autoescape } => tera.render_str_to(source, ctx, *autoescape, w),
    }
}

fn run_string(tera: &Tera, entry: &Entry, ctx: &Context) -> Result<String, tera::Error> {
    match entry {
        Entry::Template(t) => tera.render(t, ctx),
        Entry::Block(t, b) => tera.render_block(t, b, ctx),
        Entry::Component { name, body, autoescape } => tera.render_component(name, ctx, body.as_deref(), *autoescape),
        Entry::Str { source, autoescape } => tera.render_str(source, ctx, *autoescape),
    }
}

/// "ok" | "io:<kind>" | "fail" | "panic"
fn class_of<T>(r: &Result<Result<T, tera::Error>, String>) -> String {
    match r {
        Err(_) => "panic".into(),
        Ok(Ok(_)) => "ok".into(),
        Ok(Err(e)) => match e.kind() {
            ErrorKind::Io(k) => format!("io:{k:?}"),
            _ => "fail".into(),
        },
    }
}

/// An escape function that writes ISO-8859-1: not UTF-8 as soon as a character above U+007F is
/// escaped (the String channels must then report `Utf8Conversion`, the writer channels carry the
/// raw bytes)
fn latin1_escape(input: &str, out: &mut dyn Write) -> io::Result<()> {
    for c in input.chars() {
        match c {
            '<' => out.write_all(b"&lt;")?,
            '&' => out.write_all(b"&amp;")?,
            c if (c as u32) < 256 => out.write_all(&[c as u32 as u8])?,
            _ => out.write_all(b"?")?,
        }
    }
    Ok(())
}

struct PolicyRun {
    class: String,
    accepted: Vec<u8>,
    trace: Vec<usize>,
    refused: bool,
}

fn run_policy(tera: &Tera, entry: &Entry, ctx: &Context, policy: Policy) -> PolicyRun {
    let mut w = PWriter::new(policy);
    let r = catch(AssertUnwindSafe(|| run_to(tera, entry, ctx, &mut w)));
    PolicyRun { class: class_of(&r), accepted: w.accepted, trace: w.trace, refused: w.refused }
}

struct Case {
    templates: Vec<(String, String)>,
    ctx: BTreeMap<String, Value>,
    /// abstract program in the model's wire syntax, when the case was generated from one
    program: Option<String>,
    autoescape: bool,
    /// `set_fallback_prefixes` configuration (empty = none)
    prefixes: Vec<String>,
    /// custom delimiters: block start/end, variable start/end, comment start/end (None = default)
    delims: Option<[String; 6]>,
    /// `Tera::global_context()` entries (looked up after the call context)
    global: BTreeMap<String, Value>,
    /// install an escape function that transcodes to ISO-8859-1 (emits non-UTF-8 bytes)
    latin1_escape: bool,
    features: Vec<&'static str>,
}

impl Case {
    fn tera(&self) -> Result<Tera, String> {
        set_one_off_comparable(self);
        let mut t = Tera::default();
        if !self.prefixes.is_empty() {
            t.set_fallback_prefixes(self.prefixes.clone()).map_err(|e| format!("set_fallback_prefixes: {e}"))?;
        }
        if let Some(d) = &self.delims {
            t.set_delimiters(tera::Delimiters {
                block_start: d[0].clone().into(),
                block_end: d[1].clone().into(),
                variable_start: d[2].clone().into(),
                variable_end: d[3].clone().into(),
                comment_start: d[4].clone().into(),
                comment_end: d[5].clone().into(),
            })
            .map_err(|e| format!("set_delimiters: {e}"))?;
        }
        for (k, v) in &self.global {
            t.global_context().insert_value(k.clone(), v.clone());
        }
        if self.latin1_escape {
            t.set_escape_fn(latin1_escape);
        }
        match catch(AssertUnwindSafe(|| t.add_raw_templates(self.templates.clone()))) {
            Ok(Ok(())) => Ok(t),
            Ok(Err(e)) => Err(format!("add error: {e}")),
            Err(p) => Err(format!("add panic: {p}")),
        }
    }
    fn context(&self) -> Context {
        let mut c = Context::new();
        for (k, v) in &self.ctx {
            c.insert_value(k.clone(), v.clone());
        }
        c
    }
    fn to_json(&self) -> serde_json::Value {
        json!({
            "templates": self.templates,
            "ctx": self.ctx.iter().map(|(k, v)| (k.clone(), tera_verif_harness::wire::encode(v))).collect::<BTreeMap<_, _>>(),
            "program": self.program,
            "autoescape": self.autoescape,
            "fallback_prefixes": self.prefixes,
            "delimiters": self.delims,
            "global_context": self.global.iter().map(|(k, v)| (k.clone(), tera_verif_harness::wire::encode(v))).collect::<BTreeMap<_, _>>(),
            "latin1_escape": self.latin1_escape,
        })
    }
    fn from_json(j: &serde_json::Value) -> Option<Case> {
        let templates = j["templates"].as_array()?.iter().map(|p| Some((p[0].as_str()?.to_string(), p[1].as_str()?.to_string()))).collect::<Option<Vec<_>>>()?;
        let mut ctx = BTreeMap::new();
        for (k, v) in j["ctx"].as_object()? {
            ctx.insert(k.clone(), tera_verif_harness::wire::decode(v.as_str()?)?);
        }
        Some(Case { templates, ctx, program: j["program"].as_str().map(|s| s.to_string()), autoescape: j["autoescape"].as_bool().unwrap_or(false), prefixes: j["fallback_prefixes"].as_array().map(|a| a.iter().filter_map(|x| x.as_str().map(|s| s.to_string())).collect()).unwrap_or_default(), delims: j["delimiters"].as_array().and_then(|a| { let v: Vec<String> = a.iter().filter_map(|x| x.as_str().map(|s| s.to_string())).collect(); <[String; 6]>::try_from(v).ok() }), global: j["global_context"].as_object().map(|o| o.iter().filter_map(|(k, v)| Some((k.clone(), tera_verif_harness::wire::decode(v.as_str()?)?))).collect()).unwrap_or_default(), latin1_escape: j["latin1_escape"].as_bool().unwrap_or(false), features: vec![] })
    }
}

// ------------------------------------------------------------------ abstract programs
#[derive(Clone, Debug)]
enum Op {
    Text(String),
    Var { name: String, value: String, safe: bool },
    Fail(String),
    SetBlock { var: String, body: Vec<Op> },
    FilterSec(Vec<Op>),
    Include { tpl: String, body: Vec<Op> },
    Block { name: String, body: Vec<Op>, parent: Option<Vec<Op>> },
    Super,
    Comp { name: String, body: Option<Vec<Op>>, def: Vec<Op> },
    Body,
    For { var: String, n: usize, body: Vec<Op> },
}

#[derive(Clone, Copy)]
struct Flags {
    depth: usize,
    blocks_ok: bool,
    nested_parent_ok: bool,
    super_ok: bool,
    body_ok: bool,
    ascii: bool,
}

struct Gen<'a> {
    rng: &'a mut Rng,
    counter: usize,
    allow_fail: bool,
}

const TEXT_ASCII: &[&str] = &["a", "b", "xy", " ", "\n", "<p>", "&", "'q'", "\"", "}", "%", "0", "-", "Hello", "w o r d", "#", "{ "];
const TEXT_UNI: &[&str] = &["é", "日本", "ß", "😀", "ǆ", "\u{a0}", "İ"];
const VAL_ASCII: &[&str] = &["", "x", "<b>", "a&b", "it's", "\"q\"", "<>&'\"", "plain text", "{{ x }}", "1 < 2 > 0", "tail&"];
const VAL_UNI: &[&str] = &["é<", "日本&語", "😀'", "ß>ß", "\u{0}", "a\u{301}"];

/// never form a delimiter (opening or closing) inside literal text
fn sanitize(s: &str) -> String {
    let mut cur = s.to_string();
    loop {
        let next = cur.replace("{{", "{ {").replace("{%", "{ %").replace("{#", "{ #").replace("}}", "} }").replace("%}", "% }").replace("#}", "# }");
        if next == cur {
            return cur;
        }
        cur = next;
    }
}

impl Gen<'_> {
    fn fresh(&mut self, p: &str) -> String {
        self.counter += 1;
        format!("{p}{}", self.counter)
    }
    fn text(&mut self, ascii: bool) -> String {
        let n = 1 + self.rng.below(3);
        let mut s = String::new();
        for _ in 0..n {
            if !ascii && self.rng.chance(1, 4) {
                s.push_str(*self.rng.pick(TEXT_UNI));
            } else {
                s.push_str(*self.rng.pick(TEXT_ASCII));
            }
        }
        // never form a delimiter
        sanitize(&s)
    }
    fn value(&mut self, ascii: bool) -> String {
        if !ascii && self.rng.chance(1, 3) {
            self.rng.pick(VAL_UNI).to_string()
        } else {
            self.rng.pick(VAL_ASCII).to_string()
        }
    }
    fn ops(&mut self, f: Flags, max: usize) -> Vec<Op> {
        let n = 1 + self.rng.below(max);
        let mut out: Vec<Op> = Vec::new();
        for _ in 0..n {
            let op = self.op(f);
            // adjacent literal texts are one Content token, hence one WriteText
            if let (Some(Op::Text(prev)), Op::Text(t)) = (out.last_mut(), &op) {
                prev.push_str(t);
                // a `{` at the end of one text and `{`/`%`/`#` at the start of the next
                *prev = sanitize(prev);
                continue;
            }
            out.push(op);
        }
        out
    }
    fn op(&mut self, f: Flags) -> Op {
        let deep = f.depth >= 4;
        loop {
            let r = self.rng.below(100);
            let inner = Flags { depth: f.depth + 1, ..f };
            return match r {
                0..=24 => Op::Text(self.text(f.ascii)),
                25..=44 => Op::Var { name: self.fresh("v"), value: self.value(f.ascii), safe: self.rng.chance(1, 3) },
                45..=46 => {
                    if !self.allow_fail {
                        continue;
                    }
                    Op::Fail(self.fresh("nope"))
                }
                47..=54 if !deep => Op::SetBlock { var: self.fresh("x"), body: self.ops(Flags { blocks_ok: false, ..inner }, 3) },
                55..=61 if !deep => Op::FilterSec(self.ops(Flags { ascii: true, ..inner }, 3)),
                62..=68 if !deep => Op::Include {
                    tpl: self.fresh("inc"),
                    body: self.ops(Flags { blocks_ok: false, super_ok: false, body_ok: false, ..inner }, 3),
                },
                69..=79 if !deep && f.blocks_ok => {
                    let with_parent = f.nested_parent_ok && self.rng.chance(3, 5);
                    if with_parent {
                        let parent = self.ops(Flags { blocks_ok: false, super_ok: false, ..inner }, 3);
                        let body = self.ops(Flags { blocks_ok: false, super_ok: true, ..inner }, 4);
                        Op::Block { name: self.fresh("b"), body, parent: Some(parent) }
                    } else {
                        let body = self.ops(Flags { super_ok: false, ..inner }, 3);
                        Op::Block { name: self.fresh("b"), body, parent: None }
                    }
                }
                80..=84 if f.super_ok && !f.ascii => Op::Super,
                85..=92 if !deep => {
                    let has_body = self.rng.chance(1, 2);
                    let body = if has_body { Some(self.ops(Flags { blocks_ok: false, ..inner }, 3)) } else { None };
                    let def = self.ops(Flags { blocks_ok: false, super_ok: false, body_ok: has_body, ..inner }, 3);
                    Op::Comp { name: self.fresh("c"), body, def }
                }
                93..=95 if f.body_ok && !f.ascii => Op::Body,
                96..=99 if !deep => Op::For { var: self.fresh("i"), n: self.rng.below(4), body: self.ops(Flags { blocks_ok: false, ..inner }, 3) },
                _ => continue,
            };
        }
    }
}

fn collect_vars(ops: &[Op], out: &mut BTreeMap<String, String>) {
    for op in ops {
        match op {
            Op::Var { name, value, .. } => {
                out.insert(name.clone(), value.clone());
            }
            Op::SetBlock { body, .. } | Op::FilterSec(body) | Op::Include { body, .. } | Op::For { body, .. } => collect_vars(body, out),
            Op::Block { body, parent, .. } => {
                collect_vars(body, out);
                if let Some(p) = parent {
                    collect_vars(p, out);
                }
            }
            Op::Comp { body, def, .. } => {
                if let Some(b) = body {
                    collect_vars(b, out);
                }
                collect_vars(def, out);
            }
            _ => {}
        }
    }
}

fn has_parent_block(ops: &[Op]) -> bool {
    ops.iter().any(|op| match op {
        Op::Block { parent, body, .. } => parent.is_some() || has_parent_block(body),
        Op::SetBlock { body, .. } | Op::FilterSec(body) | Op::For { body, .. } => has_parent_block(body),
        _ => false,
    })
}

#[derive(Default)]
struct Emit {
    ext: String,
    child_blocks: Vec<(String, String)>,
    includes: Vec<(String, String)>,
    comps: Vec<String>,
    block_names: Vec<String>,
    comp_info: Vec<(String, Vec<String>, bool)>,
    features: BTreeSet<&'static str>,
}

impl Emit {
    fn ops(&mut self, ops: &[Op]) -> String {
        let mut s = String::new();
        for op in ops {
            match op {
                Op::Text(t) => {
                    self.features.insert("text");
                    s.push_str(t)
                }
                Op::Var { name, safe, .. } => {
                    self.features.insert(if *safe { "var_safe" } else { "var" });
                    if *safe {
                        s.push_str(&format!("{{{{ {name} | safe }}}}"))
                    } else {
                        s.push_str(&format!("{{{{ {name} }}}}"))
                    }
                }
                Op::Fail(n) => {
                    self.features.insert("render_error");
                    s.push_str(&format!("{{{{ {n} }}}}"))
                }
                Op::SetBlock { var, body } => {
                    self.features.insert("set_block");
                    let b = self.ops(body);
                    s.push_str(&format!("{{% set {var} %}}{b}{{% endset %}}{{{{ {var} }}}}"));
                }
                Op::FilterSec(body) => {
                    self.features.insert("filter_section");
                    let b = self.ops(body);
                    s.push_str(&format!("{{% filter upper %}}{b}{{% endfilter %}}"));
                }
                Op::Include { tpl, body } => {
                    self.features.insert("include");
                    let b = self.ops(body);
                    let name = format!("{tpl}{}", self.ext);
                    self.includes.push((name.clone(), b));
                    s.push_str(&format!("{{% include \"{name}\" %}}"));
                }
                Op::Block { name, body, parent } => {
                    self.block_names.push(name.clone());
                    match parent {
                        Some(p) => {
                            self.features.insert("block_override");
                            let pb = self.ops(p);
                            s.push_str(&format!("{{% block {name} %}}{pb}{{% endblock %}}"));
                            let cb = self.ops(body);
                            self.child_blocks.push((name.clone(), cb));
                        }
                        None => {
                            self.features.insert("block");
                            let b = self.ops(body);
                            s.push_str(&format!("{{% block {name} %}}{b}{{% endblock %}}"));
                        }
                    }
                }
                Op::Super => {
                    self.features.insert("super");
                    s.push_str("{{ super() }}")
                }
                Op::Comp { name, body, def } => {
                    let mut vars = BTreeMap::new();
                    collect_vars(def, &mut vars);
                    let params: Vec<String> = vars.keys().cloned().collect();
                    let d = self.ops(def);
                    self.comps.push(format!("{{% component {name}({}) %}}{d}{{% endcomponent {name} %}}", params.join(", ")));
                    self.comp_info.push((name.clone(), params.clone(), body.is_some()));
                    let args: String = params.iter().map(|p| format!(" {p}={{{p}}}")).collect();
                    match body {
                        Some(b) => {
                            self.features.insert("component_body");
                            let bs = self.ops(b);
                            s.push_str(&format!("{{% <{name}{args}> %}}{bs}{{% </{name}> %}}"));
                        }
                        None => {
                            self.features.insert("component_inline");
                            s.push_str(&format!("{{{{<{name}{args} />}}}}"));
                        }
                    }
                }
                Op::Body => {
                    self.features.insert("component_body_var");
                    s.push_str("{{ body }}")
                }
                Op::For { var, n, body } => {
                    self.features.insert("for");
                    let b = self.ops(body);
                    s.push_str(&format!("{{% for {var} in range(end={n}) %}}{b}{{% endfor %}}"));
                }
            }
        }
        s
    }
}

fn wire_ops(ops: &[Op], parent: Option<&Vec<Op>>, out: &mut Vec<String>) {
    for op in ops {
        match op {
            Op::Text(t) => out.push(format!("T:{}", hex(t.as_bytes()))),
            Op::Var { value, safe, .. } => out.push(format!("V:{}:{}", hex(value.as_bytes()), if *safe { 1 } else { 0 })),
            Op::Fail(_) => out.push("X".into()),
            Op::SetBlock { body, .. } => {
                out.push("SB(".into());
                wire_ops(body, parent, out);
                out.push(")".into());
            }
            Op::FilterSec(body) => {
                out.push("FS(".into());
                wire_ops(body, parent, out);
                out.push(")".into());
            }
            Op::Include { body, .. } => {
                out.push("INC(".into());
                wire_ops(body, None, out);
                out.push(")".into());
            }
            Op::Block { name, body, parent: p } => {
                out.push(format!("BLK:{}(", hex(name.as_bytes())));
                wire_ops(body, p.as_ref(), out);
                out.push(")".into());
            }
            Op::Super => {
                out.push("SUP(".into());
                if let Some(p) = parent {
                    wire_ops(p, None, out);
                }
                out.push(")".into());
            }
            Op::Comp { body, def, .. } => match body {
                Some(b) => {
                    out.push("CMPB(".into());
                    wire_ops(b, parent, out);
                    out.push(")".into());
                    out.push("(".into());
                    wire_ops(def, None, out);
                    out.push(")".into());
                }
                None => {
                    out.push("CMP(".into());
                    wire_ops(def, None, out);
                    out.push(")".into());
                }
            },
            Op::Body => out.push("BODY".into()),
            Op::For { n, body, .. } => {
                out.push(format!("FOR:{n}("));
                wire_ops(body, parent, out);
                out.push(")".into());
            }
        }
    }
}

/// how a generated program is printed: autoescaping (template suffix) and whether every template
/// lives under a directory that is only reachable through `set_fallback_prefixes`
#[derive(Clone, Copy)]
struct Cfg {
    ae: bool,
    prefix: &'static str,
    /// 0 = default delimiters, 1 = `[% %] [[ ]] [# #]`, 2 = one 2-byte character each
    delims: usize,
    /// spread the variables over the call context and `global_context()`
    globals: bool,
}

const DELIM_SETS: [[&str; 6]; 2] = [["[%", "%]", "[[", "]]", "[#", "#]"], ["§", "¶", "«", "»", "¿", "¡"]];

/// re-spell a source printed with the default delimiters (generated texts never contain any of
/// the six default delimiter strings nor any custom one)
fn respell(src: &str, set: usize) -> String {
    if set == 0 {
        return src.to_string();
    }
    let d = DELIM_SETS[set - 1];
    src.replace("{%", d[0]).replace("%}", d[1]).replace("{{", d[2]).replace("}}", d[3]).replace("{#", d[4]).replace("#}", d[5])
}

struct GenCase {
    case: Case,
    entries: Vec<Entry>,
    #[allow(dead_code)]
    ops: Vec<Op>,
}

fn build_case(ops: &[Op], cfg: Cfg) -> GenCase {
    let autoescape = cfg.ae;
    let ext = if autoescape { ".html" } else { ".txt" };
    let mut em = Emit { ext: ext.into(), ..Default::default() };
    let root = em.ops(ops);
    let mut templates: Vec<(String, String)> = Vec::new();
    let main = format!("main{ext}");
    if has_parent_block(ops) {
        let base = format!("base{ext}");
        templates.push((base.clone(), root));
        let mut child = format!("{{% extends \"{base}\" %}}");
        for (n, b) in &em.child_blocks {
            child.push_str(&format!("{{% block {n} %}}{b}{{% endblock %}}"));
        }
        templates.push((main.clone(), child));
    } else {
        templates.push((main.clone(), root));
    }
    templates.extend(em.includes.iter().cloned());
    if !em.comps.is_empty() {
        templates.push((format!("comps{ext}"), em.comps.join("\n")));
    }
    for t in templates.iter_mut() {
        t.1 = respell(&t.1, cfg.delims);
    }
    let str_source = templates[0].1.clone();
    // registered under the prefix; every reference (entry points, extends, include) keeps the
    // short name and resolves only through the fallback prefix
    if !cfg.prefix.is_empty() {
        for t in templates.iter_mut() {
            t.0 = format!("{}{}", cfg.prefix, t.0);
        }
    }
    let mut vars = BTreeMap::new();
    collect_vars(ops, &mut vars);
    // where each variable lives: call context only / global context only / both (the call
    // context must win; the global one holds a decoy)
    let mut ctx: BTreeMap<String, Value> = BTreeMap::new();
    let mut global: BTreeMap<String, Value> = BTreeMap::new();
    for (k, v) in &vars {
        let n: usize = k.trim_start_matches(|c: char| !c.is_ascii_digit()).parse().unwrap_or(0);
        match if cfg.globals { n % 4 } else { 0 } {
            1 => {
                global.insert(k.clone(), Value::from(v.as_str()));
            }
            2 | 3 => {
                ctx.insert(k.clone(), Value::from(v.as_str()));
                global.insert(k.clone(), Value::from(format!("<GLOBAL-DECOY-{k}>")));
            }
            _ => {
                ctx.insert(k.clone(), Value::from(v.as_str()));
            }
        }
    }
    if cfg.globals {
        global.insert("only_global_unused".into(), Value::from(1));
    }
    let mut w = Vec::new();
    wire_ops(ops, None, &mut w);
    let mut entries = vec![Entry::Template(main.clone())];
    for b in &em.block_names {
        entries.push(Entry::Block(main.clone(), b.clone()));
    }
    for (name, _params, has_body) in &em.comp_info {
        entries.push(Entry::Component { name: name.clone(), body: has_body.then(|| "<i>body</i>".to_string()), autoescape });
        if *has_body {
            // an empty and a blank body are bodies too
            entries.push(Entry::Component { name: name.clone(), body: Some(String::new()), autoescape });
            entries.push(Entry::Component { name: name.clone(), body: Some(" ".to_string()), autoescape });
        }
    }
    if em.block_names.is_empty() {
        entries.push(Entry::Str { source: str_source, autoescape });
    }
    let mut features: Vec<&'static str> = em.features.into_iter().collect();
    features.push(if autoescape { "autoescape_on" } else { "autoescape_off" });
    if !cfg.prefix.is_empty() {
        features.push("fallback_prefix");
    }
    if cfg.globals {
        features.push("global_context");
    }
    if cfg.delims != 0 {
        features.push(if cfg.delims == 1 { "delimiters_ascii" } else { "delimiters_2byte_chars" });
    }
    let delims = (cfg.delims != 0).then(|| DELIM_SETS[cfg.delims - 1].map(|x| x.to_string()));
    let prefixes: Vec<String> = if cfg.prefix.is_empty() { vec![] } else { vec!["unused/".to_string(), cfg.prefix.to_string()] };
    GenCase {
        case: Case { templates, ctx, program: Some(w.join(" ")), autoescape, prefixes, delims, global, latin1_escape: false, features },
        entries,
        ops: ops.to_vec(),
    }
}

// ------------------------------------------------------------------ fixed corpus (direct oracles only)
fn fixed_cases() -> Vec<(Case, Vec<Entry>)> {
    let mut out = Vec::new();
    let mut add = |tpls: &[(&str, &str)], ctx: Vec<(&str, Value)>, entries: Vec<Entry>, feats: Vec<&'static str>| {
        out.push((
            Case {
                templates: tpls.iter().map(|(a, b)| (a.to_string(), b.to_string())).collect(),
                ctx: ctx.into_iter().map(|(k, v)| (k.to_string(), v)).collect(),
                program: None,
                autoescape: tpls[0].0.ends_with(".html"),
                delims: if tpls[0].0.starts_with("delims1") { Some(DELIM_SETS[0].map(|x| x.to_string())) } else if tpls[0].0.starts_with("delims2") { Some(DELIM_SETS[1].map(|x| x.to_string())) } else { None },
                global: if tpls[0].0.starts_with("globals") { [("both", Value::from("<GLOBAL>")), ("onlyg", Value::from("<G&>"))].into_iter().map(|(k, v)| (k.to_string(), v)).collect() } else { BTreeMap::new() },
                latin1_escape: tpls[0].0.starts_with("latin1"),
                prefixes: if tpls.iter().any(|(n, _)| n.starts_with("themes/cool/")) { vec!["themes/missing/".to_string(), "themes/cool/".to_string()] } else { vec![] },
                features: feats,
            },
            entries,
        ));
    };
    let t = |n: &str| Entry::Template(n.to_string());
    let mut m = tera::Map::new();
    m.insert("zeta".into(), Value::from(1));
    m.insert("alpha".into(), Value::from("<a>"));
    m.insert("mid".into(), Value::from(vec![Value::from(1.5), Value::from("q\"uote"), Value::none()]));
    // every value kind through WriteTop / WritePath, escaped and not
    for name in ["kinds.html", "kinds.txt"] {
        add(
            &[(name, "{{ i }}|{{ n }}|{{ u }}|{{ big }}|{{ f }}|{{ fi }}|{{ b }}|{{ none }}|{{ s }}|{{ arr }}|{{ m }}|{{ m.mid }}|{{ by }}|{{ s | safe }}|{{ arr | safe }}|{{ nan }}")],
            vec![
                ("i", Value::from(-42i64)),
                ("n", Value::from(i128::MIN)),
                ("u", Value::from(u64::MAX)),
                ("big", Value::from(u128::MAX)),
                ("f", Value::from(1.5e300)),
                ("fi", Value::from(3.0)),
                ("b", Value::from(true)),
                ("none", Value::none()),
                ("s", Value::from("<é&'\"日本>")),
                ("arr", Value::from(vec![Value::from("a<\n\"b"), Value::from(1), Value::from(vec![Value::from("é")])])),
                ("m", Value::from(m.clone())),
                ("by", Value::bytes(vec![0x66, 0xff, 0x3c, 0xe2, 0x82])),
                ("nan", Value::from(f64::NAN)),
            ],
            vec![t(name), Entry::Str { source: "{{ arr }}{{ m }}{{ s }}".into(), autoescape: name.ends_with("html") }],
            vec!["value_kinds"],
        );
    }
    // maps built at render time: for loops, keys / values / pairs, context dump
    add(
        &[(
            "maps.html",
            "{% set m = {\"b\": 1, \"a\": \"<x>\", \"c\": [1, 2], \"3\": true, \"é\": none} %}{% for k, v in m %}{{ k }}={{ v }};{% endfor %}|{{ m | keys }}|{{ m | values }}|{{ m | pairs }}|{% for p in m | pairs %}{{ p[0] }}{% endfor %}|{% set lit = {\"z\": 1, \"y\": {\"k\": 2, \"j\": 1} } %}{{ lit }}|{{ lit.y }}|{% for k, v in outer %}{{ k }}:{{ v }},{% endfor %}{{ __tera_context }}",
        )],
        vec![("outer", Value::from(m.clone()))],
        vec![t("maps.html")],
        vec!["maps_built_at_render_time", "keys_values_pairs"],
    );
    // purity: maps BUILT DURING THE RENDER from non-constant values, 8+ entries with distinct
    // values, observed in every order-revealing way (a per-instance hasher state would show up
    // as a different order on the next render / another thread)
    {
        let lits: Vec<String> = (0..12).map(|i| format!("\"k{i}\": x{i}")).collect();
        let mlit = format!("{{{}}}", lits.join(", "));
        let tpl = format!(
            "{{% set m = {mlit} %}}{{% for k, v in m %}}{{{{ k }}}}={{{{ v }}}};{{% endfor %}}|{{{{ m | keys }}}}|{{{{ m | values }}}}|{{{{ m | pairs }}}}|{{{{ m }}}}|\
             {{% for v in m | values %}}{{{{ v }}}},{{% endfor %}}|{{% for p in m | pairs %}}{{{{ p[0] }}}}{{{{ p[1] }}}}{{% endfor %}}|\
             {{% set m2 = {{...outer, \"zz\": x0, ...m, \"aa\": x1}} %}}{{{{ m2 | values }}}}|{{{{ m2 | keys }}}}|{{% for k, v in m2 %}}{{{{ k }}}}{{% endfor %}}|{{{{ m2 }}}}|\
             {{% set g = items | group_by(attribute=\"g\") %}}{{{{ g }}}}|{{{{ g | keys }}}}|{{{{ g | values }}}}|{{% for k, v in g %}}{{{{ k }}}}:{{{{ v | length }}}};{{% endfor %}}|\
             {{{{ [m, m2] }}}}|{{{{ __tera_context }}}}|\
             {{% set ms = [{{\"a\": x0, \"b\": x1}}, {{\"b\": x1, \"a\": x0}}, {{\"a\": x0, \"b\": x1}}, {{\"a\": x1, \"b\": x0}}, {{\"a\": x0, \"b\": x1}}, {{\"b\": x0, \"a\": x1}}, {{\"a\": x0, \"b\": x1, \"c\": x2}}, {{\"c\": x2, \"a\": x0, \"b\": x1}}, {{\"a\": x0, \"b\": x2}}, {{\"a\": x0, \"b\": x1}}] %}}{{{{ ms | unique }}}}|{{{{ ms | unique | length }}}}|{{{{ [...ms, ...ms] | unique | length }}}}|{{{{ sermaps | unique | length }}}}|{{{{ sermaps | unique }}}}|\
             {{% set gm = mixrecs | group_by(attribute=\"k\") %}}{{{{ gm }}}}|{{{{ gm | keys }}}}|{{{{ gm | values }}}}|{{{{ gm | pairs }}}}|{{% for k, v in gm %}}{{{{ k }}}}:{{{{ v | length }}}};{{% endfor %}}|\
             {{% set sm = {{...mixa, \"s\": x0, ...mixb}} %}}{{{{ sm }}}}|{{{{ sm | keys }}}}|{{{{ sm | values }}}}|{{% for k, v in sm %}}{{{{ k }}}}={{{{ v }}}};{{% endfor %}}|{{{{ [sm, gm] }}}}|{{{{ {{...gm, ...sm}} | keys }}}}"
        );
        let tpl: &'static str = Box::leak(tpl.into_boxed_str());
        let mut ctx: Vec<(&str, Value)> = Vec::new();
        for i in 0..12 {
            let name: &'static str = Box::leak(format!("x{i}").into_boxed_str());
            ctx.push((name, Value::from(format!("<v{i}>"))));
        }
        let mut outer = tera::Map::new();
        for i in 0..9 {
            outer.insert(format!("o{i}").into(), Value::from(i as i64 * 7));
        }
        ctx.push(("outer", Value::from(outer)));
        let items: Vec<Value> = (0..40)
            .map(|i| {
                let mut e = tera::Map::new();
                e.insert("g".into(), Value::from(format!("group{}", i % 11)));
                e.insert("n".into(), Value::from(i as i64));
                Value::from(e)
            })
            .collect();
        ctx.push(("items", Value::from(items)));
        // equal maps that are separate instances (what a serialized Vec<HashMap> gives)
        let sermaps: Vec<Value> = (0..12)
            .map(|i| {
                let mut e = tera::Map::new();
                if i % 2 == 0 {
                    e.insert("p".into(), Value::from(1));
                    e.insert("q".into(), Value::from("two"));
                } else {
                    e.insert("q".into(), Value::from("two"));
                    e.insert("p".into(), Value::from(1));
                }
                if i % 5 == 4 {
                    e.insert("r".into(), Value::from(i as i64));
                }
                Value::from(e)
            })
            .collect();
        ctx.push(("sermaps", Value::from(sermaps)));
        // keys that MIX unsigned keys (u64 fields) with negative i64 keys, in maps built during
        // the render (group_by, spreads): the key order must not depend on the hash order
        let mixrecs: Vec<Value> = [5i64, -1, 0, -7, 3, -2, 5, -1, 9, 12, -30, 7]
            .iter()
            .enumerate()
            .map(|(i, k)| {
                let mut e = tera::Map::new();
                e.insert("k".into(), if *k >= 0 { Value::from(*k as u64) } else { Value::from(*k) });
                e.insert("i".into(), Value::from(i as u64));
                Value::from(e)
            })
            .collect();
        ctx.push(("mixrecs", Value::from(mixrecs)));
        let mut mixa = tera::Map::new();
        let mut mixb = tera::Map::new();
        for k in [5u64, 0, 11, 2, u64::MAX] {
            mixa.insert(tera::value::Key::U64(k), Value::from(format!("u{k}")));
        }
        for k in [-1i64, -9, -3, i64::MIN, -4] {
            mixb.insert(tera::value::Key::I64(k), Value::from(format!("i{k}")));
        }
        mixb.insert(tera::value::Key::U64(7), Value::from("u7"));
        mixa.insert(tera::value::Key::I64(-6), Value::from("i-6"));
        ctx.push(("mixa", Value::from(mixa)));
        ctx.push(("mixb", Value::from(mixb)));
        add(
            &[("purity.html", tpl), ("purity.txt", tpl)],
            ctx,
            vec![t("purity.html"), t("purity.txt"), Entry::Str { source: tpl.to_string(), autoescape: false }],
            vec!["maps_built_at_render_time_12_entries", "spread_maps", "group_by_result"],
        );
    }
    // names that resolve only through `set_fallback_prefixes`: every channel pair must agree
    add(
        &[
            ("themes/cool/page.html", "{% extends \"base.html\" %}{% block b %}P[{{ super() }}]{% include \"part.html\" %}{{<chip label={v} />}}{% endblock %}"),
            ("themes/cool/base.html", "cool-base<{% block b %}cb{% endblock %}>{{ v }}"),
            ("themes/cool/part.html", "<part {{ v }}>"),
            ("themes/cool/ui.html", "{% component chip(label) %}({{ label }}{{ body }}){% endcomponent chip %}"),
            ("exact.html", "{% extends \"base.html\" %}{% block b %}E{{ super() }}{% endblock %}"),
        ],
        vec![("v", Value::from("<v&>"))],
        vec![
            t("page.html"),
            t("themes/cool/page.html"),
            t("base.html"),
            t("part.html"),
            t("exact.html"),
            t("cool/page.html"),
            Entry::Block("page.html".into(), "b".into()),
            Entry::Block("base.html".into(), "b".into()),
            Entry::Block("exact.html".into(), "b".into()),
            Entry::Component { name: "chip".into(), body: Some("B".into()), autoescape: true },
            Entry::Str { source: "{% include \"part.html\" %}{{<chip label=\"x\" />}}".into(), autoescape: true },
        ],
        vec!["fallback_prefix_fixed"],
    );
    // includes crossing an autoescape boundary (`.txt` including `.html` and the reverse, nested,
    // under captures, with components): each template escapes by ITS OWN suffix on every channel
    add(
        &[
            ("mix.txt", "txt[{{ v }}]{% include \"mix_in.html\" %}{% set s %}{% include \"mix_in.html\" %}{% endset %}{{ s }}{% filter upper %}{% include \"mix_in.html\" %}{% endfilter %}{{<mc v={v} />}}"),
            ("mix.html", "html[{{ v }}]{% include \"mix_in.txt\" %}{% set s %}{% include \"mix_in.txt\" %}{% endset %}{{ s }}{% for i in [1, 2] %}{% include \"mix_in.txt\" %}{% endfor %}{{<mc v={v} />}}"),
            ("mix_in.html", "<in-html {{ v }} {% include \"mix_deep.txt\" %}{{<mc v={v} />}}>"),
            ("mix_in.txt", "<in-txt {{ v }} {% include \"mix_deep.html\" %}{{<mc v={v} />}}>"),
            ("mix_deep.txt", "(deep-txt {{ v }})"),
            ("mix_deep.html", "(deep-html {{ v }})"),
            ("mix_ui.html", "{% component mc(v) %}c({{ v }}){% endcomponent mc %}"),
            ("mix_child.txt", "{% extends \"mix_base.html\" %}{% block b %}child-txt {{ v }}{% include \"mix_in.html\" %}{{ super() }}{% endblock %}"),
            ("mix_base.html", "base-html {{ v }}[{% block b %}pb {{ v }}{% include \"mix_in.txt\" %}{% endblock %}]"),
        ],
        vec![("v", Value::from("<a&'b\">"))],
        vec![
            t("mix.txt"),
            t("mix.html"),
            t("mix_in.html"),
            t("mix_in.txt"),
            t("mix_child.txt"),
            t("mix_base.html"),
            Entry::Block("mix_child.txt".into(), "b".into()),
            Entry::Block("mix_base.html".into(), "b".into()),
            Entry::Str { source: "s[{{ v }}]{% include \"mix_in.html\" %}{% include \"mix_in.txt\" %}".into(), autoescape: true },
            Entry::Str { source: "s[{{ v }}]{% include \"mix_in.html\" %}{% include \"mix_in.txt\" %}".into(), autoescape: false },
        ],
        vec!["include_across_autoescape_boundary"],
    );
    // a non-empty global context: keys only there, only in the call context, and in both (the
    // call context wins) — on every channel pair
    add(
        &[
            ("globals.html", "{% extends \"globals_base.html\" %}{% block b %}B[{{ both }}|{{ onlyg }}|{{ onlyc }}]{{ super() }}{% include \"globals_inc.html\" %}{{<gc both={both} g={onlyg} />}}{% endblock %}"),
            ("globals_base.html", "base<{{ both }}|{{ onlyg }}|{{ onlyc }}>{% block b %}pb {{ both }}{% endblock %}"),
            ("globals_inc.html", "inc({{ both }}|{{ onlyg }}|{{ onlyc }})"),
            ("globals_ui.html", "{% component gc(both, g = \"d\") %}c[{{ both }}|{{ g }}]{% endcomponent gc %}"),
        ],
        vec![("both", Value::from("<CALL>")), ("onlyc", Value::from("c&"))],
        vec![
            t("globals.html"),
            t("globals_base.html"),
            t("globals_inc.html"),
            Entry::Block("globals.html".into(), "b".into()),
            Entry::Block("globals_base.html".into(), "b".into()),
            Entry::Component { name: "gc".into(), body: None, autoescape: true },
            Entry::Str { source: "{{ both }}|{{ onlyg }}|{{ onlyc }}{% include \"globals_inc.html\" %}".into(), autoescape: true },
        ],
        vec!["global_context_fixed"],
    );
    // an escape function that emits bytes which are not UTF-8: String channels must be the
    // Utf8Conversion error exactly when the writer channel's bytes are not UTF-8
    for v in ["é<ü>", "ascii<only>", "日本"] {
        add(
            &[
                ("latin1.html", "{% extends \"latin1_base.html\" %}{% block b %}[{{ v }}]{% endblock %}"),
                ("latin1_base.html", "b:{% block b %}{% endblock %}"),
                ("latin1_ui.html", "{% component lc(v) %}({{ v }}){% endcomponent lc %}\n{% component lsafe(v) %}({{ v | safe }}){% endcomponent lsafe %}"),
                ("latin1_plain.html", "{{ v }} and {{ v | safe }}"),
            ],
            vec![("v", Value::from(v))],
            vec![
                t("latin1.html"),
                t("latin1_plain.html"),
                Entry::Block("latin1.html".into(), "b".into()),
                Entry::Component { name: "lc".into(), body: None, autoescape: true },
                Entry::Component { name: "lc".into(), body: None, autoescape: false },
                Entry::Component { name: "lsafe".into(), body: None, autoescape: true },
                Entry::Str { source: "<{{ v }}>".into(), autoescape: true },
                Entry::Str { source: "<{{ v }}>".into(), autoescape: false },
            ],
            vec!["byte_producing_escape_fn"],
        );
    }
    // component recursion right at the limit (20): every channel must agree at 17..=23 levels
    for n in 17i64..=23 {
        add(
            &[
                ("count.html", "{% component Countdown(n) %}{{ n }}{% if n > 0 %} {{<Countdown n={n - 1} />}}{% endif %}{% endcomponent Countdown %}"),
                ("countpage.html", "page:{{<Countdown n={n} />}}|{% include \"countinc.html\" %}"),
                ("countinc.html", "inc:{{<Countdown n={n - 1} />}}"),
            ],
            vec![("n", Value::from(n))],
            vec![
                Entry::Component { name: "Countdown".into(), body: None, autoescape: true },
                Entry::Component { name: "Countdown".into(), body: None, autoescape: false },
                t("countpage.html"),
                t("countinc.html"),
                Entry::Str { source: "{{<Countdown n={n} />}}".into(), autoescape: true },
            ],
            vec!["component_recursion_at_limit"],
        );
    }
    // custom delimiters: sources that contain none of the default openers
    for (name, d) in [("delims1.html", DELIM_SETS[0]), ("delims2.html", DELIM_SETS[1])] {
        let src = format!("x {vs} a {ve}{bs} for i in range(end=2) {be}{vs} i {ve}{bs} endfor {be}{cs} c {ce} {{ }} %", bs = d[0], be = d[1], vs = d[2], ve = d[3], cs = d[4], ce = d[5]);
        let src: &'static str = Box::leak(src.into_boxed_str());
        let plain: &'static str = "plain text, no tag at all { } %";
        let dflt: &'static str = "default-looking {{ a }} {% if a %}x{% endif %} stays text here";
        add(
            &[(name, src)],
            vec![("a", Value::from("<é>"))],
            vec![
                t(name),
                Entry::Str { source: src.into(), autoescape: true },
                Entry::Str { source: src.into(), autoescape: false },
                Entry::Str { source: plain.into(), autoescape: true },
                Entry::Str { source: dflt.into(), autoescape: true },
            ],
            vec!["custom_delimiters_fixed"],
        );
    }
    // inheritance three levels, nested blocks, super() chains, blocks inside captures and loops
    add(
        &[
            ("gp.html", "<h>{% block head %}GP-head{% endblock %}</h>{% filter upper %}f[{% block infilter %}gp-if {{ v }}{% endblock %}]{% endfilter %}{% set s %}s[{{ v }}]{% endset %}{{ s }}{% block hasloop %}{% for i in [1, 2] %}L{{ i }}{% endfor %}{% endblock %}{% block outer %}o({% block inner %}gp-inner{% endblock %}){% endblock %}"),
            ("p.html", "{% extends \"gp.html\" %}{% block head %}P-head<{{ super() }}>{% endblock %}{% block inner %}p-inner+{{ super() }}{% endblock %}{% block hasloop %}p-loop {{ v }}{{ super() }}{% endblock %}"),
            ("c.html", "{% extends \"p.html\" %}{% block head %}C-head[{{ super() }}]{{ v }}{% endblock %}{% block infilter %}c-if {{ super() }}{% endblock %}{% block hasloop %}{% for j in [1, 2] %}c{{ j }}/{{ super() }}{% endfor %}{% endblock %}"),
        ],
        vec![("v", Value::from("<v&>"))],
        vec![
            t("c.html"),
            t("p.html"),
            t("gp.html"),
            Entry::Block("c.html".into(), "head".into()),
            Entry::Block("c.html".into(), "infilter".into()),
            Entry::Block("c.html".into(), "hasloop".into()),
            Entry::Block("c.html".into(), "outer".into()),
            Entry::Block("c.html".into(), "inner".into()),
            Entry::Block("p.html".into(), "inner".into()),
            Entry::Block("gp.html".into(), "outer".into()),
            Entry::Block("c.html".into(), "missing".into()),
        ],
        vec!["inheritance3", "nested_blocks", "super_chain", "block_in_capture"],
    );
    // components: inline, body, nested, defaults, inside captures; includes inside captures
    add(
        &[
            ("ui.html", "{% component btn(label, kind = \"p\") %}<b class=\"{{ kind }}\">{{ label }}</b>{% endcomponent btn %}\n{% component card(title) %}<div>{{ title }}:{{ body }}{{<btn label={title} />}}</div>{% endcomponent card %}\n{% component wrap() %}{% set x %}[{{ body }}]{% endset %}{{ x }}{% filter upper %}{{ body }}{% endfilter %}{% endcomponent wrap %}"),
            ("page.html", "{{<btn label=\"a<b\" />}}{% <card title={t}> %}inner {{ t }} {% <wrap> %}deep{% include \"part.html\" %}{% </wrap> %}{% </card> %}{% set c %}{% include \"part.html\" %}{{<btn label={t} kind=\"k\" />}}{% endset %}{{ c }}{% filter upper %}{% include \"part.html\" %}{% endfilter %}"),
            ("part.html", "<part {{ t }}>{% for x in [1, 2, 3] %}{{ x }}{% if x == 2 %}{% break %}{% endif %}{% endfor %}</part>"),
        ],
        vec![("t", Value::from("T&\"t\""))],
        vec![
            t("page.html"),
            t("part.html"),
            Entry::Component { name: "btn".into(), body: None, autoescape: true },
            Entry::Component { name: "wrap".into(), body: Some("<raw&body>".into()), autoescape: true },
            Entry::Component { name: "wrap".into(), body: Some("<raw&body>".into()), autoescape: false },
            Entry::Component { name: "wrap".into(), body: Some("".into()), autoescape: true },
            Entry::Component { name: "wrap".into(), body: Some(" ".into()), autoescape: false },
            Entry::Component { name: "wrap".into(), body: None, autoescape: true },
            Entry::Component { name: "card".into(), body: Some("".into()), autoescape: true },
            Entry::Component { name: "nope".into(), body: None, autoescape: true },
        ],
        vec!["components_nested", "include_in_capture"],
    );
    // component contexts must hold exactly the parameters
    add(
        &[("ui2.html", "{% component btn(label, kind = \"p\") %}<b class=\"{{ kind }}\">{{ label }}{{ body }}</b>{% endcomponent btn %}")],
        vec![("label", Value::from("L<>"))],
        vec![
            Entry::Component { name: "btn".into(), body: Some("B&".into()), autoescape: true },
            Entry::Component { name: "btn".into(), body: None, autoescape: false },
        ],
        vec!["render_component"],
    );
    // errors in the middle of the output, after nested calls
    add(
        &[
            ("err.html", "start {{ a }}{% include \"err_inc.html\" %} never"),
            ("err_inc.html", "inc {{ a }} {{ 1 / 0 }} tail"),
            ("err2.html", "x{% set s %}captured {{ missing }}{% endset %}y"),
            ("err3.html", "{% for i in [1, 2, 3] %}{{ i }}{{ 10 // (2 - i) }}{% endfor %}"),
            ("thrower.html", "before{{ throw(message=\"boom\") }}after"),
        ],
        vec![("a", Value::from("A"))],
        vec![t("err.html"), t("err2.html"), t("err3.html"), t("thrower.html"), t("does-not-exist.html")],
        vec!["error_midway"],
    );
    // one-off strings
    for (src, ae) in [("{{ a }}<{{ a | safe }}>{% for i in range(end=3) %}{{ i }}{% endfor %}", true), ("{% set q %}é{{ a }}{% endset %}{{ q | upper }}{{ q }}", false), ("{% extends \"x\" %}", true), ("{{ unclosed", true)] {
        add(&[("unused.html", "u")], vec![("a", Value::from("é<&>"))], vec![Entry::Str { source: src.into(), autoescape: ae }], vec!["render_str"]);
    }
    // large text and many writes
    let big: String = (0..400).map(|i| format!("line {i} <&>\n")).collect();
    add(
        &[("big.html", "{% for l in lines %}{{ l }}{% endfor %}{{ whole }}"), ("raw.txt", "{% raw %}{{ not }} {% a %}{% endraw %}{{ whole }}")],
        vec![("lines", Value::from((0..40).map(|i| Value::from(format!("<{i}>"))).collect::<Vec<_>>())), ("whole", Value::from(big.as_str()))],
        vec![t("big.html"), t("raw.txt")],
        vec!["large_output"],
    );
    out
}

// ------------------------------------------------------------------ the oracles
#[derive(Default)]
struct Stats {
    evaluations: u64,
    oracle_checks: u64,
    failure_points: u64,
    concurrent_renders: u64,
    hist: BTreeMap<String, u64>,
}

impl Stats {
    fn count(&mut self, k: &str) {
        *self.hist.entry(k.to_string()).or_insert(0) += 1;
    }
    fn merge(&mut self, o: Stats) {
        self.evaluations += o.evaluations;
        self.oracle_checks += o.oracle_checks;
        self.failure_points += o.failure_points;
        self.concurrent_renders += o.concurrent_renders;
        for (k, v) in o.hist {
            *self.hist.entry(k).or_insert(0) += v;
        }
    }
}

struct Failure {
    what: String,
    policy: Option<Policy>,
}

/// Reference behaviour of one entry: the String variant and the recording writer.
struct Reference {
    class: String,
    full: Vec<u8>,
    trace: Vec<usize>,
}

fn reference(tera: &Tera, entry: &Entry, ctx: &Context) -> Reference {
    let r = run_policy(tera, entry, ctx, Policy::All);
    Reference { class: r.class, full: r.accepted, trace: r.trace }
}

/// expected accepted bytes for a policy given the reference; None = failure point not reached
fn expected(refr: &Reference, p: &Policy) -> (Option<String>, Vec<u8>) {
    match p {
        Policy::All | Policy::Trickle | Policy::Interrupt => (None, refr.full.clone()),
        Policy::Call(k) | Policy::Zero(k) => {
            if *k < refr.trace.len() {
                let n: usize = refr.trace[..*k].iter().sum();
                (Some(if matches!(p, Policy::Zero(_)) { "io:WriteZero".to_string() } else { format!("io:{:?}", fail_kind(*k)) }), refr.full[..n].to_vec())
            } else {
                (None, refr.full.clone())
            }
        }
        Policy::Transient { call, take, kind } => {
            // `write_all` retries Interrupted itself (control); every other kind is an error of
            // the render: what was accepted stays a prefix, nothing is ever sent twice
            if *call >= refr.trace.len() || *kind == 2 {
                (None, refr.full.clone())
            } else {
                let before: usize = refr.trace[..*call].iter().sum();
                let k = if *take > 0 && refr.trace[*call] > 1 { (*take).min(refr.trace[*call] - 1) } else { 0 };
                (Some(if *kind == 0 { "io:WouldBlock".to_string() } else { "io:TimedOut".to_string() }), refr.full[..before + k].to_vec())
            }
        }
        Policy::Bytes(n) => {
            if *n < refr.full.len() {
                (Some(format!("io:{:?}", fail_kind(*n))), refr.full[..*n].to_vec())
            } else {
                (None, refr.full.clone())
            }
        }
    }
}

fn check_policy(tera: &Tera, entry: &Entry, ctx: &Context, refr: &Reference, p: &Policy) -> Result<PolicyRun, (String, PolicyRun)> {
    let run = run_policy(tera, entry, ctx, p.clone());
    let (want_io, want_bytes) = expected(refr, p);
    let want_class = want_io.unwrap_or_else(|| refr.class.clone());
    if run.class != want_class {
        let msg = format!("writer policy {}: render_to ended `{}`, expected `{}` (writer refused a call: {})", p.name(), run.class, want_class, run.refused);
        return Err((msg, run));
    }
    if run.accepted != want_bytes {
        let msg = format!(
            "writer policy {}: accepted bytes are not the expected prefix of the full output (accepted {} bytes, expected {} of {})",
            p.name(),
            run.accepted.len(),
            want_bytes.len(),
            refr.full.len()
        );
        return Err((msg, run));
    }
    Ok(run)
}

fn policies_for(refr: &Reference, cap_calls: usize, cap_bytes: usize, rng: &mut Rng) -> Vec<Policy> {
    let mut ps = vec![Policy::Trickle, Policy::Interrupt];
    let n = refr.trace.len();
    let l = refr.full.len();
    if n + 1 <= cap_calls {
        ps.extend((0..=n).map(Policy::Call));
    } else {
        ps.extend((0..cap_calls / 2).map(Policy::Call));
        ps.extend((0..cap_calls / 2).map(|_| Policy::Call(rng.below(n + 1))));
        ps.push(Policy::Call(n));
        ps.push(Policy::Call(n - 1));
    }
    for k in [0, n / 2, n.saturating_sub(1), n] {
        ps.push(Policy::Zero(k));
    }
    // transient errors after a short write, at every call (sampled above 48 calls)
    let calls: Vec<usize> = if n <= 48 { (0..=n).collect() } else { (0..24).chain((0..24).map(|_| rng.below(n + 1))).collect() };
    for call in calls {
        for take in [0usize, 1, 3, 1 << 20] {
            for kind in 0u8..3 {
                if kind != 0 && take != 1 {
                    continue;
                }
                ps.push(Policy::Transient { call, take, kind });
            }
        }
    }
    if l + 1 <= cap_bytes {
        ps.extend((0..=l).map(Policy::Bytes));
    } else {
        ps.extend((0..cap_bytes / 2).map(Policy::Bytes));
        ps.extend((0..cap_bytes / 2).map(|_| Policy::Bytes(rng.below(l + 1))));
        ps.push(Policy::Bytes(l));
        ps.push(Policy::Bytes(l - 1));
    }
    ps
}

/// All direct oracles for one entry of one case.  Returns the reference and the first failure.
fn check_entry(tera: &Tera, entry: &Entry, ctx: &Context, stats: &mut Stats, rng: &mut Rng, caps: (usize, usize), threads: usize) -> (Reference, Option<Failure>) {
    let refr = reference(tera, entry, ctx);
    stats.evaluations += 1;
    stats.count(&format!("entry.{}.{}", entry.kind(), refr.class));
    stats.count(&format!("calls.{}", bucket(refr.trace.len())));
    stats.count(&format!("bytes.{}", bucket(refr.full.len())));
    if refr.class == "panic" {
        return (refr, Some(Failure { what: "render_to into a recording writer panicked".into(), policy: Some(Policy::All) }));
    }
    if refr.class.starts_with("io") {
        return (refr, Some(Failure { what: "render_to reported an I/O error although the writer never refused".into(), policy: Some(Policy::All) }));
    }
    // String variant vs writer variant
    let s = catch(AssertUnwindSafe(|| run_string(tera, entry, ctx)));
    stats.oracle_checks += 1;
    let s_class = class_of(&s);
    // bytes that are not UTF-8 cannot be a String: the String channel must then be the
    // Utf8Conversion error (not lossy text), and only then
    let writer_utf8 = std::str::from_utf8(&refr.full).is_ok();
    if refr.class == "ok" && !writer_utf8 {
        let is_utf8_err = matches!(&s, Ok(Err(e)) if matches!(e.kind(), ErrorKind::Utf8Conversion));
        stats.count("non_utf8_output");
        if !is_utf8_err {
            return (refr.clone_ref(), Some(Failure { what: format!("the writer variant wrote bytes that are not UTF-8; the String variant must be the Utf8Conversion error but ended `{s_class}`"), policy: None }));
        }
    } else if s_class != refr.class {
        return (refr.clone_ref(), Some(Failure { what: format!("String variant ended `{s_class}` but the writer variant ended `{}`", refr.class), policy: None }));
    }
    if let Ok(Ok(text)) = &s {
        if text.as_bytes() != refr.full.as_slice() {
            // is it the channel, or is the render itself not repeatable?
            let again = reference(tera, entry, ctx);
            let what = if again.full != refr.full {
                "two renders of the same template and context give different bytes (rendering is not repeatable)"
            } else {
                "String variant returned other bytes than the writer variant wrote"
            };
            return (refr.clone_ref(), Some(Failure { what: what.into(), policy: None }));
        }
    }
    // `Tera::one_off` = `render_str` on a default instance: same bytes when the source needs
    // nothing registered (no include, no component call)
    if let Entry::Str { source, autoescape } = entry {
        // (`one_off` always uses the default delimiters)
        // (`one_off` is a default instance: default delimiters, empty global context, default escaping)
        let default_delims = ONE_OFF_COMPARABLE.with(|c| c.get());
        if default_delims && !source.contains("include") && !source.contains("{{<") && !source.contains("{% <") {
            let o = catch(AssertUnwindSafe(|| Tera::one_off(source, ctx, *autoescape)));
            stats.oracle_checks += 1;
            stats.count("one_off_compared");
            let same_text = match (&o, &s) {
                (Ok(Ok(a)), Ok(Ok(b))) => a == b,
                _ => true,
            };
            if class_of(&o) != s_class || !same_text {
                return (refr.clone_ref(), Some(Failure { what: format!("Tera::one_off ended `{}` / other bytes than render_str (`{s_class}`)", class_of(&o)), policy: None }));
            }
        }
    }
    // Vec<u8> as the writer (what the documentation shows)
    {
        let mut v: Vec<u8> = Vec::new();
        let mut pw = VecAdapter(&mut v);
        let r = catch(AssertUnwindSafe(|| match entry {
            Entry::Template(t) => tera.render_to(t, ctx, &mut pw.0),
            Entry::Block(t, b) => tera.render_block_to(t, b, ctx, &mut pw.0),
            Entry::Component { name, body, autoescape } => tera.render_component_to(name, ctx, body.as_deref(), *autoescape, &mut pw.0),
            Entry::Str { source, autoescape } => tera.render_str_to(source, ctx, *autoescape, &mut pw.0),
        }));
        stats.oracle_checks += 1;
        if class_of(&r) != refr.class || v != refr.full {
            return (refr.clone_ref(), Some(Failure { what: "render_to(Vec) differs from render_to(recording writer)".into(), policy: None }));
        }
    }
    // every failure point
    for p in policies_for(&refr, caps.0, caps.1, rng) {
        stats.oracle_checks += 1;
        stats.failure_points += 1;
        if let Err((msg, _)) = check_policy(tera, entry, ctx, &refr, &p) {
            return (refr.clone_ref(), Some(Failure { what: msg, policy: Some(p) }));
        }
    }
    // repeat and concurrent renders on the shared instance
    let again = reference(tera, entry, ctx);
    stats.oracle_checks += 1;
    if again.class != refr.class || again.full != refr.full {
        return (refr.clone_ref(), Some(Failure { what: "a second render of the same template and context differs from the first".into(), policy: Some(Policy::All) }));
    }
    if threads > 1 {
        let barrier = std::sync::Barrier::new(threads);
        let results: Vec<Vec<(String, Vec<u8>)>> = std::thread::scope(|sc| {
            let hs: Vec<_> = (0..threads)
                .map(|_| {
                    sc.spawn(|| {
                        barrier.wait();
                        (0..3)
                            .map(|_| {
                                let r = run_policy(tera, entry, ctx, Policy::All);
                                (r.class, r.accepted)
                            })
                            .collect::<Vec<_>>()
                    })
                })
                .collect();
            hs.into_iter().map(|h| h.join().unwrap_or_default()).collect()
        });
        for rs in &results {
            if rs.len() != 3 {
                return (refr.clone_ref(), Some(Failure { what: "a concurrent render thread died".into(), policy: Some(Policy::All) }));
            }
            for (c, b) in rs {
                stats.oracle_checks += 1;
                stats.concurrent_renders += 1;
                if *c != refr.class || *b != refr.full {
                    return (refr.clone_ref(), Some(Failure { what: format!("a render running concurrently with {} others on the shared Tera differs from the sequential render", threads - 1), policy: Some(Policy::All) }));
                }
            }
        }
    }
    (refr, None)
}

thread_local! {
    /// whether the case being checked on this thread is configured like `Tera::default()`
    static ONE_OFF_COMPARABLE: std::cell::Cell<bool> = const { std::cell::Cell::new(false) };
}

fn set_one_off_comparable(case: &Case) {
    ONE_OFF_COMPARABLE.with(|c| c.set(case.delims.is_none() && case.global.is_empty() && !case.latin1_escape));
}

struct VecAdapter<'a>(&'a mut Vec<u8>);

impl Reference {
    fn clone_ref(&self) -> Reference {
        Reference { class: self.class.clone(), full: self.full.clone(), trace: self.trace.clone() }
    }
}

fn bucket(n: usize) -> &'static str {
    match n {
        0 => "0",
        1..=4 => "1-4",
        5..=16 => "5-16",
        17..=64 => "17-64",
        65..=256 => "65-256",
        257..=1024 => "257-1024",
        _ => ">1024",
    }
}

fn component_ctx(case: &Case, tera: &Tera, name: &str) -> Context {
    // exactly the parameters of the component (a closed component rejects unknown arguments)
    let mut c = Context::new();
    if let Some(info) = tera.get_component_definition(name) {
        let dbg = format!("{info:?}");
        for (k, v) in &case.ctx {
            if dbg.contains(&format!("\"{k}\"")) {
                c.insert_value(k.clone(), v.clone());
            }
        }
    }
    c
}

fn ctx_for(case: &Case, tera: &Tera, entry: &Entry) -> Context {
    match entry {
        Entry::Component { name, .. } => component_ctx(case, tera, name),
        _ => case.context(),
    }
}

fn replay_json(case: &Case, entry: &Entry, policy: Option<&Policy>, detail: serde_json::Value) -> serde_json::Value {
    json!({
        "case": case.to_json(),
        "entry": entry.to_json(),
        "policy": policy.map(|p| p.name()),
        "detail": detail,
        "rerun": "harness/target/release/c18 --replay <this file>",
    })
}

// ------------------------------------------------------------------ shrinking of generated programs
fn deletions(ops: &[Op]) -> Vec<Vec<Op>> {
    let mut out = Vec::new();
    for i in 0..ops.len() {
        // delete op i
        let mut v = ops.to_vec();
        v.remove(i);
        out.push(v);
        // replace op i by a smaller version of itself
        let subs: Vec<Op> = match &ops[i] {
            Op::SetBlock { var, body } => deletions(body).into_iter().map(|b| Op::SetBlock { var: var.clone(), body: b }).collect(),
            Op::FilterSec(body) => deletions(body).into_iter().map(Op::FilterSec).collect(),
            Op::Include { tpl, body } => deletions(body).into_iter().map(|b| Op::Include { tpl: tpl.clone(), body: b }).collect(),
            Op::For { var, n, body } => {
                let mut s: Vec<Op> = deletions(body).into_iter().map(|b| Op::For { var: var.clone(), n: *n, body: b }).collect();
                if *n > 1 {
                    s.push(Op::For { var: var.clone(), n: n - 1, body: body.clone() });
                }
                s
            }
            Op::Block { name, body, parent } => {
                let mut s: Vec<Op> = deletions(body).into_iter().map(|b| Op::Block { name: name.clone(), body: b, parent: parent.clone() }).collect();
                if let Some(p) = parent {
                    s.extend(deletions(p).into_iter().map(|pp| Op::Block { name: name.clone(), body: body.clone(), parent: Some(pp) }));
                }
                s
            }
            Op::Comp { name, body, def } => {
                let mut s: Vec<Op> = deletions(def).into_iter().map(|d| Op::Comp { name: name.clone(), body: body.clone(), def: d }).collect();
                if let Some(b) = body {
                    s.extend(deletions(b).into_iter().map(|bb| Op::Comp { name: name.clone(), body: Some(bb), def: def.clone() }));
                }
                s
            }
            Op::Text(t) if t.chars().count() > 1 => vec![Op::Text(t.chars().take(1).collect())],
            Op::Var { name, value, safe } if value.chars().count() > 1 => {
                vec![Op::Var { name: name.clone(), value: value.chars().take(1).collect(), safe: *safe }]
            }
            _ => vec![],
        };
        for s in subs {
            let mut v = ops.to_vec();
            v[i] = s;
            out.push(v);
        }
    }
    out
}

fn shrink(ops: Vec<Op>, autoescape: Cfg, fails: &dyn Fn(&GenCase) -> bool) -> Vec<Op> {
    let mut cur = ops;
    let mut budget = 400;
    'outer: loop {
        for cand in deletions(&cur) {
            if budget == 0 {
                break 'outer;
            }
            budget -= 1;
            if cand.is_empty() {
                continue;
            }
            let gc = build_case(&cand, autoescape);
            if fails(&gc) {
                cur = cand;
                continue 'outer;
            }
        }
        break;
    }
    cur
}

// ------------------------------------------------------------------ model correspondence
struct ModelReq {
    line: String,
    imp: String,
    case_idx: usize,
    entry: Entry,
    policy: Policy,
}

fn model_class(c: &str) -> &str {
    if c.starts_with("io") { "io" } else { c }
}

fn model_requests(case: &Case, tera: &Tera, entries: &[Entry], case_idx: usize, caps: (usize, usize), rng: &mut Rng, out: &mut Vec<ModelReq>) {
    let Some(prog) = &case.program else { return };
    let ctx = case.context();
    for entry in entries {
        let blk = match entry {
            Entry::Template(_) => "-".to_string(),
            Entry::Block(_, b) => hex(b.as_bytes()),
            _ => continue,
        };
        let refr = reference(tera, entry, &ctx);
        let mut ps = vec![Policy::All];
        ps.extend(policies_for(&refr, caps.0, caps.1, rng));
        for p in ps {
            let Some(pw) = p.wire() else { continue };
            let run = run_policy(tera, entry, &ctx, p.clone());
            out.push(ModelReq {
                line: format!("run {} {} {} {}", if case.autoescape { 1 } else { 0 }, blk, pw, prog),
                imp: format!("{} {}", model_class(&run.class), hex(&run.accepted)),
                case_idx,
                entry: entry.clone(),
                policy: p,
            });
        }
    }
}

fn strip_calls(model_line: &str) -> String {
    // "<res> <calls> <hex>" -> "<res> <hex>"
    let mut it = model_line.split(' ');
    let a = it.next().unwrap_or("");
    let _calls = it.next();
    let c = it.next().unwrap_or("");
    format!("{a} {c}")
}

// ------------------------------------------------------------------ concurrency burst
/// N threads render recursive, busy components of depth 6..=10 at the same time on ONE shared
/// `Tera`, round after round (a barrier starts each round): every result must be the sequential
/// one.  A per-instance (instead of per-render) piece of render state — e.g. a shared recursion
/// counter — makes renders that are each within the limits fail or differ when they overlap.
fn concurrency_burst(rounds: usize, threads: usize) -> (u64, Option<(String, serde_json::Value)>) {
    let templates: Vec<(String, String)> = vec![
        (
            "busy.html".into(),
            "{% component Busy(n) %}{% set_global acc = 0 %}{% for i in range(end=1500) %}{% set_global acc = (acc + i * n) % 1000003 %}{% endfor %}{{ n }}:{{ acc }}<{% if n > 0 %}{{<Busy n={n - 1} />}}{% endif %}>{% endcomponent Busy %}".into(),
        ),
        ("busypage.html".into(), "{% set m = {\"a\": d, \"b\": d + 1, \"c\": d + 2} %}{{ m | values }}{{<Busy n={d} />}}{% include \"busyinc.html\" %}".into()),
        ("busyinc.html".into(), "|inc {{<Busy n={d - 2} />}}".into()),
    ];
    let mut tera = Tera::default();
    if let Err(e) = tera.add_raw_templates(templates.clone()) {
        return (0, Some((format!("the concurrency templates are rejected: {e}"), json!({"stage": "corpus", "templates": templates}))));
    }
    let depths: Vec<i64> = (0..threads).map(|i| 6 + (i as i64 % 5)).collect();
    let ctx_of = |d: i64| {
        let mut c = Context::new();
        c.insert_value("d", Value::from(d));
        c
    };
    let sequential: Vec<(String, Vec<u8>)> = depths
        .iter()
        .map(|d| {
            let r = run_policy(&tera, &Entry::Template("busypage.html".into()), &ctx_of(*d), Policy::All);
            (r.class, r.accepted)
        })
        .collect();
    let barrier = std::sync::Barrier::new(threads);
    let renders = std::sync::atomic::AtomicU64::new(0);
    let failure: std::sync::Mutex<Option<(usize, usize, String)>> = std::sync::Mutex::new(None);
    std::thread::scope(|sc| {
        for ti in 0..threads {
            let (tera, barrier, renders, failure, sequential, depths) = (&tera, &barrier, &renders, &failure, &sequential, &depths);
            sc.spawn(move || {
                let ctx = ctx_of(depths[ti]);
                let entry = Entry::Template("busypage.html".into());
                for round in 0..rounds {
                    barrier.wait();
                    let r = run_policy(tera, &entry, &ctx, Policy::All);
                    renders.fetch_add(1, std::sync::atomic::Ordering::Relaxed);
                    if r.class != sequential[ti].0 || r.accepted != sequential[ti].1 {
                        let mut f = failure.lock().unwrap();
                        if f.is_none() {
                            *f = Some((ti, round, format!("`{}` {:?}", r.class, String::from_utf8_lossy(&r.accepted).chars().take(80).collect::<String>())));
                        }
                    }
                }
            });
        }
    });
    let n = renders.load(std::sync::atomic::Ordering::Relaxed);
    let f = failure.into_inner().unwrap();
    match f {
        None => (n, None),
        Some((ti, round, got)) => (
            n,
            Some((
                format!(
                    "a render running concurrently with {} others on one shared Tera differs from the same render run alone: thread {ti} (component depth {}), round {round}: got {got}, alone `{}`",
                    threads - 1,
                    depths[ti],
                    sequential[ti].0
                ),
                json!({
                    "case": {"templates": templates, "ctx": {"d": format!("i64:{}", depths[ti])}, "program": null, "autoescape": true, "fallback_prefixes": [], "delimiters": null},
                    "entry": {"kind": "template", "name": "busypage.html"},
                    "policy": "all",
                    "detail": {"oracle": "concurrent == sequential", "threads": threads, "depths": depths, "rounds": rounds, "note": "the failure needs overlapping renders: --replay runs the 8-thread trials on this case; rerun the check to repeat the burst"},
                    "rerun": "harness/target/release/c18 --replay <this file>",
                }),
            )),
        ),
    }
}

// ------------------------------------------------------------------ clones
/// `Tera::clone()` followed by divergent registrations, renders on original and clone
/// interleaved: each must render like a FRESH instance built with the same history (nothing may
/// be shared between an engine and its clone but immutable data).
fn clone_divergence() -> (u64, Option<(String, serde_json::Value)>) {
    let prefixes = vec!["themes/hot/".to_string(), "themes/cool/".to_string()];
    let common: Vec<(String, String)> = vec![
        ("themes/cool/page.html".into(), "{% extends \"base.html\" %}{% block b %}cool-page {{ v }}{% include \"part.html\" %}{% endblock %}".into()),
        ("themes/cool/base.html".into(), "cool-base[{% block b %}{% endblock %}]".into()),
        ("themes/cool/part.html".into(), "<cool-part>".into()),
        ("themes/cool/ui.html".into(), "{% component who() %}cool-comp{% endcomponent who %}".into()),
        ("site.html".into(), "site:{% include \"part.html\" %}{{<who />}}".into()),
    ];
    let hot: Vec<(String, String)> = vec![
        ("themes/hot/page.html".into(), "{% extends \"base.html\" %}{% block b %}HOT-page {{ v }}{% include \"part.html\" %}{% endblock %}".into()),
        ("themes/hot/part.html".into(), "<HOT-part>".into()),
        ("themes/hot/ui.html".into(), "{% component who() %}HOT-comp{% endcomponent who %}".into()),
    ];
    let late: Vec<(String, String)> = vec![("themes/hot/base.html".into(), "HOT-base[{% block b %}{% endblock %}]".into())];
    let build = |sets: &[&Vec<(String, String)>]| -> Result<Tera, String> {
        let mut t = Tera::default();
        t.set_fallback_prefixes(prefixes.clone()).map_err(|e| e.to_string())?;
        for set in sets {
            t.add_raw_templates((*set).clone()).map_err(|e| e.to_string())?;
        }
        Ok(t)
    };
    let mut ctx = Context::new();
    ctx.insert_value("v", Value::from("<v>"));
    let entries = vec![
        Entry::Template("page.html".into()),
        Entry::Template("part.html".into()),
        Entry::Template("site.html".into()),
        Entry::Template("base.html".into()),
        Entry::Block("page.html".into(), "b".into()),
        Entry::Component { name: "who".into(), body: None, autoescape: true },
        Entry::Str { source: "{% include \"part.html\" %}+{% include \"page.html\" %}".into(), autoescape: true },
    ];
    let both_channels = |t: &Tera, e: &Entry| -> (String, Vec<u8>, String) {
        let w = run_policy(t, e, &ctx, Policy::All);
        let s = catch(AssertUnwindSafe(|| run_string(t, e, &ctx)));
        let st = match &s {
            Ok(Ok(x)) => format!("ok {x}"),
            other => class_of(other),
        };
        (w.class, w.accepted, st)
    };
    let mut checks = 0u64;
    let fail = |what: String, history: &str| {
        Some((
            what,
            json!({"scenario": "clone-divergence", "history": history, "prefixes": prefixes, "common": common, "hot": hot, "late": late,
                   "rerun": "harness/target/release/c18 --replay <this file>"}),
        ))
    };
    let (Ok(fresh_orig), Ok(fresh_clone), Ok(fresh_orig2)) = (build(&[&common]), build(&[&common, &hot]), build(&[&common, &late])) else {
        return (0, Some(("the clone scenario templates are rejected".into(), json!({"stage": "corpus"}))));
    };
    for order in 0..3 {
        // history: original built and rendered; clone taken; the CLONE gets the hotter theme;
        // then renders alternate between original and clone in three different orders
        let Ok(orig) = build(&[&common]) else { break };
        for e in &entries {
            let _ = both_channels(&orig, e);
        }
        let mut clone = orig.clone();
        if clone.add_raw_templates(hot.clone()).is_err() {
            break;
        }
        for e in &entries {
            let (first, second): (&Tera, &Tera) = if order == 1 { (&clone, &orig) } else { (&orig, &clone) };
            let a = both_channels(first, e);
            let b = both_channels(second, e);
            if order == 2 {
                let _ = both_channels(&orig, e);
            }
            let (o, c) = if order == 1 { (b, a) } else { (a, b) };
            let c = if order == 2 { both_channels(&clone, e) } else { c };
            checks += 2;
            let want_o = both_channels(&fresh_orig, e);
            let want_c = both_channels(&fresh_clone, e);
            if c != want_c {
                return (checks, fail(format!("a clone that got more templates renders {} differently from a fresh instance with the same history: clone `{}` {:?}, fresh `{}` {:?}", e.to_json(), c.0, String::from_utf8_lossy(&c.1), want_c.0, String::from_utf8_lossy(&want_c.1)), "original rendered, cloned, clone += hot theme, renders interleaved"));
            }
            if o != want_o {
                return (checks, fail(format!("the original renders {} differently after its clone diverged: `{}` {:?}, fresh `{}` {:?}", e.to_json(), o.0, String::from_utf8_lossy(&o.1), want_o.0, String::from_utf8_lossy(&want_o.1)), "original rendered, cloned, clone += hot theme, renders interleaved"));
            }
        }
        // the other way round: the ORIGINAL gets a template after the clone was taken
        let Ok(mut orig) = build(&[&common]) else { break };
        let clone = orig.clone();
        for e in &entries {
            let _ = both_channels(&clone, e);
        }
        if orig.add_raw_templates(late.clone()).is_err() {
            break;
        }
        for e in &entries {
            let c = both_channels(&clone, e);
            let o = both_channels(&orig, e);
            let c2 = both_channels(&clone, e);
            checks += 3;
            let want_o = both_channels(&fresh_orig2, e);
            let want_c = both_channels(&fresh_orig, e);
            if o != want_o {
                return (checks, fail(format!("an engine that got a template after being cloned renders {} differently from a fresh instance with the same history: `{}` {:?}, fresh `{}` {:?}", e.to_json(), o.0, String::from_utf8_lossy(&o.1), want_o.0, String::from_utf8_lossy(&want_o.1)), "cloned, clone rendered, original += late base, renders interleaved"));
            }
            if c != want_c || c2 != want_c {
                return (checks, fail(format!("a clone renders {} differently after the original changed: `{}` {:?}, fresh `{}` {:?}", e.to_json(), c2.0, String::from_utf8_lossy(&c2.1), want_c.0, String::from_utf8_lossy(&want_c.1)), "cloned, clone rendered, original += late base, renders interleaved"));
            }
        }
    }
    (checks, None)
}

// ------------------------------------------------------------------ main
fn replay(path: &str, env: &Env) {
    let text = std::fs::read_to_string(path).expect("replay file");
    let j: serde_json::Value = serde_json::from_str(&text).expect("replay json");
    let j = if j.get("replay").is_some() { j["replay"].clone() } else { j };
    if j["scenario"].as_str() == Some("clone-divergence") {
        println!("scenario: Tera::clone() + divergent template sets + interleaved renders (see `history`, `common`, `hot`, `late` in the file)");
        match clone_divergence() {
            (n, None) => println!("oracle: clones and originals render like fresh instances ({n} checks)"),
            (_, Some((what, _))) => println!("oracle: FAILS: {what}"),
        }
        return;
    }
    let case = Case::from_json(&j["case"]).expect("case");
    let entry = Entry::from_json(&j["entry"]).expect("entry");
    let policy = j["policy"].as_str().and_then(Policy::parse);
    for (n, s) in &case.templates {
        println!("template {n:?}: {s:?}");
    }
    println!("context: {:?}", case.ctx.iter().map(|(k, v)| format!("{k}={v:?}")).collect::<Vec<_>>());
    println!("entry: {}", entry.to_json());
    let tera = match case.tera() {
        Ok(t) => t,
        Err(e) => {
            println!("cannot build the template set: {e}");
            return;
        }
    };
    let ctx = ctx_for(&case, &tera, &entry);
    let s = catch(AssertUnwindSafe(|| run_string(&tera, &entry, &ctx)));
    println!("String variant: {} {:?}", class_of(&s), s.as_ref().ok().and_then(|r| r.as_ref().ok()));
    let refr = reference(&tera, &entry, &ctx);
    println!("writer variant (recording writer): {} {} calls, {} bytes: {:?}", refr.class, refr.trace.len(), refr.full.len(), String::from_utf8_lossy(&refr.full));
    if let Some(p) = policy {
        let run = run_policy(&tera, &entry, &ctx, p.clone());
        let (want_io, want) = expected(&refr, &p);
        println!("policy {}: implementation `{}` accepted {:?}", p.name(), run.class, String::from_utf8_lossy(&run.accepted));
        println!("policy {}: property demands `{}` accepted {:?}", p.name(), want_io.unwrap_or(refr.class.clone()), String::from_utf8_lossy(&want));
        if let (Some(prog), Some(pw)) = (&case.program, p.wire()) {
            let blk = match &entry {
                Entry::Block(_, b) => hex(b.as_bytes()),
                _ => "-".into(),
            };
            let line = format!("run {} {} {} {}", if case.autoescape { 1 } else { 0 }, blk, pw, prog);
            let exe = driver::driver_path(&env.verif_dir, "drv_c18");
            println!("model request: {line}");
            println!("model: {:?}", driver::run_batch(&exe, &[line]));
        }
    }
    let mut stats = Stats::default();
    let mut rng = Rng::new(env.seed);
    let (_, f) = check_entry(&tera, &entry, &ctx, &mut stats, &mut rng, (usize::MAX, usize::MAX), 8);
    match f {
        Some(f) => println!("oracle: FAILS: {} (policy {:?})", f.what, f.policy.map(|p| p.name())),
        None => println!("oracle: all direct oracles pass on this case ({} checks)", stats.oracle_checks),
    }
}

fn main() {
    quiet_panics();
    let env = Env::from_env();
    if let Some(path) = replay_path() {
        replay(&path, &env);
        return;
    }
    let mut report = Report::new("C18");
    let mut rng = Rng::new(env.seed);
    let threads = std::thread::available_parallelism().map(|n| n.get()).unwrap_or(8).min(16);
    let caps = (env.budget(400, 5000), env.budget(700, 20000));

    // ---- fixed corpus: every write site with values whose chunking the model does not predict
    let mut stats = Stats::default();
    let mut distinct: BTreeSet<(String, Vec<u8>, usize)> = BTreeSet::new();
    let mut n_fail = 0u64;
    for (case, entries) in fixed_cases() {
        let tera = match case.tera() {
            Ok(t) => t,
            Err(e) => {
                report.notes.push(format!("fixed case does not build: {e}"));
                report.violation("model-mismatch", format!("a fixed corpus template set is rejected by the engine: {e}"), json!({"stage": "corpus", "case": case.to_json()}));
                continue;
            }
        };
        for f in &case.features {
            stats.count(&format!("feature.{f}"));
        }
        for entry in &entries {
            let ctx = ctx_for(&case, &tera, entry);
            let (refr, fail) = check_entry(&tera, entry, &ctx, &mut stats, &mut rng, (usize::MAX, usize::MAX), 8);
            if refr.class == "ok" && !refr.full.is_empty() {
                distinct.insert((format!("{:?}", entry.to_json()), refr.full.clone(), refr.trace.len()));
            }
            if report.samples.len() < 3 {
                report.sample(json!({"templates": case.templates, "entry": entry.to_json(), "result": refr.class, "write_calls": refr.trace.len(), "output": String::from_utf8_lossy(&refr.full).chars().take(200).collect::<String>()}));
            }
            if let Some(f) = fail {
                n_fail += 1;
                report.violation("property", f.what.clone(), replay_json(&case, entry, f.policy.as_ref(), json!({"oracle": f.what})));
            }
        }
    }

    // ---- purity repeats: the order-revealing case 60 times on one instance, on fresh instances
    // and (above) on 8 threads: all outputs identical
    for (case, entries) in fixed_cases().into_iter().filter(|(c, _)| c.features.contains(&"spread_maps")) {
        let Ok(tera) = case.tera() else { continue };
        for entry in &entries {
            let ctx = ctx_for(&case, &tera, entry);
            let first = reference(&tera, entry, &ctx);
            let mut differs: Option<String> = None;
            for i in 0..env.budget(60, 600) {
                let r = reference(&tera, entry, &ctx);
                stats.oracle_checks += 1;
                stats.count("purity_repeats");
                if r.class != first.class || r.full != first.full {
                    differs = Some(format!("render #{} on the same instance differs from the first", i + 2));
                    break;
                }
            }
            if differs.is_none() {
                for i in 0..env.budget(6, 40) {
                    let Ok(fresh) = case.tera() else { break };
                    let r = reference(&fresh, entry, &ctx);
                    stats.oracle_checks += 1;
                    stats.count("purity_fresh_instances");
                    if r.class != first.class || r.full != first.full {
                        differs = Some(format!("the render on fresh instance #{} differs from the first instance", i + 1));
                        break;
                    }
                }
            }
            if let Some(d) = differs {
                n_fail += 1;
                report.violation("property", format!("rendering is not repeatable: {d}"), replay_json(&case, entry, Some(&Policy::All), json!({"oracle": "all repeats identical", "note": "--replay renders twice and on 8 threads; the difference shows up within a few dozen renders"})));
                break;
            }
        }
    }
    // ---- a clone must render like a fresh instance built with the same history
    {
        let (n, fail) = clone_divergence();
        stats.oracle_checks += n;
        report.count_n("clone_divergence.checks", n);
        if let Some((what, replay)) = fail {
            n_fail += 1;
            report.violation("property", what, replay);
        }
    }

    // ---- concurrency burst on one shared instance
    {
        let t0 = std::time::Instant::now();
        let (n, fail) = concurrency_burst(env.budget(120, 1500), 8);
        stats.concurrent_renders += n;
        stats.oracle_checks += n;
        report.count_n("concurrency_burst.renders", n);
        report.notes.push(format!("concurrency burst: {n} overlapping renders of recursive components (depth 6..=10) on one shared Tera in {:.1} s", t0.elapsed().as_secs_f64()));
        if let Some((what, replay)) = fail {
            n_fail += 1;
            let kind = if replay.get("stage").is_some() { "model-mismatch" } else { "property" };
            report.violation(kind, what, replay);
        }
    }

    // ---- generated programs
    let n_cases = env.budget(1500, 150000);
    let seeds: Vec<u64> = (0..n_cases).map(|_| rng.next_u64()).collect();
    let chunk = seeds.len().div_ceil(threads);
    struct Out {
        stats: Stats,
        distinct: BTreeSet<(String, Vec<u8>, usize)>,
        fails: Vec<(Vec<Op>, Cfg, Entry, Failure)>,
        reqs: Vec<ModelReq>,
        cases: Vec<(usize, Vec<Op>, Cfg)>,
        samples: Vec<serde_json::Value>,
        rejected: Vec<(String, serde_json::Value)>,
    }
    let quick = env.quick();
    let outs: Vec<Out> = std::thread::scope(|sc| {
        let hs: Vec<_> = seeds
            .chunks(chunk)
            .enumerate()
            .map(|(ti, ss)| {
                sc.spawn(move || {
                    let mut o = Out { stats: Stats::default(), distinct: BTreeSet::new(), fails: vec![], reqs: vec![], cases: vec![], samples: vec![], rejected: vec![] };
                    for (k, &seed) in ss.iter().enumerate() {
                        let idx = ti * chunk + k;
                        let mut r = Rng::new(seed);
                        let autoescape = r.chance(2, 3);
                        let allow_fail = r.chance(1, 8);
                        let mut g = Gen { rng: &mut r, counter: 0, allow_fail };
                        let ops = g.ops(Flags { depth: 0, blocks_ok: true, nested_parent_ok: true, super_ok: false, body_ok: false, ascii: false }, 6);
                        let cfg = Cfg { ae: autoescape, prefix: if idx % 3 == 2 { "themes/cool/" } else { "" }, delims: match idx % 5 { 1 => 1, 3 => 2, _ => 0 }, globals: idx % 2 == 0 };
                        let autoescape = cfg;
                        let gc = build_case(&ops, autoescape);
                        let tera = match gc.case.tera() {
                            Ok(t) => t,
                            Err(e) => {
                                o.stats.count("generated.rejected_at_add");
                                o.rejected.push((e, gc.case.to_json()));
                                continue;
                            }
                        };
                        for f in &gc.case.features {
                            o.stats.count(&format!("feature.{f}"));
                        }
                        // concurrency trials on a slice of the cases (thread start-up dominates)
                        let conc = if idx % 8 == 0 { 8 } else { 1 };
                        let mut case_ok = true;
                        for entry in &gc.entries {
                            let ctx = ctx_for(&gc.case, &tera, entry);
                            let (refr, fail) = check_entry(&tera, entry, &ctx, &mut o.stats, &mut r, caps, conc);
                            if refr.class == "ok" && !refr.full.is_empty() {
                                o.distinct.insert((entry.kind().to_string(), refr.full.clone(), refr.trace.len()));
                            }
                            if idx % 400 == 1 && matches!(entry, Entry::Template(_)) {
                                o.samples.push(json!({"templates": gc.case.templates, "context": gc.case.ctx.iter().map(|(k, v)| (k.clone(), v.to_string())).collect::<BTreeMap<_, _>>(), "program": gc.case.program, "result": refr.class, "write_calls": refr.trace.len(), "output": String::from_utf8_lossy(&refr.full)}));
                            }
                            if let Some(f) = fail {
                                case_ok = false;
                                o.fails.push((ops.clone(), autoescape, entry.clone(), f));
                                break;
                            }
                        }
                        // the thorough tier sends every tenth case to the model (memory), with all
                        // its failure points
                        if case_ok && (quick || idx % 10 == 0) {
                            model_requests(&gc.case, &tera, &gc.entries, idx, caps, &mut r, &mut o.reqs);
                            o.cases.push((idx, ops, autoescape));
                        }
                    }
                    o
                })
            })
            .collect();
        hs.into_iter().map(|h| h.join().unwrap()).collect()
    });
    let mut reqs: Vec<ModelReq> = Vec::new();
    let mut gen_cases: BTreeMap<usize, (Vec<Op>, Cfg)> = BTreeMap::new();
    let mut gen_fails = Vec::new();
    let mut rejected = Vec::new();
    for o in outs {
        stats.merge(o.stats);
        distinct.extend(o.distinct);
        reqs.extend(o.reqs);
        gen_fails.extend(o.fails);
        rejected.extend(o.rejected);
        for (i, ops, ae) in o.cases {
            gen_cases.insert(i, (ops, ae));
        }
        for s in o.samples {
            report.sample(s);
        }
    }
    if let Some((e, case)) = rejected.first() {
        // the generator only prints constructs the documentation allows: a rejection is a broken tie
        report.violation("model-mismatch", format!("{} generated template sets were rejected at registration, e.g.: {e}", rejected.len()), json!({"stage": "generator", "case": case}));
    }

    // direct-oracle failures on generated cases: shrink, then report
    for (ops, ae, entry, f) in gen_fails.into_iter().take(3) {
        n_fail += 1;
        let what = f.what.clone();
        let entry_kind = entry.kind();
        let small = shrink(ops, ae, &|gc: &GenCase| {
            let Ok(tera) = gc.case.tera() else { return false };
            let mut st = Stats::default();
            let mut r = Rng::new(1);
            gc.entries.iter().filter(|e| e.kind() == entry_kind).any(|e| {
                let ctx = ctx_for(&gc.case, &tera, e);
                check_entry(&tera, e, &ctx, &mut st, &mut r, caps, 1).1.is_some()
            })
        });
        let gc = build_case(&small, ae);
        // find the failing entry/policy again on the shrunk case
        let mut reported = false;
        if let Ok(tera) = gc.case.tera() {
            for e in gc.entries.iter().filter(|e| e.kind() == entry_kind) {
                let ctx = ctx_for(&gc.case, &tera, e);
                let mut st = Stats::default();
                let mut r = Rng::new(1);
                if let (_, Some(f2)) = check_entry(&tera, e, &ctx, &mut st, &mut r, caps, 1) {
                    report.violation("property", f2.what.clone(), replay_json(&gc.case, e, f2.policy.as_ref(), json!({"oracle": f2.what, "shrunk_from": what})));
                    reported = true;
                    break;
                }
            }
        }
        if !reported {
            let gc0 = build_case(&small, ae);
            report.violation("property", what.clone(), replay_json(&gc0.case, &entry, f.policy.as_ref(), json!({"oracle": what})));
        }
    }

    // ---- model correspondence
    let exe = driver::driver_path(&env.verif_dir, "drv_c18");
    let lines: Vec<String> = reqs.iter().map(|r| r.line.clone()).collect();
    let model = match driver::run_batch_parallel(&exe, &lines, threads) {
        Ok(m) => m,
        Err(e) => {
            report.notes.push(format!("model driver unavailable: {e}"));
            report.violation("model-mismatch", format!("model driver could not be run: {e}"), json!({"stage": "driver", "error": e}));
            Vec::new()
        }
    };
    let mut mismatches: Vec<usize> = Vec::new();
    for (i, m) in model.iter().enumerate() {
        report.model_comparisons += 1;
        if strip_calls(m) != reqs[i].imp {
            report.model_disagreements += 1;
            mismatches.push(i);
        }
    }
    if n_fail == 0 {
        if let Some(&i) = mismatches.first() {
            let r = &reqs[i];
            // shrink on "model and implementation still disagree for this entry kind and policy kind"
            let (ops, ae) = gen_cases[&r.case_idx].clone();
            let exe2 = exe.clone();
            let disagrees = |gc: &GenCase| -> Option<(Entry, Policy, String, String)> {
                let tera = gc.case.tera().ok()?;
                let mut rq = Vec::new();
                let mut rr = Rng::new(1);
                model_requests(&gc.case, &tera, &gc.entries, 0, caps, &mut rr, &mut rq);
                let ls: Vec<String> = rq.iter().map(|q| q.line.clone()).collect();
                let ms = driver::run_batch(&exe2, &ls).ok()?;
                ms.iter().zip(rq.iter()).find(|(m, q)| strip_calls(m) != q.imp).map(|(m, q)| (q.entry.clone(), q.policy.clone(), m.clone(), q.imp.clone()))
            };
            let small = shrink(ops, ae, &|gc: &GenCase| disagrees(gc).is_some());
            let gc = build_case(&small, ae);
            let (entry, policy, m, imp) = disagrees(&gc).unwrap_or((r.entry.clone(), r.policy.clone(), model[i].clone(), r.imp.clone()));
            report.violation(
                "model-mismatch",
                format!("model `{m}` vs implementation `{imp}` under writer policy {} ({} of {} comparisons differ)", policy.name(), mismatches.len(), model.len()),
                replay_json(&gc.case, &entry, Some(&policy), json!({"stage": "correspondence:writer-routing", "model": m, "implementation": imp})),
            );
        }
    }

    report.evaluations = stats.evaluations + stats.failure_points + stats.concurrent_renders;
    report.distinct_nontrivial = distinct.len() as u64;
    report.oracle_checks = stats.oracle_checks;
    report.oracle_failures = n_fail;
    for (k, v) in stats.hist {
        report.count_n(&k, v);
    }
    report.count_n("failure_points_enumerated", stats.failure_points);
    report.count_n("concurrent_renders", stats.concurrent_renders);
    report.count_n("generated.cases", n_cases as u64);
    let reached = report.histogram.iter().filter(|(k, _)| k.starts_with("entry.") && k.ends_with(".ok")).map(|(_, v)| *v).sum::<u64>();
    report.notes.push(format!("{} of {} entry renders succeed on the reference writer (the rest end in a rendering error or a rejected entry, which are checked too)", reached, stats.evaluations));
    report.notes.push("Send + Sync of Tera, Context, Value, Error: asserted at compile time in this binary".into());
    report.notes.push("concurrent trials are supporting evidence only: schedules and the memory model are not enumerated".into());
    report.rule = "a case = (template set, context, entry point: render / render_block / render_component / render_str); generated from an abstract output program (text, escaped and safe values, set blocks, filter sections, includes, blocks with and without override and super(), components with and without body, loops) plus a fixed corpus (all value kinds, maps built at render time, keys/values/pairs, 3-level inheritance, nested components, errors midway, large output); each case is rendered under every writer failure point (each write call, each byte offset, Ok(0), short writes, Interrupted), twice, and from 8 threads; distinct = distinct (entry kind, full output bytes, number of write calls) among successful non-empty renders".into();
    report.write(&out_path());
}
