//! C13 (phase 2) — float arithmetic of number.rs against the verified soft-float model.
//!
//! For every generated pair of operands (both f64, or one f64 and one integer of any encoding
//! that fits i128) and every operator of `+ - * / // %`:
//!  * the REAL engine's result of `{{ (a OP b) | probe }}` (value captured by a probe filter)
//!    vs the Lean model `drv_c13f`, whose float arithmetic is `Tera.SoftFloat` (no hardware
//!    floats on the model side)                                          — correspondence, bit for bit
//!  * the engine's result vs Rust's own `a + b`, `a - b`, `a * b`, `a / b`,
//!    `a.div_euclid(b)`, `a.rem_euclid(b)` on the operands converted with `as f64`
//!    (hardware; independent of the model)                               — the property itself
//!  * the soft-float operations themselves (driver request `raw`, no number.rs in front) vs the
//!    hardware, on the operand pairs the engine never passes to float arithmetic (zero divisors:
//!    x/0, 0/0, x % 0) and on a sample of all other pairs                — model vs hardware
use std::cell::RefCell;
use std::collections::{BTreeMap, HashSet};
use std::sync::atomic::{AtomicUsize, Ordering as AtOrd};
use std::sync::Mutex;
use tera::{Context, Kwargs, State, Tera, Value};
use tera_verif_harness::report::{out_path, replay_path, Report};
use tera_verif_harness::rng::Rng;
use tera_verif_harness::wire::{decode, encode, f64_bits_canon};
use tera_verif_harness::{catch, driver, quiet_panics, Env};

thread_local! {
    static PROBE: RefCell<Option<Value>> = const { RefCell::new(None) };
}

const OPS: [(&str, &str); 6] =
    [("add", "+"), ("sub", "-"), ("mul", "*"), ("div", "/"), ("floordiv", "//"), ("mod", "%")];

fn engine() -> Tera {
    let mut tera = Tera::default();
    tera.register_filter("probe", |v: Value, _: Kwargs, _: &State| {
        PROBE.with(|p| *p.borrow_mut() = Some(v.clone()));
        v
    });
    let tpls: Vec<(String, String)> =
        OPS.iter().map(|(n, s)| (n.to_string(), format!("{{{{ (a {s} b) | probe }}}}"))).collect();
    tera.add_raw_templates(tpls).expect("probe templates");
    tera
}

fn classify_err(msg: &str) -> &'static str {
    if msg.contains("out of range for integer arithmetic") {
        "operandrange"
    } else if msg.contains("divide by 0") {
        "divzero"
    } else if msg.contains("Unable to perform") || msg.contains("overflow") {
        "overflow"
    } else if msg.contains("Only numbers can be") {
        "notnumber"
    } else {
        "other"
    }
}

fn run_tpl(tera: &Tera, name: &str, a: &Value, b: &Value) -> String {
    let mut ctx = Context::new();
    ctx.insert_value("a", a.clone());
    ctx.insert_value("b", b.clone());
    PROBE.with(|p| *p.borrow_mut() = None);
    let res = catch(std::panic::AssertUnwindSafe(|| tera.render(name, &ctx)));
    match res {
        Err(p) => format!("panic {p}"),
        Ok(Ok(_)) => match PROBE.with(|p| p.borrow_mut().take()) {
            Some(v) => format!("ok {}", encode(&v)),
            None => "noprobe".into(),
        },
        Ok(Err(e)) => {
            let msg = match e.kind() {
                tera::ErrorKind::RenderingError(r) => r.message().to_string(),
                _ => e.to_string(),
            };
            format!("err {}", classify_err(&msg))
        }
    }
}

const RAW_OPS: [&str; 7] = ["add", "sub", "mul", "div", "fmod", "remeuclid", "diveuclid"];

/// hardware result of a raw IEEE operation (no engine, no zero-divisor check)
fn hardware_raw(op: &str, x: f64, y: f64) -> String {
    let r = match op {
        "add" => x + y,
        "sub" => x - y,
        "mul" => x * y,
        "div" => x / y,
        "fmod" => x % y,
        "remeuclid" => x.rem_euclid(y),
        "diveuclid" => x.div_euclid(y),
        _ => unreachable!(),
    };
    format!("f:{:016x}", f64_bits_canon(r))
}

// ---------------------------------------------------------------- operands

/// An operand: an f64 bit pattern, or an integer (fits i128) with the encoding to use.
#[derive(Clone, Copy, Debug, PartialEq, Eq, Hash)]
enum Opd {
    F(u64),
    /// value, encoding 0 = u64, 1 = i64, 2 = u128, 3 = i128 (falls back to i128 when it does not fit)
    I(i128, u8),
}

impl Opd {
    fn value(self) -> Value {
        match self {
            Opd::F(b) => Value::from(f64::from_bits(b)),
            Opd::I(i, enc) => match enc {
                0 if u64::try_from(i).is_ok() => Value::from(i as u64),
                1 if i64::try_from(i).is_ok() => Value::from(i as i64),
                2 if i >= 0 => Value::from(i as u128),
                _ => Value::from(i),
            },
        }
    }
    /// `Number::as_float`
    fn as_f64(self) -> f64 {
        match self {
            Opd::F(b) => f64::from_bits(b),
            Opd::I(i, _) => i as f64,
        }
    }
    fn is_float(self) -> bool {
        matches!(self, Opd::F(_))
    }
}

/// The direct oracle: what IEEE hardware arithmetic (Rust's own operators and std's
/// `div_euclid` / `rem_euclid`) gives on the operands converted with `as f64`.
fn hardware(op: &str, a: Opd, b: Opd) -> String {
    let x = a.as_f64();
    let y = b.as_f64();
    // `is_zero` of the right operand: a float zero of either sign, or the integer 0
    let b_zero = match b {
        Opd::F(_) => y == 0.0,
        Opd::I(i, _) => i == 0,
    };
    let r = match op {
        "add" => x + y,
        "sub" => x - y,
        "mul" => x * y,
        _ if b_zero => return "err divzero".into(),
        "div" => x / y,
        "floordiv" => x.div_euclid(y),
        "mod" => x.rem_euclid(y),
        _ => unreachable!(),
    };
    format!("ok f:{:016x}", f64_bits_canon(r))
}


/// (significand, exponent) of a finite float: value = m * 2^e
fn decompose(bits: u64) -> (u64, i32) {
    let ex = ((bits >> 52) & 0x7ff) as i32;
    let mant = bits & ((1u64 << 52) - 1);
    if ex == 0 { (mant, -1074) } else { (mant | (1u64 << 52), ex - 1075) }
}

/// How the exact magnitude `p * 2^e` relates to the binary64 grid: "exact", "tie" (exactly half
/// way between two neighbours) or "inexact". Measured with integer arithmetic, independent of the
/// model; only used for the distribution report.
fn grid_class(p: u128, e: i32) -> &'static str {
    if p == 0 {
        return "exact";
    }
    let bits = 128 - p.leading_zeros() as i32;
    // exponent of the last kept bit: 53 significant bits, but not below 2^-1074
    let lsb = (e + (bits - 53)).max(-1074);
    let shift = lsb - e;
    if shift <= 0 {
        return "exact";
    }
    if shift > 127 {
        return "inexact";
    }
    let low = p & ((1u128 << shift) - 1);
    if low == 0 {
        "exact"
    } else if low == 1u128 << (shift - 1) {
        "tie"
    } else {
        "inexact"
    }
}

/// rounding class of `a op b` for finite float operands (`None` when not classified)
fn rounding_class(op: &str, a: f64, b: f64) -> Option<&'static str> {
    if !a.is_finite() || !b.is_finite() {
        return None;
    }
    let (ma, ea) = decompose(a.to_bits());
    let (mb, eb) = decompose(b.to_bits());
    match op {
        "mul" => Some(grid_class(ma as u128 * mb as u128, ea + eb)),
        "add" | "sub" => {
            if ma == 0 || mb == 0 {
                return Some("exact");
            }
            if (ea - eb).abs() > 64 {
                return Some("far");
            }
            let e = ea.min(eb);
            let x = (ma as i128) << (ea - e);
            let y = (mb as i128) << (eb - e);
            let x = if a.is_sign_negative() { -x } else { x };
            let mut y = if b.is_sign_negative() { -y } else { y };
            if op == "sub" {
                y = -y;
            }
            Some(grid_class((x + y).unsigned_abs(), e))
        }
        _ => None,
    }
}

// ---------------------------------------------------------------- generators

const SIGN: u64 = 1 << 63;
const MAX_BITS: u64 = 0x7fef_ffff_ffff_ffff;
const INF_BITS: u64 = 0x7ff0_0000_0000_0000;

fn pow2(k: i32) -> f64 {
    // exact for -1074 ..= 1023
    if k >= -1022 { f64::from_bits(((k + 1023) as u64) << 52) } else { f64::from_bits(1u64 << (k + 1074)) }
}

/// finite float from a significand below 2^53 and an exponent, exact when in range
fn compose(m: u64, e: i32) -> f64 {
    // m * 2^e in two exact steps (both factors powers of two or small)
    let mut x = m as f64;
    let mut e = e;
    while e > 1000 {
        x *= pow2(1000);
        e -= 1000;
    }
    while e < -1000 {
        x *= pow2(-1000);
        e += 1000;
    }
    x * pow2(e)
}

fn float_lattice() -> Vec<u64> {
    let mut out: Vec<u64> = Vec::new();
    let mut push = |b: u64| {
        for s in [0, SIGN] {
            if !out.contains(&(b | s)) {
                out.push(b | s);
            }
        }
    };
    // zero, subnormal extremes, smallest normal, around 1, extremes, inf, NaN
    for b in [
        0u64,
        1,
        2,
        3,
        0x000f_ffff_ffff_ffff,
        0x000f_ffff_ffff_fffe,
        0x0008_0000_0000_0000,
        0x0010_0000_0000_0000,
        0x0010_0000_0000_0001,
        0x001f_ffff_ffff_ffff,
        0x0020_0000_0000_0000,
        MAX_BITS,
        MAX_BITS - 1,
        INF_BITS,
        0x7ff8_0000_0000_0000,
        0x7ff0_0000_0000_0001,
    ] {
        push(b);
    }
    for k in [-1022, -1021, -537, -53, -52, -2, -1, 0, 1, 2, 26, 27, 52, 53, 54, 62, 63, 64, 65, 126, 127, 128, 511, 512, 969, 970, 971, 1022, 1023] {
        let b = pow2(k).to_bits();
        push(b);
        push(b + 1);
        push(b - 1);
        push(b + 2);
    }
    for f in [0.1f64, 0.2, 0.3, 1.0 / 3.0, 3.0, 5.0, 7.0, 10.0, 0.5, 1.5, 2.5, 3.5, 1e300, 1e-300, 1e16, 9007199254740993.0, 4503599627370497.5, 2251799813685248.5] {
        push(f.to_bits());
    }
    out
}

fn int_lattice() -> Vec<i128> {
    let mut out = vec![0i128, 1, -1, 2, -2, 3, -3, 7, -7, 10, 255, i128::MAX, i128::MIN, i128::MAX - 1, i128::MIN + 1];
    for k in [31u32, 32, 52, 53, 54, 63, 64, 100, 126] {
        let p = 1i128 << k;
        for v in [p - 1, p, p + 1, p + 2, p + 3, -p, -p - 1, -p + 1] {
            out.push(v);
        }
    }
    out.push((1i128 << 126) + (1i128 << 73)); // halfway between two floats
    out.push((1i128 << 126) + (1i128 << 73) + 1);
    out.push(9007199254740993);
    out
}

fn rand_mant(rng: &mut Rng) -> u64 {
    rng.next_u64() & ((1u64 << 52) - 1)
}

/// random float with unbiased exponent `e` (-1022..=1023; below that a subnormal), random sign
fn rand_with_exp(e: i32, rng: &mut Rng) -> u64 {
    let s = if rng.chance(1, 2) { SIGN } else { 0 };
    if e < -1022 {
        let sh = (-1022 - e).min(52) as u32;
        return s | ((1u64 << 52 | rand_mant(rng)) >> sh);
    }
    let e = e.min(1023);
    s | (((e + 1023) as u64) << 52) | rand_mant(rng)
}

fn exp_of(bits: u64) -> i32 {
    let ex = ((bits >> 52) & 0x7ff) as i32;
    if ex == 0 {
        let m = bits & ((1u64 << 52) - 1);
        if m == 0 { -1075 } else { (63 - m.leading_zeros() as i32) - 1074 }
    } else {
        ex - 1023
    }
}

fn rand_int(rng: &mut Rng, lattice: &[i128]) -> Opd {
    let enc = rng.below(4) as u8;
    let v = match rng.below(5) {
        0 => rng.range(-20, 20) as i128,
        1 => *rng.pick(lattice),
        2 => (rng.next_u128() >> rng.below(128)) as i128,
        3 => -((rng.next_u128() >> (1 + rng.below(127))) as i128),
        _ => {
            // a few set bits: exactly representable or exact ties of `as f64`
            let hi = rng.below(127) as u32;
            let mut v = 1i128 << hi;
            for _ in 0..rng.below(3) {
                v |= 1i128 << rng.below(hi as usize + 1);
            }
            if hi >= 54 && rng.chance(1, 2) {
                v |= 1i128 << (hi - 53); // the half-ulp bit
            }
            if rng.chance(1, 2) { -v } else { v }
        }
    };
    Opd::I(v, enc)
}

const CLASSES: [&str; 12] = [
    "random-bits",
    "near-exponent",
    "cancellation",
    "add-tie",
    "mul-tie",
    "mul-underflow",
    "mul-overflow",
    "div-threshold",
    "subnormal-arith",
    "euclid",
    "lattice-random",
    "mixed-int",
];

/// one generated pair, by class
fn gen_pair(rng: &mut Rng, class: usize, flat: &[u64], ilat: &[i128]) -> (Opd, Opd) {
    match CLASSES[class] {
        "random-bits" => (Opd::F(rng.next_u64()), Opd::F(rng.next_u64())),
        "near-exponent" => {
            // exponents within the reach of each other's significand: rounding in + and -
            let e = rng.range(-1074, 1023) as i32;
            let d = rng.range(-56, 56) as i32;
            (Opd::F(rand_with_exp(e, rng)), Opd::F(rand_with_exp((e + d).clamp(-1074, 1023), rng)))
        }
        "cancellation" => {
            // b = -a +- a few ulps, or the same leading bits
            let a = rand_with_exp(rng.range(-1074, 1023) as i32, rng);
            let mut b = a ^ SIGN;
            match rng.below(3) {
                0 => b = b.wrapping_add(rng.below(5) as u64),
                1 => b = b.wrapping_sub(rng.below(5) as u64),
                _ => b ^= rng.next_u64() & ((1u64 << rng.below(40)) - 1),
            }
            if rng.chance(1, 4) {
                b ^= SIGN;
            }
            (Opd::F(a), Opd::F(b))
        }
        "add-tie" => {
            // a has ulp 2^(e+1) relative to b = 2^e (exactly half an ulp of a), or one ulp of b off it
            let ea = rng.range(-1020, 1023) as i32;
            let a = rand_with_exp(ea, rng);
            let half = ea - 53;
            let mut b = if half >= -1074 { pow2(half).to_bits() } else { 1 };
            match rng.below(4) {
                0 => b += 1,
                1 => b = b.saturating_sub(1),
                _ => {}
            }
            if rng.chance(1, 2) {
                b |= SIGN;
            }
            if rng.chance(1, 2) { (Opd::F(a), Opd::F(b)) } else { (Opd::F(b), Opd::F(a)) }
        }
        "mul-tie" => {
            // odd m1 * odd m2 with a 54-bit product: exactly half an ulp above a 53-bit value
            loop {
                let m1 = (rng.next_u64() >> 37) | 1 | (1 << 26);
                let m2 = (rng.next_u64() >> (36 + rng.below(2))) | 1;
                let p = m1 as u128 * m2 as u128;
                let bits = 128 - p.leading_zeros();
                if bits == 54 || rng.chance(1, 8) {
                    let e1 = rng.range(-500, 480) as i32;
                    let e2 = rng.range(-500, 480) as i32;
                    let s1 = if rng.chance(1, 2) { -1.0 } else { 1.0 };
                    return (Opd::F((s1 * compose(m1, e1)).to_bits()), Opd::F(compose(m2, e2).to_bits()));
                }
            }
        }
        "mul-underflow" => {
            // product (or quotient) lands around the subnormal threshold 2^-1022 .. 2^-1076
            let target = rng.range(-1080, -1018) as i32;
            let ea = rng.range(-1000, 900) as i32;
            let a = rand_with_exp(ea, rng);
            let b = rand_with_exp((target - ea).clamp(-1074, 1023), rng);
            let b = if rng.chance(1, 4) { pow2((target - ea).clamp(-1074, 1023)).to_bits() } else { b };
            (Opd::F(a), Opd::F(b))
        }
        "mul-overflow" => {
            let target = rng.range(1021, 1026) as i32;
            let ea = rng.range(-40, 1023) as i32;
            let a = if rng.chance(1, 3) { MAX_BITS - rng.below(3) as u64 } else { rand_with_exp(ea, rng) };
            let eb = (target - exp_of(a)).clamp(-1074, 1023);
            let b = if rng.chance(1, 4) { pow2(eb).to_bits() + rng.below(2) as u64 } else { rand_with_exp(eb, rng) };
            (Opd::F(a), Opd::F(b))
        }
        "div-threshold" => {
            // quotient around overflow or around the subnormal range (where quotient ties exist)
            let target = if rng.chance(1, 2) { rng.range(1021, 1026) } else { rng.range(-1080, -1018) } as i32;
            let eb = rng.range(-1000, 1000) as i32;
            let ea = (target + eb).clamp(-1074, 1023);
            let a = if rng.chance(1, 3) { compose(rng.below(64) as u64 * 2 + 1, ea.max(-1074)).to_bits() } else { rand_with_exp(ea, rng) };
            let b = if rng.chance(1, 3) { pow2(eb).to_bits() } else { rand_with_exp(eb, rng) };
            (Opd::F(a), Opd::F(b))
        }
        "subnormal-arith" => {
            let a = (rng.next_u64() >> (12 + rng.below(52))) | if rng.chance(1, 2) { SIGN } else { 0 };
            let b = match rng.below(4) {
                0 => (rng.next_u64() >> (12 + rng.below(52))) | if rng.chance(1, 2) { SIGN } else { 0 },
                1 => rand_with_exp(rng.range(-1074, -1000) as i32, rng),
                2 => rand_with_exp(rng.range(-4, 60) as i32, rng),
                _ => (rng.below(9) as f64 * 0.5).to_bits(),
            };
            if rng.chance(1, 2) { (Opd::F(a), Opd::F(b)) } else { (Opd::F(b), Opd::F(a)) }
        }
        "euclid" => {
            // operands for % and //: exact multiples, small divisors, moderate exponent gaps
            let eb = rng.range(-1074, 960) as i32;
            let b = match rng.below(4) {
                0 => compose(rng.range(1, 12) as u64, eb.clamp(-1070, 900)).to_bits(),
                _ => rand_with_exp(eb, rng) & !SIGN,
            };
            let bf = f64::from_bits(b);
            let a = match rng.below(4) {
                0 => (bf * rng.range(-40, 40) as f64).to_bits(), // exact multiple: remainder +-0
                1 => rand_with_exp((eb + rng.range(0, 62) as i32).min(1023), rng),
                2 => rand_with_exp((eb + rng.range(-3, 1100) as i32).min(1023), rng),
                _ => (bf * (rng.range(-4000, 4000) as f64 / 8.0)).to_bits(),
            };
            let b = if rng.chance(1, 2) { b | SIGN } else { b };
            (Opd::F(a), Opd::F(b))
        }
        "lattice-random" => {
            let a = *rng.pick(flat);
            let b = if rng.chance(1, 2) { rng.next_u64() } else { rand_with_exp((exp_of(a) + rng.range(-54, 54) as i32).clamp(-1074, 1023), rng) };
            if rng.chance(1, 2) { (Opd::F(a), Opd::F(b)) } else { (Opd::F(b), Opd::F(a)) }
        }
        _ => {
            // one float, one integer (any encoding that holds it)
            let i = rand_int(rng, ilat);
            let iv = match i {
                Opd::I(v, _) => v,
                _ => 0,
            };
            let f = match rng.below(5) {
                0 => rng.next_u64(),
                1 => *rng.pick(flat),
                2 => {
                    // same magnitude as the integer: cancellation and rounding against `as f64`
                    let g = (iv as f64).to_bits();
                    let g = match rng.below(3) {
                        0 => g.wrapping_add(rng.below(4) as u64),
                        1 => g.wrapping_sub(rng.below(4) as u64),
                        _ => g,
                    };
                    if rng.chance(1, 2) { g ^ SIGN } else { g }
                }
                3 => rand_with_exp((exp_of((iv as f64).to_bits()).max(-60) + rng.range(-56, 56) as i32).clamp(-1074, 1023), rng),
                _ => (rng.range(-64, 64) as f64 / 4.0).to_bits(),
            };
            if rng.chance(1, 2) { (Opd::F(f), i) } else { (i, Opd::F(f)) }
        }
    }
}

// ---------------------------------------------------------------- evaluation of a unit of work

struct Case {
    op: &'static str,
    a: Opd,
    b: Opd,
    req: String,
    imp: String,
}

fn request(op: &str, a: &Value, b: &Value) -> String {
    format!("arith {op} {} {}", encode(a), encode(b))
}

fn eval_case(tera: &Tera, op: &'static str, a: Opd, b: Opd) -> Case {
    let (va, vb) = (a.value(), b.value());
    Case { op, a, b, req: request(op, &va, &vb), imp: run_tpl(tera, op, &va, &vb) }
}

fn result_class(imp: &str) -> &'static str {
    if let Some(h) = imp.strip_prefix("ok f:") {
        let bits = u64::from_str_radix(h, 16).unwrap_or(0);
        let mag = bits & !SIGN;
        if mag > INF_BITS {
            "nan"
        } else if mag == INF_BITS {
            "inf"
        } else if mag == 0 {
            if bits == 0 { "zero+" } else { "zero-" }
        } else if mag < (1u64 << 52) {
            "subnormal"
        } else {
            "normal"
        }
    } else if imp.starts_with("ok") {
        "non-float"
    } else if imp.starts_with("err") {
        "error"
    } else {
        "panic"
    }
}

#[derive(Default)]
struct UnitOut {
    hist: BTreeMap<String, u64>,
    evaluations: u64,
    model_comparisons: u64,
    model_disagreements: u64,
    oracle_checks: u64,
    oracle_failures: u64,
    distinct: HashSet<u64>,
    /// (case description, model answer) of the first few disagreements / oracle failures
    mismatches: Vec<(Opd, Opd, &'static str, String, String)>,
    oracle_fails: Vec<(Opd, Opd, &'static str, String, String)>,
    /// soft-float operation vs hardware (no engine): (op, a bits, b bits, model, hardware)
    raw_mismatches: Vec<(&'static str, u64, u64, String, String)>,
    samples: Vec<serde_json::Value>,
    driver_error: Option<String>,
}

fn hash_case(op: &str, a: Opd, b: Opd) -> u64 {
    use std::hash::{Hash, Hasher};
    let mut h = std::collections::hash_map::DefaultHasher::new();
    (op, a, b).hash(&mut h);
    h.finish()
}

/// Evaluate the pairs under all six operators on the engine, the hardware oracle and the model.
fn run_unit(tera: &Tera, exe: &std::path::Path, pairs: &[(Opd, Opd, usize)], lattice_unit: bool) -> UnitOut {
    let mut out = UnitOut::default();
    let mut cases: Vec<Case> = Vec::with_capacity(pairs.len() * OPS.len());
    for &(a, b, class) in pairs {
        let cname = if lattice_unit { "lattice-product" } else { CLASSES[class] };
        *out.hist.entry(format!("gen.{cname}")).or_insert(0) += 1;
        for (op, _) in OPS.iter() {
            cases.push(eval_case(tera, op, a, b));
        }
    }
    let mut reqs: Vec<String> = cases.iter().map(|c| c.req.clone()).collect();
    // raw soft-float operations vs hardware: every pair with a zero divisor (never reaches the
    // engine's float arithmetic), every lattice pair, and every 4th generated pair
    let mut raw: Vec<(&'static str, f64, f64)> = Vec::new();
    for (k, &(a, b, _)) in pairs.iter().enumerate() {
        let (x, y) = (a.as_f64(), b.as_f64());
        if lattice_unit || y == 0.0 || k % 4 == 0 {
            for op in RAW_OPS {
                raw.push((op, x, y));
                reqs.push(format!("raw {op} f:{:016x} f:{:016x}", f64_bits_canon(x), f64_bits_canon(y)));
            }
        }
    }
    let model = match driver::run_batch(exe, &reqs) {
        Ok(m) => m,
        Err(e) => {
            out.driver_error = Some(e);
            Vec::new()
        }
    };
    for (i, c) in cases.iter().enumerate() {
        out.evaluations += 1;
        let rc = result_class(&c.imp);
        *out.hist.entry(format!("op.{}.{}", c.op, rc)).or_insert(0) += 1;
        let mixed = !(c.a.is_float() && c.b.is_float());
        *out.hist.entry(if mixed { "operands.float-int".to_string() } else { "operands.float-float".to_string() }).or_insert(0) += 1;
        if c.imp.starts_with("ok f:") {
            // the float arithmetic under study was reached and produced a float
            out.distinct.insert(hash_case(c.op, c.a, c.b));
            // finite operands giving a non-finite / subnormal result: the rounding thresholds
            let fin = c.a.as_f64().is_finite() && c.b.as_f64().is_finite();
            if fin && rc == "inf" && !(matches!(c.op, "div" | "floordiv")) {
                *out.hist.entry("threshold.overflow-from-finite".into()).or_insert(0) += 1;
            }
            if fin && rc == "subnormal" && matches!(c.op, "mul" | "div") {
                *out.hist.entry("threshold.underflow-mul-div".into()).or_insert(0) += 1;
            }
        }
        if let Some(rc) = rounding_class(c.op, c.a.as_f64(), c.b.as_f64()) {
            *out.hist.entry(format!("rounding.{}.{rc}", c.op)).or_insert(0) += 1;
        }
        // direct oracle: hardware arithmetic
        out.oracle_checks += 1;
        let want = hardware(c.op, c.a, c.b);
        if want != c.imp {
            out.oracle_failures += 1;
            if out.oracle_fails.len() < 5 {
                out.oracle_fails.push((c.a, c.b, c.op, c.imp.clone(), want));
            }
        }
        if !model.is_empty() {
            out.model_comparisons += 1;
            if model[i] != c.imp {
                out.model_disagreements += 1;
                if out.mismatches.len() < 5 {
                    out.mismatches.push((c.a, c.b, c.op, c.imp.clone(), model[i].clone()));
                }
            }
        }
        if out.samples.len() < 2 && i % 1009 == 17 {
            out.samples.push(serde_json::json!({"request": c.req, "implementation": c.imp, "hardware": hardware(c.op, c.a, c.b), "model": model.get(i)}));
        }
    }
    if !model.is_empty() {
        for (j, &(op, x, y)) in raw.iter().enumerate() {
            let got = &model[cases.len() + j];
            let want = hardware_raw(op, x, y);
            out.model_comparisons += 1;
            *out.hist.entry(format!("raw.{op}{}", if y == 0.0 { ".zero-divisor" } else { "" })).or_insert(0) += 1;
            if *got != want {
                out.model_disagreements += 1;
                if out.raw_mismatches.len() < 5 {
                    out.raw_mismatches.push((op, x.to_bits(), y.to_bits(), got.clone(), want));
                }
            }
        }
    }
    out
}

/// neighbours of a case (a few ulps around each float operand) for the targeted burst
fn neighbours(a: Opd, b: Opd, rng: &mut Rng, n: usize) -> Vec<(Opd, Opd, usize)> {
    let nudge = |o: Opd, rng: &mut Rng| match o {
        Opd::F(bits) => Opd::F(bits.wrapping_add(rng.range(-6, 6) as u64)),
        Opd::I(v, e) => Opd::I(v.saturating_add(rng.range(-3, 3) as i128), e),
    };
    (0..n).map(|_| (nudge(a, rng), nudge(b, rng), 0)).collect()
}

fn opd_json(o: Opd) -> String {
    encode(&o.value())
}

fn parse_opd(s: &str) -> Opd {
    let v = decode(s).expect("operand");
    if v.is_f64() {
        // the wire keeps NaN canonical; every other pattern is exact
        let d = s.strip_prefix("f:").unwrap();
        return Opd::F(u64::from_str_radix(d, 16).unwrap());
    }
    let enc = if s.starts_with("u64:") { 0 } else if s.starts_with("i64:") { 1 } else if s.starts_with("u128:") { 2 } else { 3 };
    Opd::I(v.as_i128().expect("integer operand within i128"), enc)
}

fn main() {
    quiet_panics();
    let env = Env::from_env();
    let mut report = Report::new("C13");
    let tera = engine();
    let exe = driver::driver_path(&env.verif_dir, "drv_c13f");

    if let Some(path) = replay_path() {
        let text = std::fs::read_to_string(&path).expect("replay file");
        let j: serde_json::Value = serde_json::from_str(&text).expect("replay json");
        let j = if j.get("replay").is_some() { j["replay"].clone() } else { j };
        if let Some(op) = j["raw_op"].as_str() {
            let op = RAW_OPS.iter().copied().find(|n| *n == op).expect("raw op");
            let (a, b) = (j["a"].as_str().unwrap(), j["b"].as_str().unwrap());
            let bits = |s: &str| u64::from_str_radix(s.strip_prefix("f:").unwrap(), 16).unwrap();
            let req = format!("raw {op} {a} {b}");
            let model = driver::run_batch(&exe, std::slice::from_ref(&req)).map(|m| m[0].clone());
            println!("request: {req}\nhardware: {}\nsoft-float model: {:?}", hardware_raw(op, f64::from_bits(bits(a)), f64::from_bits(bits(b))), model);
            return;
        }
        let op = OPS.iter().map(|(n, _)| *n).find(|n| Some(*n) == j["op"].as_str()).expect("op");
        let a = parse_opd(j["a"].as_str().unwrap());
        let b = parse_opd(j["b"].as_str().unwrap());
        let c = eval_case(&tera, op, a, b);
        let model = driver::run_batch(&exe, std::slice::from_ref(&c.req)).map(|m| m[0].clone());
        println!(
            "request: {}\nimplementation: {}\nhardware (Rust's own operator on `as f64` operands): {}\nsoft-float model: {:?}",
            c.req,
            c.imp,
            hardware(op, a, b),
            model
        );
        return;
    }

    let mut rng = Rng::new(env.seed ^ 0x13f);
    let flat = float_lattice();
    let ilat = int_lattice();
    report.count_n("lattice.float_values", flat.len() as u64);
    report.count_n("lattice.integer_values", ilat.len() as u64);

    // units of work: independent of the number of threads, each with its own forked PRNG;
    // generated units are produced inside the worker (only the PRNG state is kept here)
    enum Unit {
        Lattice(Vec<(Opd, Opd, usize)>),
        Generated(Rng),
    }
    let mut units: Vec<Unit> = Vec::new();
    // (1) the full product of the float lattice, and the lattice against the integer lattice
    let mut lat_pairs: Vec<(Opd, Opd, usize)> = Vec::new();
    for &a in &flat {
        for &b in &flat {
            lat_pairs.push((Opd::F(a), Opd::F(b), 0));
        }
    }
    for (k, &i) in ilat.iter().enumerate() {
        for (l, &f) in flat.iter().enumerate() {
            // quick: a seeded third of the mixed product; thorough: all of it, both orders
            if env.quick() && (k + l) % 3 != (env.seed % 3) as usize {
                continue;
            }
            let enc = ((k + l) % 4) as u8;
            lat_pairs.push((Opd::I(i, enc), Opd::F(f), 0));
            lat_pairs.push((Opd::F(f), Opd::I(i, enc), 0));
        }
    }
    let n_lattice_pairs = lat_pairs.len();
    for ch in lat_pairs.chunks(8192) {
        units.push(Unit::Lattice(ch.to_vec()));
    }
    // (2) generated pairs by class
    let n_random = env.budget(400_000, 10_000_000);
    let unit_size = 8192;
    let n_units = n_random.div_ceil(unit_size);
    for _ in 0..n_units {
        units.push(Unit::Generated(rng.fork()));
    }
    let generate = |r: &Rng| -> Vec<(Opd, Opd, usize)> {
        let mut r = r.clone();
        let mut ps = Vec::with_capacity(unit_size);
        for _ in 0..unit_size {
            // weights: random bits, near exponents and mixed operands get a double share
            let class = match r.below(15) {
                0 | 1 => 0,
                2 | 3 => 1,
                14 => 11,
                k => k - 2,
            };
            let (a, b) = gen_pair(&mut r, class, &flat, &ilat);
            ps.push((a, b, class));
        }
        ps
    };
    report.count_n("pairs.lattice", n_lattice_pairs as u64);
    report.count_n("pairs.generated", (n_units * unit_size) as u64);

    let threads = std::thread::available_parallelism().map(|n| n.get()).unwrap_or(8).min(16);
    let next = AtomicUsize::new(0);
    let outs: Mutex<Vec<(usize, UnitOut)>> = Mutex::new(Vec::new());
    std::thread::scope(|s| {
        for _ in 0..threads {
            s.spawn(|| loop {
                let i = next.fetch_add(1, AtOrd::SeqCst);
                if i >= units.len() {
                    break;
                }
                let o = match &units[i] {
                    Unit::Lattice(ps) => run_unit(&tera, &exe, ps, true),
                    Unit::Generated(r) => run_unit(&tera, &exe, &generate(r), false),
                };
                outs.lock().unwrap().push((i, o));
            });
        }
    });
    let mut outs = outs.into_inner().unwrap();
    outs.sort_by_key(|(i, _)| *i);

    let mut distinct: HashSet<u64> = HashSet::new();
    let mut mismatches = Vec::new();
    let mut fails = Vec::new();
    let mut raw_mismatches = Vec::new();
    let mut driver_error: Option<String> = None;
    for (_, o) in outs {
        report.evaluations += o.evaluations;
        report.model_comparisons += o.model_comparisons;
        report.model_disagreements += o.model_disagreements;
        report.oracle_checks += o.oracle_checks;
        report.oracle_failures += o.oracle_failures;
        for (k, v) in o.hist {
            report.count_n(&k, v);
        }
        distinct.extend(o.distinct);
        mismatches.extend(o.mismatches);
        fails.extend(o.oracle_fails);
        raw_mismatches.extend(o.raw_mismatches);
        for s in o.samples {
            report.sample(s);
        }
        if driver_error.is_none() {
            driver_error = o.driver_error;
        }
    }
    report.distinct_nontrivial = distinct.len() as u64;
    if let Some(e) = driver_error {
        report.notes.push(format!("model driver unavailable: {e}"));
        report.violation("model-mismatch", format!("model driver could not be run: {e}"), serde_json::json!({"stage": "driver", "harness_bin": "c13f", "error": e}));
    }

    let replay_of = |a: Opd, b: Opd, op: &str, imp: &str, extra: serde_json::Value| {
        serde_json::json!({
            "harness_bin": "c13f", "op": op, "a": opd_json(a), "b": opd_json(b),
            "a_display": format!("{}", a.value()), "b_display": format!("{}", b.value()),
            "implementation": imp, "detail": extra,
            "rerun": "harness/target/release/c13f --replay <this file>",
        })
    };
    for (a, b, op, imp, want) in fails.iter().take(5) {
        report.violation(
            "property",
            format!("float `{op}`: engine `{imp}`, IEEE arithmetic on the converted operands gives `{want}`"),
            replay_of(*a, *b, op, imp, serde_json::json!({"hardware": want})),
        );
    }
    if fails.is_empty() && !mismatches.is_empty() {
        // only the model disagrees: targeted burst around the cases, looking for an oracle failure
        let mut burst: Vec<(Opd, Opd, usize)> = Vec::new();
        for (a, b, _, _, _) in mismatches.iter().take(5) {
            burst.extend(neighbours(*a, *b, &mut rng, 4000));
        }
        let o = run_unit(&tera, &exe, &burst, true);
        report.count_n("burst.cases", o.evaluations);
        report.oracle_checks += o.oracle_checks;
        report.oracle_failures += o.oracle_failures;
        if let Some((a, b, op, imp, want)) = o.oracle_fails.first() {
            report.violation(
                "property",
                format!("float `{op}`: engine `{imp}`, IEEE arithmetic on the converted operands gives `{want}`"),
                replay_of(*a, *b, op, imp, serde_json::json!({"hardware": want, "found_by": "burst"})),
            );
        } else {
            for (a, b, op, imp, model) in mismatches.iter().take(5) {
                report.violation(
                    "model-mismatch",
                    format!("soft-float model `{model}` vs implementation `{imp}` on `{op}` {} {}", opd_json(*a), opd_json(*b)),
                    replay_of(*a, *b, op, imp, serde_json::json!({"stage": "correspondence:softfloat", "model": model, "hardware": hardware(op, *a, *b)})),
                );
            }
        }
    }
    for (op, x, y, model, want) in raw_mismatches.iter().take(5) {
        report.violation(
            "model-mismatch",
            format!("soft-float `{op}` on f:{x:016x} f:{y:016x}: model `{model}`, hardware `{want}`"),
            serde_json::json!({"harness_bin": "c13f", "stage": "softfloat-vs-hardware", "raw_op": op, "a": format!("f:{x:016x}"), "b": format!("f:{y:016x}"), "model": model, "hardware": want}),
        );
    }
    report.rule = "pairs of operands (f64 bit patterns from the boundary lattice: zeros, subnormal extremes, MIN_POSITIVE, 2^k and neighbours around 2^52, 2^53, 2^63, 2^64, 2^127, 2^1023, MAX, infinities, NaN; constructed ties of + and *, products/quotients at the subnormal and overflow thresholds, cancellations, Euclidean operands with exact multiples; random bit patterns; random patterns with nearby exponents; one operand an integer of any encoding) under + - * / // %; a case is distinct by (operator, operands with encoding) and non-trivial when the engine produced a float (the float arithmetic was reached)".into();
    report.write(&out_path());
}
