//! C07 — rendering accepted templates never panics; all references checked at add time.
//!
//!  1. translation validation: the verified bytecode checker (`Model/WellFormed.lean`,
//!     `wellFormed_sound` in `Props/C07.lean`) is run by the Lean driver on the REAL listing of
//!     every chunk (main, blocks, components; before and after the optimisation pass) of every
//!     generated template — so the no-underflow / balanced-stacks guarantee attaches to what the
//!     real compiler emitted;
//!  2. the abstract machine is tied to the real VM: `take_final_stacks() == (0,0,0)` after every
//!     successful top-level render;
//!  3. direct oracle: every accepted template / block / component rendered under adversarial
//!     contexts (bytes, 128-bit integers, NaN / inf, undefined inside maps and arrays, non-string
//!     keys, deep nesting, long multi-byte strings at every operand position) in child processes
//!     under `catch_unwind` with a watchdog: never a panic, abort, overflow or hang; output valid
//!     UTF-8;
//!  4. reference completeness: statically (every name in a call instruction of any chunk is in
//!     the template's call tables) and dynamically (a valid set with one reference of each kind in
//!     each position renamed to an unknown name must be refused at registration);
//!  5. known findings F5a / F5b exercised once each in a child process.
use std::collections::{BTreeMap, HashSet};
use tera::verif_hooks as hooks;
use tera::{Context, Tera};
use tera_verif_harness::bcgen::*;
use tera_verif_harness::childrun::{child_main, run_batch, run_batches, Batch, Capped};
use tera_verif_harness::report::{out_path, replay_path, Report};
use tera_verif_harness::rng::Rng;
use tera_verif_harness::wire::decode;
use tera_verif_harness::{catch, driver, quiet_panics, Env};

const CHILD_FLAG: &str = "--child-render";

// ------------------------------------------------------------------------------ contexts

fn adversarial_leaves() -> Vec<String> {
    let mut v: Vec<String> = [
        "y:ff00fe", "y:", "u128:340282366920938463463374607431768211455",
        "i128:-170141183460469231731687303715884105728", "u64:18446744073709551615",
        "i64:-9223372036854775808", "f:7ff8000000000000", "f:7ff0000000000000", "f:fff0000000000000",
        "f:8000000000000000", "f:0000000000000001", "f:7fefffffffffffff", "s:", "s:f09f9880c3a9e2808b",
        "S:3c623e", "s:3c7363726970743e26", "U", "N", "B1", "B0", "A0", "M0", "A2 U N", "M1 s:62 U",
        "M2 i64:1 s:78 B1 s:79", "M1 s: i64:1", "i64:0", "i64:-1", "u64:2", "f:3ff8000000000000",
        "A3 i64:3 i64:1 i64:2", "A2 s:62 s:61", "M2 s:62 A1 U s:63 y:80",
    ]
    .iter()
    .map(|s| s.to_string())
    .collect();
    // a long multi-byte string and deep nesting
    let long: String = "c3a9f09f9880".repeat(60); // 120 characters: nested loops over it stay cheap
    v.push(format!("s:{long}"));
    let mut deep = "i64:1".to_string();
    for i in 0..64 {
        deep = if i % 2 == 0 { format!("A1 {deep}") } else { format!("M1 s:62 {deep}") };
    }
    v.push(deep);
    v
}

/// the rich shape of the generator's contexts with every scalar leaf replaced by `l`
fn rich_with_leaf(l: &str) -> String {
    format!("M2 s:62 M2 s:62 {l} s:63 M1 s:62 {l} s:63 A2 {l} M1 s:62 M2 s:62 {l} s:63 M1 s:62 {l}")
}

/// A context is three *specs* (kept short: the long leaves are not copied into every item):
/// `-` unbound, `L<i>` lattice value i, `A<k>` adversarial leaf k, `R<k>` the rich shape with
/// leaf k; anything else is a literal wire value.
fn adversarial_ctx(rng: &mut Rng, leaves: &[String]) -> [String; 3] {
    let mut out: [String; 3] = Default::default();
    for x in out.iter_mut() {
        *x = match rng.below(20) {
            0..=4 => format!("L{RICH}"),
            5 => format!("L{RICH_SAFE}"),
            6..=12 => format!("R{}", rng.below(leaves.len())),
            13..=16 => format!("A{}", rng.below(leaves.len())),
            17 => format!("L{}", rng.below(LATTICE.len())),
            _ => "-".to_string(),
        };
    }
    out
}

fn wire_of_spec(spec: &str, leaves: &[String]) -> String {
    let idx = |s: &str| s[1..].parse::<usize>().ok();
    match spec.as_bytes().first() {
        Some(b'L') if idx(spec).is_some_and(|i| i < LATTICE.len()) => LATTICE[idx(spec).unwrap()].to_string(),
        Some(b'A') if spec.len() > 1 && idx(spec).is_some_and(|i| i < leaves.len()) => leaves[idx(spec).unwrap()].clone(),
        Some(b'R') if idx(spec).is_some_and(|i| i < leaves.len()) => rich_with_leaf(&leaves[idx(spec).unwrap()]),
        _ => spec.to_string(),
    }
}

fn ctx_of_wires(w: &[String]) -> Context {
    thread_local! {
        static LEAVES: Vec<String> = adversarial_leaves();
    }
    let mut ctx = Context::new();
    for (i, name) in ROOTS.iter().enumerate() {
        let wire = LEAVES.with(|l| wire_of_spec(&w[i], l));
        if wire != "-" {
            if let Some(v) = decode(&wire) {
                ctx.insert_value(*name, v);
            }
        }
    }
    ctx
}

fn expand_specs(w: &[String], leaves: &[String]) -> Vec<String> {
    w.iter().map(|s| { let x = wire_of_spec(s, leaves); if x.len() > 400 { format!("{}… ({} characters, spec {s})", &x[..400], x.len()) } else { x } }).collect()
}

// ------------------------------------------------------------------------------ engine

fn build(templates: &[(String, String)]) -> Result<Tera, String> {
    let r = catch(std::panic::AssertUnwindSafe(|| {
        let mut t = Tera::default();
        t.add_raw_templates(templates.iter().map(|(n, s)| (n.as_str(), s.as_str()))).map(|_| t)
    }));
    match r {
        Ok(Ok(t)) => Ok(t),
        Ok(Err(e)) => Err(format!("{e}")),
        Err(p) => Err(format!("panic {p}")),
    }
}

fn mode_json(m: &Mode) -> serde_json::Value {
    match m {
        Mode::Render => serde_json::json!("render"),
        Mode::Block(b) => serde_json::json!({"block": b}),
        Mode::Component(c) => serde_json::json!({"component": c}),
    }
}

fn mode_of_json(m: &serde_json::Value) -> Mode {
    match m {
        serde_json::Value::String(_) => Mode::Render,
        m if m.get("block").is_some() => Mode::Block(m["block"].as_str().unwrap().into()),
        m => Mode::Component(m["component"].as_str().unwrap().into()),
    }
}

/// one render with every observation C07 is about:
/// ("ok"|"err"|"panic", detail, problem: Option<what breaks the property>)
fn observe(t: &Tera, name: &str, mode: &Mode, ctx: &Context) -> (&'static str, String, Option<String>) {
    let mut w = Capped::new(4 << 20);
    let _ = hooks::take_final_stacks();
    let r = catch(std::panic::AssertUnwindSafe(|| match mode {
        Mode::Render => t.render_to(name, ctx, &mut w),
        Mode::Block(b) => t.render_block_to(name, b, ctx, &mut w),
        Mode::Component(c) => t.render_component_to(c, ctx, Some("bd"), true, &mut w),
    }));
    match r {
        Err(p) => ("panic", p.clone(), Some(format!("panic: {p}"))),
        Ok(Err(e)) => {
            // an error value is fine; one that reports a missing reference is not (must be
            // reported at registration). `Display` of the error must itself not panic.
            let msg = catch(std::panic::AssertUnwindSafe(|| format!("{e}")));
            match msg {
                Err(p) => ("panic", p.clone(), Some(format!("panic while displaying the error: {p}"))),
                Ok(m) => {
                    let l = m.to_lowercase();
                    let missing = l.contains("has no block lineage")
                        || (l.contains("not found") && (l.contains("template") || l.contains("component") || l.contains("filter") || l.contains("function") || l.contains("test `")))
                        || l.contains("is not registered");
                    let first = m.lines().next().unwrap_or("").chars().take(120).collect::<String>();
                    ("err", first.clone(), if missing { Some(format!("a missing reference is reported at render time: {first}")) } else { None })
                }
            }
        }
        Ok(Ok(())) => {
            let mut problem = None;
            if std::str::from_utf8(&w.buf).is_err() {
                problem = Some("the rendered bytes are not valid UTF-8".to_string());
            }
            if !matches!(mode, Mode::Component(_)) {
                match hooks::take_final_stacks() {
                    Some((0, 0, 0)) => {}
                    Some(s) => problem = Some(format!("after a successful render the (value, loop, capture) stacks hold {s:?} entries")),
                    None => problem = Some("take_final_stacks() recorded nothing after a successful render".to_string()),
                }
            }
            ("ok", String::new(), problem)
        }
    }
}

// ------------------------------------------------------------------------------ child

fn child_render(infile: &str, outfile: &str) -> ! {
    quiet_panics();
    child_main(
        infile,
        outfile,
        4,
        |common| {
            let templates: Vec<(String, String)> = common["templates"]
                .as_array()
                .unwrap()
                .iter()
                .map(|p| (p[0].as_str().unwrap().to_string(), p[1].as_str().unwrap().to_string()))
                .collect();
            build(&templates)
        },
        |tera, item| {
            let tera = match tera {
                Ok(t) => t,
                Err(e) => return vec![format!("B {}", e.lines().next().unwrap_or(""))],
            };
            let name = item["name"].as_str().unwrap();
            let mut counts = [0u64; 3];
            let mut lines = Vec::new();
            for m in item["modes"].as_array().unwrap() {
                let mode = mode_of_json(m);
                for c in item["ctxs"].as_array().unwrap() {
                    let wires: Vec<String> = c.as_array().unwrap().iter().map(|x| x.as_str().unwrap().to_string()).collect();
                    let ctx = ctx_of_wires(&wires);
                    let (class, detail, problem) = observe(tera, name, &mode, &ctx);
                    counts[match class { "ok" => 0, "err" => 1, _ => 2 }] += 1;
                    if let Some(p) = problem {
                        if lines.len() < 3 {
                            lines.push(format!("V {}", serde_json::json!({"mode": m, "ctx": wires, "class": class, "detail": detail, "problem": p})));
                        }
                    }
                }
            }
            lines.insert(0, format!("S {} {} {}", counts[0], counts[1], counts[2]));
            lines
        },
    )
}

// ------------------------------------------------------------------------------ static reference check

fn split_tok(tok: &str) -> (&str, &str) {
    let head = tok.split_once('@').map(|x| x.0).unwrap_or(tok);
    head.split_once(':').unwrap_or((head, ""))
}

fn unhex(s: &str) -> String {
    String::from_utf8(tera_verif_harness::wire::unhex(s).unwrap_or_default()).unwrap_or_default()
}

/// every name used by a call instruction of any chunk of `name` is in its call tables
fn static_refs(tera: &Tera, name: &str) -> Option<String> {
    let tables = hooks::call_tables(tera, name)?;
    let table = |k: &str| -> HashSet<String> { tables.iter().find(|(kk, _)| kk == k).map(|(_, v)| v.iter().cloned().collect()).unwrap_or_default() };
    let (filters, tests, functions, includes, components) = (table("filter"), table("test"), table("function"), table("include"), table("component"));
    let chunks = hooks::stored_chunks_wire(tera, name)?;
    let own_blocks: HashSet<String> = chunks.iter().filter_map(|(n, _)| n.strip_prefix("block:").map(|s| s.to_string())).collect();
    for (cn, l) in &chunks {
        for tok in l {
            let (kind, arg) = split_tok(tok);
            let n = unhex(arg);
            let ok = match kind {
                "ApplyFilter" => filters.contains(&n),
                "RunTest" => tests.contains(&n),
                "CallFunction" => functions.contains(&n),
                "Include" => includes.contains(&n),
                "RenderInlineComponent" | "RenderBodyComponent" => components.contains(&n),
                "RenderBlock" => own_blocks.contains(&n),
                _ => true,
            };
            if !ok {
                return Some(format!("{kind}({n}) in chunk {cn} of {name} is not in the template's call table"));
            }
        }
    }
    None
}

// ------------------------------------------------------------------------------ reference matrix

struct RefCase {
    kind: &'static str,
    position: String,
    /// templates with the token `@REF@` where the reference name goes
    templates: Vec<(String, String)>,
    valid: &'static str,
}

fn reference_matrix() -> Vec<RefCase> {
    let mut out = Vec::new();
    // expression-shaped references
    let exprs: [(&str, &str, &str); 4] = [
        ("filter", "1 | @REF@", "upper"),
        ("test", "1 is @REF@", "defined"),
        ("function", "@REF@(end=2)", "range"),
        ("component-inline", "<@REF@ v={1}/>", "cmpx"),
    ];
    // statement-shaped references
    let stmts: [(&str, &str, &str); 2] = [
        ("component-body", "{% <@REF@ v={1}> %}x{% </@REF@> %}", "cmpx"),
        ("include", "{% include \"@REF@\" %}", "inc.html"),
    ];
    let helpers = || -> Vec<(String, String)> {
        vec![
            ("helpers.html".to_string(), "{% component cmpx(v=1) %}[{{ v }}{{ body }}]{% endcomponent cmpx %}".to_string()),
            ("inc.html".to_string(), "inc".to_string()),
            ("base.html".to_string(), "B{% block k %}b{% endblock k %}E".to_string()),
        ]
    };
    // statement positions: `{S}` is replaced by the statement holding the reference
    let stmt_positions: Vec<(&str, Vec<(&str, &str)>)> = vec![
        ("body", vec![("main.html", "{S}")]),
        ("if-branch", vec![("main.html", "{% if a %}{S}{% endif %}")]),
        ("else-branch", vec![("main.html", "{% if a %}x{% else %}{S}{% endif %}")]),
        ("elif-branch", vec![("main.html", "{% if a %}x{% elif b %}{S}{% endif %}")]),
        ("for-body", vec![("main.html", "{% for x in a %}{S}{% endfor %}")]),
        ("for-else", vec![("main.html", "{% for x in a %}x{% else %}{S}{% endfor %}")]),
        ("block", vec![("main.html", "{% block q %}{S}{% endblock %}")]),
        ("nested-block", vec![("main.html", "{% block q %}{% block r %}{S}{% endblock %}{% endblock %}")]),
        ("child-block", vec![("main.html", "{% extends \"base.html\" %}{% block k %}{S}{% endblock %}")]),
        ("child-block-with-super", vec![("main.html", "{% extends \"base.html\" %}{% block k %}{{ super() }}{S}{% endblock %}")]),
        ("parent-body", vec![("p2.html", "{S}{% block z %}{% endblock %}"), ("main.html", "{% extends \"p2.html\" %}{% block z %}c{% endblock %}")]),
        ("component-definition", vec![("main.html", "{% component own(v=1) %}{S}{% endcomponent own %}{{ <own/> }}")]),
        ("component-call-body", vec![("main.html", "{% <cmpx> %}{S}{% </cmpx> %}")]),
        ("filter-section", vec![("main.html", "{% filter upper %}{S}{% endfilter %}")]),
        ("set-block", vec![("main.html", "{% set v %}{S}{% endset %}{{ v }}")]),
        ("block-in-filter-section", vec![("main.html", "{% filter upper %}{% block q %}{S}{% endblock %}{% endfilter %}")]),
        ("included-template", vec![("inc2.html", "{S}"), ("main.html", "{% include \"inc2.html\" %}")]),
        ("for-in-set-block-in-component", vec![("main.html", "{% component own2() %}{% set v %}{% for x in [1] %}{S}{% endfor %}{% endset %}{{ v }}{% endcomponent own2 %}{{ <own2/> }}")]),
    ];
    // expression positions: `{E}` is replaced by the expression holding the reference
    let expr_positions: Vec<(&str, &str)> = vec![
        ("print", "{{ {E} }}"),
        ("if-condition", "{% if {E} %}x{% endif %}"),
        ("elif-condition", "{% if a %}x{% elif {E} %}y{% endif %}"),
        ("for-target", "{% for x in [{E}] %}x{% endfor %}"),
        ("set-value", "{% set v = {E} %}"),
        ("set-global-value", "{% set_global v = {E} %}"),
        ("filter-kwarg", "{{ 1 | default(value={E}) }}"),
        ("function-kwarg", "{{ range(end=2, start={E} or 1) }}"),
        ("test-kwarg", "{{ 2 is divisible_by(divisor={E} or 1) }}"),
        ("component-arg", "{{ <cmpx v={ {E} }/> }}"),
        ("component-body-call-arg", "{% <cmpx v={ {E} }> %}x{% </cmpx> %}"),
        ("filter-section-kwarg", "{% filter default(value={E}) %}x{% endfilter %}"),
        ("set-block-filter-kwarg", "{% set v | default(value={E}) %}x{% endset %}"),
        ("component-default", "{% component own3(v=1) %}{{ v }}{% endcomponent own3 %}{{ <own3 v={ {E} }/> }}"),
        ("comprehension-element", "{{ [{E} for y in [1]] }}"),
        ("comprehension-condition", "{{ [y for y in [1] if {E}] }}"),
        ("comprehension-target", "{{ [y for y in [{E}]] }}"),
        ("ternary-then", "{{ {E} if a else 1 }}"),
        ("ternary-else", "{{ 1 if a else {E} }}"),
        ("ternary-condition", "{{ 1 if {E} else 2 }}"),
        ("and-rhs", "{{ a and {E} }}"),
        ("or-rhs", "{{ a or {E} }}"),
        ("not-operand", "{{ not ({E}) }}"),
        ("map-value", "{{ {\"k\": {E} } }}"),
        ("map-spread", "{{ {...a, \"k\": {E} } }}"),
        ("array-item", "{{ [1, {E}] }}"),
        ("array-spread", "{{ [...[{E}], 1] }}"),
        ("subscript-index", "{{ a[{E}] }}"),
        ("slice-bound", "{{ a[1:{E}] }}"),
        ("binary-operand", "{{ 1 + ({E}) }}"),
        ("filter-chain-middle", "{{ {E} | default(value=1) | upper }}"),
    ];
    for (sp, files) in &stmt_positions {
        // statements directly
        for (kind, stmt, valid) in stmts.iter() {
            // an include of the template itself / cycles are avoided by the names used
            let mut t = helpers();
            for (n, body) in files {
                t.push((n.to_string(), body.replace("{S}", stmt)));
            }
            out.push(RefCase { kind, position: sp.to_string(), templates: t, valid });
        }
        // expressions inside each statement position, printed
        for (kind, expr, valid) in exprs.iter() {
            let mut t = helpers();
            for (n, body) in files {
                t.push((n.to_string(), body.replace("{S}", &format!("{{{{ {expr} }}}}"))));
            }
            out.push(RefCase { kind, position: format!("{sp}/print"), templates: t, valid });
        }
    }
    for (ep, tpl) in &expr_positions {
        for (kind, expr, valid) in exprs.iter() {
            let mut t = helpers();
            t.push(("main.html".to_string(), tpl.replace("{E}", expr)));
            out.push(RefCase { kind, position: ep.to_string(), templates: t, valid });
            // the same inside a block of a child template and inside a component definition
            if !tpl.contains("component own") {
                let mut t = helpers();
                t.push(("main.html".to_string(), format!("{{% extends \"base.html\" %}}{{% block k %}}{}{{% endblock %}}", tpl.replace("{E}", expr))));
                out.push(RefCase { kind, position: format!("child-block/{ep}"), templates: t, valid });
            }
            if !tpl.contains("component own") {
                let mut t = helpers();
                t.push(("main.html".to_string(), format!("{{% component own4() %}}{}{{% endcomponent own4 %}}{{{{ <own4/> }}}}", tpl.replace("{E}", expr))));
                out.push(RefCase { kind, position: format!("component-definition/{ep}"), templates: t, valid });
            }
        }
    }
    // filter-only positions: the chain of a set block, the name of a filter section
    for (pos, tpl) in [
        ("set-block-filter-chain", "{% set v | @REF@ %}x{% endset %}{{ v }}"),
        ("set-block-filter-chain-second", "{% set v | upper | @REF@ %}x{% endset %}{{ v }}"),
        ("filter-section-name", "{% filter @REF@ %}x{% endfilter %}"),
        ("set-block-filter-chain-in-component", "{% component own5() %}{% set v | @REF@ %}x{% endset %}{{ v }}{% endcomponent own5 %}{{ <own5/> }}"),
        ("filter-section-name-in-block", "{% block q %}{% filter @REF@ %}x{% endfilter %}{% endblock %}"),
    ] {
        let mut t = helpers();
        t.push(("main.html".to_string(), tpl.to_string()));
        out.push(RefCase { kind: "filter", position: pos.to_string(), templates: t, valid: "upper" });
    }
    // parent and block
    let mut t = helpers();
    t.push(("main.html".to_string(), "{% extends \"@REF@\" %}{% block k %}c{% endblock %}".to_string()));
    out.push(RefCase { kind: "parent", position: "extends".into(), templates: t, valid: "base.html" });
    let mut t = helpers();
    t.push(("mid.html".to_string(), "{% extends \"@REF@\" %}".to_string()));
    t.push(("main.html".to_string(), "{% extends \"mid.html\" %}{% block k %}c{% endblock %}".to_string()));
    out.push(RefCase { kind: "parent", position: "extends-of-parent".into(), templates: t, valid: "base.html" });
    let mut t = helpers();
    t.push(("main.html".to_string(), "{% extends \"base.html\" %}{% block @REF@ %}c{% endblock %}".to_string()));
    out.push(RefCase { kind: "block", position: "child-top-level-block".into(), templates: t, valid: "k" });
    let mut t = helpers();
    t.push(("mid.html".to_string(), "{% extends \"base.html\" %}".to_string()));
    t.push(("main.html".to_string(), "{% extends \"mid.html\" %}{% block @REF@ %}c{% endblock %}".to_string()));
    out.push(RefCase { kind: "block", position: "grandchild-top-level-block".into(), templates: t, valid: "k" });
    out
}

fn instantiate(rc: &RefCase, name: &str) -> Vec<(String, String)> {
    rc.templates.iter().map(|(n, s)| (n.clone(), s.replace("@REF@", name))).collect()
}

// ------------------------------------------------------------------------------ known findings, depth

fn f5a() -> Vec<(String, String)> {
    vec![
        ("P".to_string(), "{% block a %}{% block b %}x{% endblock %}{% endblock %}".to_string()),
        ("C".to_string(), "{% extends \"P\" %}{% block b %}{% block a %}{{ super() }}{% endblock %}{% endblock %}".to_string()),
    ]
}

fn f5b() -> Vec<(String, String)> {
    vec![
        ("B".to_string(), "{% block x %}{% include \"A\" %}{% endblock %}".to_string()),
        ("A".to_string(), "{% extends \"B\" %}{% block x %}{{ super() }}{% endblock %}".to_string()),
    ]
}

fn chain_sets() -> Vec<(&'static str, Vec<(String, String)>, String)> {
    let depth = 32;
    // extends chain: every level overrides the block and calls super()
    let mut ext = vec![("e0".to_string(), "[{% block k %}0{{ a.b.b }}{% endblock %}]".to_string())];
    for i in 1..=depth {
        ext.push((format!("e{i}"), format!("{{% extends \"e{}\" %}}{{% block k %}}{i}{{{{ super() }}}}{{% endblock %}}", i - 1)));
    }
    // include chain
    let mut inc = vec![(format!("i{depth}"), "leaf{{ a.b.b }}".to_string())];
    for i in (0..depth).rev() {
        inc.push((format!("i{i}"), format!("{i}{{% include \"i{}\" %}}", i + 1)));
    }
    // bounded component recursion inside includes
    let comp = vec![
        ("c.html".to_string(), "{% component rec(n) %}{% if n > 0 %}{{ n }}{{ <rec n={n - 1}/> }}{% endif %}{% endcomponent rec %}".to_string()),
        ("m.html".to_string(), "{{ <rec n={15}/> }}|{{ <rec n={40}/> }}".to_string()),
    ];
    vec![("extends-chain-32", ext, format!("e{depth}")), ("include-chain-32", inc, "i0".to_string()), ("component-recursion", comp, "m.html".to_string())]
}

fn set_item(name: &str, ctxs: &[[String; 3]]) -> serde_json::Value {
    serde_json::json!({"name": name, "modes": ["render"], "ctxs": ctxs.iter().map(|c| c.to_vec()).collect::<Vec<_>>()})
}

// ------------------------------------------------------------------------------ directed streams

const INT_EXTREMES: [&str; 30] = [
    "i128:170141183460469231731687303715884105727",
    "i128:-170141183460469231731687303715884105728",
    "i128:170141183460469231731687303715884105726",
    "i128:-170141183460469231731687303715884105727",
    "u128:340282366920938463463374607431768211455",
    "u128:170141183460469231731687303715884105728",
    "i64:9223372036854775807",
    "i64:-9223372036854775808",
    "u64:9223372036854775808",
    "u64:18446744073709551615",
    "i128:18446744073709551616",
    "i128:-18446744073709551616",
    "i128:-9223372036854775809",
    "u64:4294967296",
    "i64:2147483648",
    "i64:-2147483649",
    "i64:0",
    "i64:1",
    "i64:-1",
    "i64:2",
    "i64:-2",
    "i64:3",
    "i64:5",
    "i64:36",
    "f:7ff8000000000000",
    "f:7ff0000000000000",
    "f:43e0000000000000",
    "f:3fe0000000000000",
    "s:32",
    "N",
];

/// c = {"b": [1,2,3,4,5], "c": "héllo wörld", "d": {"x": 1, "y": 2}, "e": bytes}
const CONTAINER: &str = "M4 s:62 A5 i64:1 i64:2 i64:3 i64:4 i64:5 s:63 s:68c3a96c6c6f2077c3b6726c64 s:64 M2 s:78 i64:1 s:79 i64:2 s:65 y:68c3a96c6c6f";

const SPREAD_VALUES: [&str; 20] = [
    "M2 i64:1 s:78 B1 s:79",
    "M1 u64:7 s:78",
    "M1 i128:170141183460469231731687303715884105727 s:78",
    "M1 B0 N",
    "M0",
    "M2 s:6e616d65 s:78 s:76 i64:5",
    "M8 s:61 i64:1 s:62 i64:2 s:63 i64:3 s:64 i64:4 s:65 i64:5 s:66 i64:6 s:67 i64:7 s:76 i64:8",
    "M8 i64:1 i64:1 i64:2 i64:2 i64:3 i64:3 i64:4 i64:4 i64:5 i64:5 i64:6 i64:6 s:61 i64:7 s:76 i64:8",
    "M3 s:76 U s:6e616d65 N s:78 y:ff",
    "M1 s:626f6479 s:78",
    "M1 s:72657374 s:78",
    "M1 s: s:78",
    "M2 s:76 M1 i64:1 s:78 s:6e616d65 A2 U N",
    "A2 i64:1 i64:2",
    "A1 M1 i64:1 s:78",
    "N",
    "U",
    "s:78",
    "i64:1",
    "y:ff00",
];

struct Directed {
    group: &'static str,
    /// body of the template (variables a, b: the operands under test; c: the container)
    body: String,
    /// candidate values for a and b
    values: Vec<String>,
}

fn string_values() -> Vec<String> {
    let h = |t: &str| tera_verif_harness::wire::hex(t.as_bytes());
    let mut v: Vec<String> = [
        "", "é", "e\u{301}", "😀👨\u{200d}👩\u{200d}👧", " ", "\n\n", "a\r\nb\n", "<>&\"'/", "0x10", "-1", "١٢٣", "ǆ ǅ", "ß straße", "İi", "\u{0}x", "one two  three\tfour",
        "b", "ff", "1e3", "  pad  ", "ａｂ", "\u{feff}bom", "a,b,,c", "%7B", "\u{10ffff}",
    ]
    .iter()
    .map(|t| format!("s:{}", h(t)))
    .collect();
    v.push(format!("S:{}", h("<i>safe</i>")));
    v.push(format!("s:{}", h(&"é😀 ".repeat(700))));
    for w in ["y:ff00fe", "y:", "y:c3a9", "N", "U", "B1", "i64:1", "f:3ff8000000000000", "A2 s:61 s:c3a9", "M1 s:61 s:62", "A2 y:ff N"] {
        v.push(w.to_string());
    }
    v
}

/// arrays of 21..=200 elements (std's sort changes strategy above 20) mixing what an order has
/// to cope with: NaN of both signs, signed zeros, infinities, integers of every encoding,
/// strings, none, nested arrays and maps
fn sort_arrays(rng: &mut Rng, n_arrays: usize) -> Vec<String> {
    let floats = ["f:7ff8000000000000", "f:fff8000000000000", "f:0000000000000000", "f:8000000000000000", "f:7ff0000000000000", "f:fff0000000000000",
        "f:3ff0000000000000", "f:bff0000000000000", "f:4000000000000000", "f:3fe0000000000000", "f:43e0000000000000", "f:c3e0000000000000", "f:0000000000000001", "f:7fefffffffffffff"];
    let ints = ["i64:0", "i64:1", "i64:-1", "u64:1", "u64:0", "i128:1", "u128:1", "i64:9223372036854775807", "u64:9223372036854775808", "i128:-170141183460469231731687303715884105728",
        "u128:340282366920938463463374607431768211455", "i64:2", "u64:18446744073709551615", "i128:9223372036854775808"];
    let others = ["s:61", "s:62", "s:", "S:61", "s:c3a9", "N", "B1", "B0", "A2 i64:1 f:7ff8000000000000", "A0x", "M1 s:6b i64:1", "M1 s:6b f:7ff8000000000000", "y:61", "A1 i64:2"];
    let mut out = Vec::new();
    for k in 0..n_arrays {
        let n = *rng.pick(&[21usize, 22, 25, 33, 64, 100, 200]);
        let pool: Vec<&str> = match k % 5 {
            0 => floats.to_vec(),
            1 => floats.iter().chain(ints.iter()).copied().collect(),
            2 => floats.iter().chain(ints.iter()).chain(others.iter()).copied().filter(|x| *x != "A0x").collect(),
            3 => ints.to_vec(),
            _ => floats.iter().copied().chain(["N", "s:61"].iter().copied()).collect(),
        };
        let elems: Vec<String> = (0..n)
            .map(|_| {
                // NaN often, so that it sits between ordinary floats
                if k % 5 != 3 && rng.chance(1, 5) { (*rng.pick(&["f:7ff8000000000000", "f:fff8000000000000"])).to_string() } else { (*rng.pick(&pool)).to_string() }
            })
            .collect();
        out.push(format!("A{n} {}", elems.join(" ")));
        // the same as the attribute `k` of maps
        out.push(format!("A{n} {}", elems.iter().map(|e| format!("M2 s:6b {e} s:6c i64:1")).collect::<Vec<_>>().join(" ")));
        // and as the values of a map with many keys (key order, iteration)
        out.push(format!("M{n} {}", elems.iter().enumerate().map(|(i, e)| format!("i64:{} {e}", i as i64 - 10)).collect::<Vec<_>>().join(" ")));
    }
    out
}

fn directed_templates(rng: &mut Rng, quick: bool) -> Vec<Directed> {
    let mut out = Vec::new();
    let sorts: &[&str] = &[
        "{{ a | sort | length }}", "{{ a | sort }}", "{{ a | unique | length }}", "{{ a | sort(attribute=\"k\") | length }}", "{{ a | unique(attribute=\"k\") | length }}",
        "{{ a | group_by(attribute=\"k\") | length }}", "{{ a | reverse | sort | first }}{{ a | sort | last }}", "{% for x in a | sort %}{{ loop.index }}{% endfor %}",
        "{{ a | values | sort | length }}{{ a | keys | sort | length }}{{ a | pairs | length }}", "{% for k, v in a %}{{ k }}{% endfor %}{{ a | length }}",
        "{{ [a, a] | sort | length }}{{ a == a }}{{ a < a }}", "{{ a | sort(attribute=\"l\") | length }}{{ a | map_missing_ok | default(value=1) }}",
    ];
    let arrays = sort_arrays(rng, if quick { 12 } else { 120 });
    for t in sorts {
        if t.contains("map_missing_ok") {
            continue;
        }
        out.push(Directed { group: "sort", body: t.to_string(), values: arrays.clone() });
    }
    let ints: &[&str] = &[
        // slices: start / stop / step from the context
        "{{ c.b[1::a] }}", "{{ c.b[-2::a] }}", "{{ c.c[2::a] }}", "{{ c.b[a:] }}", "{{ c.b[:a] }}", "{{ c.b[a:b] }}", "{{ c.b[a:b:a] }}",
        "{{ c.b[::a] }}", "{{ c.c[a:b] }}", "{{ c.c[::a] }}", "{{ c.c[b::a] }}", "{{ c.b[b::a] }}", "{{ c.b[4:0:a] }}", "{{ c.b[a:b:b] }}",
        "{{ c.c[-1:a:b] }}", "{{ c.e[a:b] }}", "{{ (c.b | reverse)[a::b] }}", "{% for x in c.b[a:b:2] %}{{ x }}{% endfor %}",
        // indexing
        "{{ c.b[a] }}", "{{ c.c[a] }}", "{{ c.d[a] }}", "{{ c.b[a + b] }}", "{{ c.b?.x[a] }}", "{{ c.e[a] }}",
        "{{ c.b?[a] }}{{ c.x?[a] }}{{ c.x?[a]?[b] }}", "{{ c.b?[a:b] }}{{ c.x?[a:b:a] }}{{ c.c?[::a] }}", "{{ a <= b }}{{ a > b }}",
        // range
        "{{ range(end=a) | length }}", "{{ range(start=a, end=b) | length }}", "{{ range(start=0, end=5, step_by=a) }}",
        "{{ range(start=a, end=b, step_by=a) | length }}", "{{ range(start=b, end=a, step_by=-1) | length }}",
        "{% for i in range(start=a, end=b) %}{% if loop.index > 3 %}{% break %}{% endif %}{{ i }}{{ loop.index0 }}{% endfor %}",
        "{% for i in range(start=a, end=b, step_by=b) %}{% if loop.index > 2 %}{% break %}{% endif %}{{ i }}{% endfor %}",
        // integer kwargs of the built-in filters and tests
        "{{ c.c | truncate(length=a) }}", "{{ c.c | truncate(length=a, end=b) }}", "{{ c.b | nth(n=a) }}", "{{ c.c | indent(width=a) }}",
        "{{ a | round(precision=b) }}", "{{ 2.5 | round(precision=a) }}", "{{ a | round(method=\"ceil\", precision=b) }}", "{{ a | round(method=\"floor\") }}",
        "{{ \"ff\" | int(base=a) }}", "{{ a | int(base=b) }}", "{{ a | int }}", "{{ a | float }}", "{{ a | abs }}", "{{ a | str }}", "{{ a | pluralize }}",
        "{{ c.b | join(sep=a) }}", "{{ c.d | get(key=a) }}", "{{ a | default(value=b) }}", "{{ a | length }}", "{{ c.c | split(pat=a) }}",
        "{{ c.c | replace(from=a, to=b) }}", "{{ a is divisible_by(divisor=b) }}", "{{ a is odd }}{{ a is even }}", "{{ c.c | wordcount + a }}",
        "{{ c.b | first + a }}", "{{ [a, b, 1] | sort }}", "{{ [a, b, 1, a] | unique }}", "{{ [a, b] | first }}",
        "{{ [{\"k\": a}, {\"k\": b}] | sort(attribute=\"k\") }}", "{{ [{\"k\": a}, {\"k\": b}] | group_by(attribute=\"k\") }}", "{{ [{\"k\": a}, {\"k\": b}] | unique(attribute=\"k\") }}",
        // arithmetic and comparisons
        "{{ a + b }}", "{{ a - b }}", "{{ a * b }}", "{{ a / b }}", "{{ a // b }}", "{{ a % b }}", "{{ a ** b }}", "{{ -a }}", "{{ -(-a) - 1 }}",
        "{{ a < b }}{{ a >= b }}", "{{ a == b }}{{ a != b }}", "{{ a in c.b }}{{ a in c.d }}{{ a in c.c }}", "{{ a ~ b }}", "{{ a + 1 }}{{ a - 1 }}{{ a * 2 }}{{ a * -1 }}",
        "{{ 1 - a }}{{ 0 - a }}{{ 2 ** a }}{{ a ** 2 }}{{ 1 // a }}{{ 1 % a }}", "{{ (a if a > b else b) - b }}",
        // loops over and with these values
        "{% for x in a %}{{ x }}{% endfor %}", "{{ [x * a for x in c.b] }}", "{{ [x for x in c.b if x < a] }}", "{% for x in c.b %}{{ loop.index + a }}{{ loop.length - a }}{% endfor %}",
        // typed component arguments
        "{{ <dint n={a}/> }}{{ <dint n={b}/> }}", "{{ <dflt x={a}/> }}", "{{ <dstr s={a}/> }}",
    ];
    for t in ints {
        out.push(Directed { group: "int-operand", body: t.to_string(), values: INT_EXTREMES.iter().map(|x| x.to_string()).collect() });
    }
    let spreads: &[&str] = &[
        "{{ <dsp {...a}/> }}", "{{ <dsp {...a} v={1}/> }}", "{{ <dsp v={1} {...a} {...b}/> }}", "{% <dbody {...a}> %}x{% </dbody> %}",
        "{% <dbody v={1} {...a}> %}{{ <dsp {...b}/> }}{% </dbody> %}", "{{ <dcl {...a}/> }}", "{{ <dcl name=\"n\" {...a} age={3}/> }}",
        "{{ {...a} }}", "{{ {...a, \"k\": 1, ...b} }}", "{{ [...a] }}", "{{ [...a, ...b, 1] }}", "{{ {\"x\": {...a}, ...{\"y\": [...b]} } }}",
        "{% set m = {...a} %}{{ <dsp {...m}/> }}", "{{ <dsp {...a.v}/> }}", "{{ <dsp {...{\"v\": a} }/> }}", "{{ <dopen name=\"n\" {...a}/> }}",
        "{% for k, v in {...a, ...b} %}{{ k }}{{ v }}{% endfor %}", "{{ {...a} | keys }}{{ {...a} | values }}{{ {...a} | length }}",
        "{{ <dsp {...a} {...a} {...b}/> }}{{ <dtyped {...a}/> }}",
    ];
    for t in spreads {
        out.push(Directed { group: "spread", body: t.to_string(), values: SPREAD_VALUES.iter().map(|x| x.to_string()).collect() });
    }
    // every string-handling built-in and string-shaped operand, on awkward strings and non-strings
    let strings: &[&str] = &[
        "{{ a | upper }}{{ a | lower }}", "{{ a | title }}", "{{ a | capitalize }}", "{{ a | trim }}{{ a | trim_start }}{{ a | trim_end }}",
        "{{ a | trim(pat=b) }}", "{{ a | trim_start(pat=b) }}", "{{ a | trim_end(pat=b) }}", "{{ a | wordcount }}", "{{ a | truncate(length=1) }}{{ a | truncate(length=0, end=b) }}",
        "{{ a | truncate(length=3) }}{{ a | truncate(length=2, end=\"\") }}", "{{ a | indent(width=2, first=true, blank=true) }}", "{{ a | indent(width=0) }}{{ a | indent(first=b, blank=b) }}",
        "{{ a | split(pat=b) }}", "{{ a | split(pat=\"\") }}", "{{ a | replace(from=b, to=a) }}", "{{ a | replace(from=\"\", to=b) }}", "{{ a | escape_html }}{{ a | escape_xml }}",
        "{{ a | newlines_to_br }}", "{{ a | pluralize(singular=b, plural=a) }}", "{{ a | length }}{{ a | reverse }}", "{{ a | first }}{{ a | last }}{{ a | nth(n=1) }}",
        "{{ a[0] }}{{ a[-1] }}", "{{ a[::-1] }}{{ a[1:] }}{{ a[:-1] }}{{ a[::2] }}", "{{ a is starting_with(pat=b) }}{{ a is ending_with(pat=b) }}", "{{ a is containing(pat=b) }}{{ a in b }}",
        "{{ a ~ b }}{{ b ~ a ~ 1 }}", "{{ a | int }}{{ a | float }}", "{{ a | int(base=16) }}{{ a | int(base=2) }}{{ a | int(base=36) }}", "{{ a | str }}{{ a | str | length }}",
        "{{ a is string }}{{ a is number }}{{ a is integer }}{{ a is float }}{{ a is map }}{{ a is array }}{{ a is iterable }}{{ a is bool }}{{ a is none }}{{ a is defined }}{{ a is undefined }}",
        "{% for x in a %}{{ x }}{{ loop.index }}{{ loop.first }}{{ loop.last }}{{ loop.length }}{% endfor %}", "{% for k, v in a %}{{ k }}{{ v }}{% endfor %}", "{{ a | keys }}{{ a | values }}{{ a | pairs }}",
        "{{ [a, b] | join(sep=a) }}", "{{ [a, b, a] | sort }}{{ [a, b, a] | unique }}", "{{ a | default(value=b, boolean=true) }}{{ a | default(value=1, boolean=b) }}", "{{ throw(message=a) }}",
        "{{ a | safe }}{{ a | safe | upper }}{{ a | upper | safe }}", "{{ a | get(key=b, default=a) }}{{ {\"k\": a} | get(key=\"k\") }}", "{{ {\"k\": a, \"l\": b} }}{{ [a, [b, a]] }}",
        "{% filter upper %}{{ a }}{% endfilter %}{% filter trim(pat=b) %} {{ a }} {% endfilter %}", "{% set v | upper | truncate(length=2) %}{{ a }}{{ b }}{% endset %}{{ v }}", "{{ <dstr s={a}/> }}{{ <dsp name={a} v={b}/> }}",
        "{% <dbody v={a}> %}{{ b }}{% </dbody> %}", "{{ a == b }}{{ a != b }}{{ a < b }}", "{{ a and b }}{{ a or b }}{{ not a }}{{ a if b else 1 }}", "{{ c.e ~ a }}{{ c.e | str }}{{ [c.e, a] | join(sep=c.e) }}{% for x in c.e %}{{ x }}{% endfor %}",
        "{% for x in c.c %}{{ x }}{{ loop.last }}{% endfor %}{% for k, v in c.d %}{{ k }}{{ v }}{% endfor %}",
    ];
    for t in strings {
        out.push(Directed { group: "string-operand", body: t.to_string(), values: string_values() });
    }
    out
}

fn directed_helpers() -> (String, String) {
    (
        "dhelpers".to_string(),
        "{% component dsp(v=1, name=\"x\") %}[{{ v }}{{ name }}]{% endcomponent dsp %}\
         {% component dbody(v=1) %}<{{ v }}{{ body }}>{% endcomponent dbody %}\
         {% component dcl(name, age=1) %}({{ name }}{{ age }}){% endcomponent dcl %}\
         {% component dopen(name, ...rest) %}({{ name }}{{ rest | length }}{{ rest }}){% endcomponent dopen %}\
         {% component dtyped(v: integer = 1, name: string = \"s\") %}{{ v }}{{ name }}{% endcomponent dtyped %}\
         {% component dint(n: integer = 1) %}{{ n + 1 }}{{ n - 1 }}{% endcomponent dint %}\
         {% component dflt(x: float = 1.5) %}{{ x * 2 }}{% endcomponent dflt %}\
         {% component dstr(s: string = \"s\") %}{{ s | upper }}{% endcomponent dstr %}"
            .to_string(),
    )
}

/// `break` / `continue` that would leave a capture open: the engine must refuse these at add time;
/// one that is accepted must pass the checker and leave the stacks empty.
fn capture_break_templates() -> Vec<(String, bool)> {
    let mut out = Vec::new();
    let wraps: [&str; 6] = [
        "K",
        "{% if a %}K{% endif %}",
        "{% if a %}x{% else %}K{% endif %}",
        "{% if a %}x{% elif b %}K{% else %}y{% endif %}",
        "{% if a %}{% if b %}K{% endif %}{% endif %}",
        "{% if a %}x{% elif b %}y{% else %}{% if a %}K{% endif %}{% endif %}",
    ];
    let captures: [&str; 6] = [
        "{% filter upper %}pW q{% endfilter %}",
        "{% set v %}pW q{% endset %}{{ v }}",
        "{% <dbody> %}pW q{% </dbody> %}",
        "{% set v | upper %}pW q{% endset %}{{ v }}",
        "{% filter upper %}{% set v %}pW q{% endset %}{{ v }}{% endfilter %}",
        "{% if a %}{% filter lower %}pW q{% endfilter %}{% endif %}",
    ];
    let loops: [&str; 5] = [
        "{% for i in c.b %}[C]{% endfor %}|tail",
        "{% for k, v in c.d %}[C]{% endfor %}|tail",
        "{% for i in c.b %}[C]{% else %}e{% endfor %}|tail",
        "{% for i in c.b %}{% for j in c.b %}[C]{% endfor %}{{ i }}{% endfor %}|tail",
        "{% for i in c.b %}{% if i > 1 %}[C]{% endif %}{% endfor %}|tail",
    ];
    for l in loops {
        for c in captures {
            for w in wraps {
                for k in ["{% break %}", "{% continue %}"] {
                    out.push((l.replace("C", &c.replace("W", &w.replace("K", k))), false));
                }
            }
        }
    }
    // legal relatives (a loop inside the capture): must be accepted and be balanced
    for k in ["{% break %}", "{% continue %}"] {
        out.push((format!("{{% filter upper %}}{{% for i in c.b %}}{{% if a %}}{k}{{% endif %}}{{{{ i }}}}{{% endfor %}}{{% endfilter %}}|tail"), true));
        out.push((format!("{{% for j in c.b %}}{{% set v %}}{{% for i in c.b %}}{{% if a %}}{k}{{% endif %}}{{{{ i }}}}{{% endfor %}}{{% endset %}}{{{{ v }}}}{{% endfor %}}|tail"), true));
        out.push((format!("{{% for j in c.b %}}{{% <dbody> %}}{{% for i in c.b %}}{{% if b %}}{k}{{% endif %}}{{{{ i }}}}{{% endfor %}}{{% </dbody> %}}{{% if a %}}{k}{{% endif %}}{{% endfor %}}|tail"), true));
    }
    out
}

/// Histories: a provider and a user are registered, then the provider is registered again
/// WITHOUT the item the user refers to. (provider, user, provider-without, render, what)
fn history_sets() -> Vec<(&'static str, Vec<(&'static str, &'static str)>, Vec<(&'static str, &'static str)>, Vec<(&'static str, &'static str)>, &'static str)> {
    let lib = ("lib", "{% component hc(v=1) %}[{{ v }}{{ body }}]{% endcomponent hc %}");
    let lib_without = ("lib", "{% component other(v=1) %}x{% endcomponent other %}");
    vec![
        ("component/inline-call", vec![lib], vec![("page", "{{ <hc v={2}/> }}")], vec![lib_without], "page"),
        ("component/body-call", vec![lib], vec![("page", "{% <hc> %}x{% </hc> %}")], vec![lib_without], "page"),
        ("component/call-in-child-block", vec![lib, ("base", "{% block k %}b{% endblock %}")], vec![("page", "{% extends \"base\" %}{% block k %}{{ <hc/> }}{% endblock %}")], vec![lib_without], "page"),
        ("component/call-in-component-body", vec![lib], vec![("page", "{% component outer() %}{{ <hc v={3}/> }}{% endcomponent outer %}{{ <outer/> }}")], vec![lib_without], "page"),
        ("component/call-in-argument", vec![lib], vec![("page", "{{ 1 | default(value=<hc/>) }}{{ <hc v={ <hc/> }/> }}")], vec![lib_without], "page"),
        ("component/call-in-included", vec![lib], vec![("inc", "{{ <hc/> }}"), ("page", "{% include \"inc\" %}")], vec![lib_without], "page"),
        ("component/provider-emptied", vec![lib], vec![("page", "{{ <hc/> }}")], vec![("lib", "nothing here")], "page"),
        ("component/renamed", vec![lib], vec![("page", "{% for i in [1] %}{{ <hc v={i}/> }}{% endfor %}")], vec![("lib", "{% component hc2(v=1) %}[{{ v }}]{% endcomponent hc2 %}")], "page"),
        ("block/child-top-level", vec![("base", "B{% block k %}b{% endblock %}")], vec![("page", "{% extends \"base\" %}{% block k %}c{% endblock %}")], vec![("base", "B no block")], "page"),
        ("block/grandchild", vec![("base", "B{% block k %}b{% endblock %}"), ("mid", "{% extends \"base\" %}")], vec![("page", "{% extends \"mid\" %}{% block k %}c{{ super() }}{% endblock %}")], vec![("base", "B{% block other %}o{% endblock %}")], "page"),
    ]
}

// ------------------------------------------------------------------------------ replay

fn run_replay(path: &str) {
    let text = std::fs::read_to_string(path).expect("replay file");
    let j: serde_json::Value = serde_json::from_str(&text).expect("replay json");
    let j = if j.get("replay").is_some() { j["replay"].clone() } else { j };
    let templates: Vec<(String, String)> = j["templates"]
        .as_array()
        .map(|a| a.iter().map(|p| (p[0].as_str().unwrap().to_string(), p[1].as_str().unwrap().to_string())).collect())
        .unwrap_or_default();
    for (n, s) in &templates {
        println!("template {n}: {s}");
    }
    if let Some(then) = j.get("then").and_then(|t| t.as_array()) {
        // a history: `templates` first, then `then` on the same instance
        let then: Vec<(String, String)> = then.iter().map(|p| (p[0].as_str().unwrap().to_string(), p[1].as_str().unwrap().to_string())).collect();
        let r = catch(std::panic::AssertUnwindSafe(|| {
            let mut t = Tera::default();
            let first = t.add_raw_templates(templates.iter().map(|(n, s)| (n.as_str(), s.as_str()))).map_err(|e| e.to_string());
            let second = t.add_raw_templates(then.iter().map(|(n, s)| (n.as_str(), s.as_str()))).map_err(|e| e.to_string());
            let mut renders = Vec::new();
            if second.is_ok() {
                for name in t.get_template_names().map(|s| s.to_string()).collect::<Vec<_>>() {
                    let (class, detail, problem) = observe(&t, &name, &Mode::Render, &Context::new());
                    renders.push(format!("{name}: {class} {detail} {}", problem.unwrap_or_default()));
                }
            }
            (first, second, renders)
        }));
        for (n, s) in &then {
            println!("then template {n}: {s}");
        }
        println!("history: {r:?}");
        return;
    }
    if j.get("expect_registration_error").is_some() {
        println!("registration: {:?}", build(&templates).map(|_| "accepted").map_err(|e| e.lines().next().unwrap_or("").to_string()));
    }
    let Some(name) = j["render"].as_str() else { return };
    let mode = mode_of_json(&j["mode"]);
    let wires: Vec<String> = j["context"].as_array().map(|a| a.iter().map(|x| x.as_str().unwrap_or("-").to_string()).collect()).unwrap_or(vec!["-".into(), "-".into(), "-".into()]);
    println!("context a b c: {wires:?}");
    // in a child: the render may overflow the stack or never return
    let b = Batch { common: serde_json::json!({"templates": templates}), items: vec![serde_json::json!({"name": name, "modes": [mode_json(&mode)], "ctxs": [wires]})] };
    let r = run_batch(CHILD_FLAG, 1, &b, std::time::Duration::from_secs(60), 0);
    for (_, lines) in &r.results {
        for l in lines {
            println!("child: {l}");
        }
    }
    for (_, reason) in &r.culprits {
        println!("child did not return: {reason}");
    }
    if let Some(ch) = j.get("chunk_listing") {
        let exe = driver::driver_path(&Env::from_env().verif_dir, "drv_c07");
        println!("checker: {:?}", driver::run_batch(&exe, &[format!("wf {}", ch.as_str().unwrap_or(""))]));
    }
}

// ------------------------------------------------------------------------------ main

fn main() {
    quiet_panics();
    {
        let args: Vec<String> = std::env::args().collect();
        if let Some(i) = args.iter().position(|a| a == CHILD_FLAG) {
            child_render(&args[i + 1], &args[i + 2]);
        }
    }
    let env = Env::from_env();
    if let Some(p) = replay_path() {
        run_replay(&p);
        return;
    }
    let mut report = Report::new("C07");
    let mut rng = Rng::new(env.seed ^ 0x07);
    let threads = std::thread::available_parallelism().map(|n| n.get()).unwrap_or(8).min(16);
    let exe = driver::driver_path(&env.verif_dir, "drv_c07");
    let leaves = adversarial_leaves();

    // ---- generate and register
    let mut cases = generate_cases(&mut rng, env.budget(8, 40), env.budget(16_000, 80_000));
    let mut all_templates: Vec<(String, String)> = cases.iter().flat_map(|c| c.templates()).collect();
    hooks::optimize_record_start();
    let mut built = build(&all_templates);
    let mut records = hooks::optimize_record_take();
    if built.is_err() {
        report.notes.push(format!("bulk registration failed ({}); registering case by case", built.as_ref().err().map(|e| e.lines().next().unwrap_or("").to_string()).unwrap_or_default()));
        let mut kept = Vec::new();
        for c in cases {
            match build(&c.templates()) {
                Ok(_) => kept.push(c),
                Err(e) => {
                    report.count("case.rejected_at_registration");
                    if e.starts_with("panic") {
                        report.violation(
                            "property",
                            format!("registration panics: {}", e.chars().take(200).collect::<String>()),
                            serde_json::json!({"templates": c.templates(), "expect_registration_error": true, "detail": {"note": "a panic while adding templates (C06 territory, seen by the C07 generator)"}}),
                        );
                    }
                }
            }
        }
        cases = kept;
        all_templates = cases.iter().flat_map(|c| c.templates()).collect();
        hooks::optimize_record_start();
        built = build(&all_templates);
        records = hooks::optimize_record_take();
    }
    let tera = match built {
        Ok(t) => t,
        Err(e) => {
            report.violation("model-mismatch", format!("generated templates cannot be registered: {e}"), serde_json::json!({"detail": {"stage": "generator"}}));
            report.write(&out_path());
            return;
        }
    };
    for c in &cases {
        report.count(&format!("case.stream.{}", c.stream));
        report.count(&format!("case.place.{:?}", c.place));
    }
    report.count_n("templates.total", all_templates.len() as u64);

    // ---- 1. the verified checker on every real chunk (stored, and pre-pass as recorded)
    struct ChunkObs {
        case: usize,
        tpl: String,
        chunk: String,
        listing: Vec<String>,
    }
    let mut obs: Vec<ChunkObs> = Vec::new();
    let mut refs_fail: Vec<(usize, String)> = Vec::new();
    for c in &cases {
        for (n, _) in c.templates() {
            for (cn, l) in hooks::stored_chunks_wire(&tera, &n).unwrap_or_default() {
                for tok in &l {
                    report.count(&format!("instr.{}", split_tok(tok).0));
                }
                obs.push(ChunkObs { case: c.id, tpl: n.clone(), chunk: cn, listing: l });
            }
            report.oracle_checks += 1;
            if let Some(d) = static_refs(&tera, &n) {
                report.oracle_failures += 1;
                refs_fail.push((c.id, d));
            }
        }
    }
    let n_stored = obs.len();
    for (pre, _) in records {
        obs.push(ChunkObs { case: usize::MAX, tpl: String::new(), chunk: "pre-pass".into(), listing: pre });
    }
    report.count_n("chunks.stored", n_stored as u64);
    report.count_n("chunks.pre_pass", (obs.len() - n_stored) as u64);
    let reqs: Vec<String> = obs.iter().map(|o| format!("wf {}", o.listing.join(" "))).collect();
    let answers = match driver::run_batch_parallel(&exe, &reqs, threads) {
        Ok(a) => a,
        Err(e) => {
            report.violation("model-mismatch", format!("model driver could not be run: {e}"), serde_json::json!({"detail": {"stage": "driver", "error": e}}));
            Vec::new()
        }
    };
    let mut rejected: Vec<usize> = Vec::new();
    for (i, a) in answers.iter().enumerate() {
        report.model_comparisons += 1;
        report.count(&format!("checker.{}", a.split(' ').take(2).collect::<Vec<_>>().join("_")));
        if a != "ok" {
            report.model_disagreements += 1;
            rejected.push(i);
        }
    }
    // the checker must not be vacuous: it has to reject broken variants of real listings
    // (one instruction deleted) most of the time
    let mut broken_reqs = Vec::new();
    for o in obs.iter().take(n_stored).filter(|o| o.listing.len() >= 2).take(env.budget(3000, 30_000)) {
        let k = rng.below(o.listing.len());
        let mut l = o.listing.clone();
        l.remove(k);
        broken_reqs.push(format!("wf {}", l.join(" ")));
    }
    if let Ok(ans) = driver::run_batch_parallel(&exe, &broken_reqs, threads) {
        let rej = ans.iter().filter(|a| a.as_str() != "ok").count();
        report.count_n("checker.sensitivity.mutated_listings", ans.len() as u64);
        report.count_n("checker.sensitivity.rejected", rej as u64);
    }

    // ---- 3. adversarial renders in child processes
    let n_ctx = env.budget(6, 12);
    let per_batch = 250usize;
    let mut case_ctxs: Vec<Vec<[String; 3]>> = Vec::new();
    for _ in &cases {
        let mut v = vec![[format!("L{RICH}"), format!("L{RICH}"), format!("L{RICH}")], ["-".to_string(), "-".to_string(), "-".to_string()], [format!("L{RICH_SAFE}"), format!("L{RICH_SAFE}"), format!("L{RICH_SAFE}")]];
        for _ in 0..n_ctx {
            v.push(adversarial_ctx(&mut rng, &leaves));
        }
        case_ctxs.push(v);
    }
    let case_modes = |c: &Case| -> Vec<Mode> {
        let mut m = c.modes();
        if c.templates().iter().any(|(n, _)| n.contains("_c")) {
            m.push(Mode::Component(format!("hi{}", c.id)));
            m.push(Mode::Component(format!("hb{}", c.id)));
        }
        m
    };
    let batches: Vec<Batch> = cases
        .chunks(per_batch)
        .zip(case_ctxs.chunks(per_batch))
        .map(|(cs, xs)| Batch {
            common: serde_json::json!({"templates": cs.iter().flat_map(|c| c.templates()).collect::<Vec<_>>()}),
            items: cs
                .iter()
                .zip(xs)
                .map(|(c, x)| serde_json::json!({"name": c.name(), "modes": case_modes(c).iter().map(mode_json).collect::<Vec<_>>(), "ctxs": x.iter().map(|w| w.to_vec()).collect::<Vec<_>>()}))
                .collect(),
        })
        .collect();
    let results = run_batches(CHILD_FLAG, &batches, std::time::Duration::from_secs(900), threads);
    let case_by_id: BTreeMap<usize, &Case> = cases.iter().map(|c| (c.id, c)).collect();
    let mut problems: Vec<(usize, serde_json::Value)> = Vec::new();
    let mut culprits: Vec<(usize, String)> = Vec::new();
    let mut distinct: HashSet<usize> = HashSet::new();
    for (bi, r) in results.iter().enumerate() {
        let base = bi * per_batch;
        for (i, lines) in &r.results {
            let case = &cases[base + i];
            for l in lines {
                if let Some(st) = l.strip_prefix("S ") {
                    let v: Vec<u64> = st.split(' ').filter_map(|x| x.parse().ok()).collect();
                    if v.len() == 3 {
                        report.evaluations += v[0] + v[1] + v[2];
                        report.oracle_checks += v[0] + v[1] + v[2];
                        report.count_n(&format!("render.{}.ok", case.stream), v[0]);
                        report.count_n(&format!("render.{}.err", case.stream), v[1]);
                        report.count_n(&format!("render.{}.panic", case.stream), v[2]);
                        if v[0] > 0 {
                            // the whole template ran to its end at least once
                            distinct.insert(case.id);
                        }
                    }
                } else if let Some(v) = l.strip_prefix("V ") {
                    if let Ok(j) = serde_json::from_str::<serde_json::Value>(v) {
                        problems.push((case.id, j));
                    }
                } else if l.starts_with("B ") {
                    report.count("child.registration_failed");
                }
            }
        }
        for (i, reason) in &r.culprits {
            culprits.push((cases[base + i].id, reason.clone()));
        }
        if r.abandoned > 0 {
            report.count_n("render.items_abandoned", r.abandoned as u64);
        }
    }
    report.distinct_nontrivial = distinct.len() as u64;
    report.oracle_failures += (problems.len() + culprits.len()) as u64;
    let mut seen: HashSet<String> = HashSet::new();
    for (cid, j) in &problems {
        let case = case_by_id[cid];
        let key = j["problem"].as_str().unwrap_or("").chars().take(40).collect::<String>();
        if !seen.insert(key) || report.violations.len() >= 6 {
            continue;
        }
        // smallest set of segments that still shows it (evaluated in children)
        let mut best = case.clone();
        let still = |c: &Case| -> bool {
            let b = Batch { common: serde_json::json!({"templates": c.templates()}), items: vec![serde_json::json!({"name": c.name(), "modes": [j["mode"].clone()], "ctxs": [j["ctx"].clone()]})] };
            let r = run_batch(CHILD_FLAG, 700_000, &b, std::time::Duration::from_secs(30), 0);
            !r.culprits.is_empty() || r.results.iter().any(|(_, ls)| ls.iter().any(|l| l.starts_with("V ")))
        };
        let t0 = std::time::Instant::now();
        let mut progress = true;
        while progress && best.segs.len() > 1 && t0.elapsed().as_secs() < 8 {
            progress = false;
            for i in 0..best.segs.len() {
                let mut c = best.clone();
                c.segs.remove(i);
                if still(&c) {
                    best = c;
                    progress = true;
                    break;
                }
            }
        }
        report.violation(
            "property",
            format!("rendering `{}`: {}", best.templates().last().map(|t| t.1.clone()).unwrap_or_default(), j["problem"].as_str().unwrap_or("")),
            serde_json::json!({"templates": best.templates(), "render": best.name(), "mode": j["mode"], "context": j["ctx"],
                "context_expanded": j["ctx"].as_array().map(|a| expand_specs(&a.iter().map(|x| x.as_str().unwrap_or("-").to_string()).collect::<Vec<_>>(), &leaves)), "detail": j,
                "rerun": "harness/target/release/c07 --replay <this file>"}),
        );
    }
    for (cid, _first_reason) in culprits.iter().take(8) {
        let case = case_by_id[cid];
        let idx = cases.iter().position(|c| c.id == *cid).unwrap_or(0);
        // on its own and with a generous limit: a busy machine must not look like a hang
        let b = Batch {
            common: serde_json::json!({"templates": case.templates(), "limit_secs": 30}),
            items: vec![serde_json::json!({"name": case.name(), "modes": case_modes(case).iter().map(mode_json).collect::<Vec<_>>(), "ctxs": case_ctxs[idx].iter().map(|w| w.to_vec()).collect::<Vec<_>>()})],
        };
        let again = run_batch(CHILD_FLAG, 650_000 + cid, &b, std::time::Duration::from_secs(90), 0);
        if again.culprits.is_empty() {
            report.count("render.slow_item_finished_when_run_alone");
            report.oracle_failures -= 1;
            continue;
        }
        let reason = &again.culprits[0].1;
        report.violation(
            "property",
            format!("rendering `{}` does not return an answer: {reason} (limit 30 s / 3 GiB for the case on its own)", case.templates().last().map(|t| t.1.clone()).unwrap_or_default()),
            serde_json::json!({"templates": case.templates(), "render": case.name(), "mode": "render", "context": case_ctxs[idx][0].to_vec(),
                "contexts_tried": case_ctxs[idx].iter().map(|w| expand_specs(w, &leaves)).collect::<Vec<_>>(), "detail": {"reason": reason},
                "rerun": "harness/target/release/c07 --replay <this file>"}),
        );
    }
    for (cid, d) in refs_fail.iter().take(3) {
        let case = case_by_id[cid];
        report.violation(
            "property",
            format!("a reference is not collected for validation: {d}"),
            serde_json::json!({"templates": case.templates(), "detail": {"oracle": d}}),
        );
    }

    // ---- checker rejections: a property failure if the template misbehaved, else a model mismatch
    let have_property = report.violations.iter().any(|v| v.kind == "property");
    if !have_property {
        for i in rejected.iter().take(3) {
            let o = &obs[*i];
            let tpls = case_by_id.get(&o.case).map(|c| c.templates()).unwrap_or_default();
            report.violation(
                "model-mismatch",
                format!("the bytecode checker rejects a chunk the real compiler produced ({} {}): {}", o.tpl, o.chunk, answers[*i]),
                serde_json::json!({"templates": tpls, "chunk_listing": o.listing.join(" "), "detail": {"stage": "wellformed-checker", "answer": answers[*i], "chunk": o.chunk}}),
            );
        }
    }

    // ---- 3b. directed streams: 128-bit extremes at every integer operand, spreads of odd maps
    {
        let dirs = directed_templates(&mut rng, env.quick());
        let mut templates = vec![directed_helpers()];
        let mut items = Vec::new();
        let container = CONTAINER.to_string();
        for (k, d) in dirs.iter().enumerate() {
            // autoescaped and not, alternately
            let name = if k % 2 == 0 { format!("d{k}.html") } else { format!("d{k}") };
            templates.push((name.clone(), d.body.clone()));
            let mut ctxs: Vec<Vec<String>> = Vec::new();
            for a in &d.values {
                let n_b = if d.group == "sort" { 1 } else { env.budget(4, d.values.len()) };
                for j in 0..n_b {
                    let b: &str = if env.quick() || d.group == "sort" {
                        match j { 0 => "i64:1", 1 => &d.values[0], _ => &d.values[rng.below(d.values.len())] }
                    } else {
                        &d.values[j]
                    };
                    ctxs.push(vec![a.to_string(), b.to_string(), container.clone()]);
                }
            }
            report.count_n(&format!("directed.{}.contexts", d.group), ctxs.len() as u64);
            items.push(serde_json::json!({"name": name, "modes": ["render"], "ctxs": ctxs}));
        }
        report.count_n("directed.templates", dirs.len() as u64);
        match build(&templates) {
            Err(e) => {
                // find the culprit so that the stream is not silently lost
                let mut bad = Vec::new();
                for t in templates.iter().skip(1) {
                    if let Err(e1) = build(&[templates[0].clone(), t.clone()]) {
                        bad.push(format!("{}: {}", t.1, e1.lines().next().unwrap_or("")));
                    }
                }
                report.notes.push(format!("directed stream does not register ({}): {:?}", e.lines().next().unwrap_or(""), bad.iter().take(4).collect::<Vec<_>>()));
                report.violation("model-mismatch", "the directed templates of the C07 harness do not register".into(), serde_json::json!({"detail": {"stage": "generator:directed", "bad": bad}}));
            }
            Ok(t) => {
                for (name, _) in templates.iter().skip(1) {
                    for (_, l) in hooks::stored_chunks_wire(&t, name).unwrap_or_default() {
                        for tok in &l {
                            report.count(&format!("instr.{}", split_tok(tok).0));
                        }
                        if let Ok(a) = driver::run_batch(&exe, &[format!("wf {}", l.join(" "))]) {
                            report.model_comparisons += 1;
                            if a[0] != "ok" {
                                report.model_disagreements += 1;
                                report.violation("model-mismatch", format!("the bytecode checker rejects a chunk of the directed template {name}: {}", a[0]),
                                    serde_json::json!({"chunk_listing": l.join(" "), "detail": {"stage": "wellformed-checker", "answer": a[0]}}));
                            }
                        }
                    }
                }
                let per = 12usize;
                let batches: Vec<Batch> = items.chunks(per).map(|it| Batch { common: serde_json::json!({"templates": templates}), items: it.to_vec() }).collect();
                let results = run_batches(CHILD_FLAG, &batches, std::time::Duration::from_secs(600), threads);
                let mut seen_d: HashSet<String> = HashSet::new();
                for (bi, r) in results.iter().enumerate() {
                    for (i, lines) in &r.results {
                        let d = &dirs[bi * per + i];
                        for l in lines {
                            if let Some(st) = l.strip_prefix("S ") {
                                let v: Vec<u64> = st.split(' ').filter_map(|x| x.parse().ok()).collect();
                                if v.len() == 3 {
                                    report.evaluations += v[0] + v[1] + v[2];
                                    report.oracle_checks += v[0] + v[1] + v[2];
                                    report.count_n(&format!("render.directed-{}.ok", d.group), v[0]);
                                    report.count_n(&format!("render.directed-{}.err", d.group), v[1]);
                                    report.count_n(&format!("render.directed-{}.panic", d.group), v[2]);
                                }
                            } else if let Some(v) = l.strip_prefix("V ") {
                                if let Ok(j) = serde_json::from_str::<serde_json::Value>(v) {
                                    report.oracle_failures += 1;
                                    let key = format!("{}{}", d.body, j["problem"].as_str().unwrap_or("").chars().take(30).collect::<String>());
                                    if seen_d.insert(key) && report.violations.len() < 10 {
                                        report.violation(
                                            "property",
                                            format!("rendering `{}` ({}): {}", d.body, d.group, j["problem"].as_str().unwrap_or("")),
                                            serde_json::json!({"templates": [templates[0].clone(), (format!("d{}", bi * per + i), d.body.clone())], "render": format!("d{}", bi * per + i), "mode": "render", "context": j["ctx"], "detail": j,
                                                "rerun": "harness/target/release/c07 --replay <this file>"}),
                                        );
                                    }
                                }
                            }
                        }
                    }
                    for (i, reason) in &r.culprits {
                        let d = &dirs[bi * per + i];
                        // confirm on its own with a generous limit
                        let b = Batch { common: serde_json::json!({"templates": templates, "limit_secs": 30}), items: vec![batches[bi].items[*i].clone()] };
                        let again = run_batch(CHILD_FLAG, 640_000 + bi * per + i, &b, std::time::Duration::from_secs(120), 0);
                        if let Some((_, r2)) = again.culprits.first() {
                            report.oracle_failures += 1;
                            report.violation(
                                "property",
                                format!("rendering `{}` ({}) does not return an answer: {r2} (first seen: {reason})", d.body, d.group),
                                serde_json::json!({"templates": [templates[0].clone(), (format!("d{}", bi * per + i), d.body.clone())], "render": format!("d{}", bi * per + i), "mode": "render",
                                    "context": batches[bi].items[*i]["ctxs"][0], "contexts_tried": batches[bi].items[*i]["ctxs"], "detail": {"reason": r2}}),
                            );
                        } else {
                            report.count("render.slow_item_finished_when_run_alone");
                        }
                    }
                }
            }
        }
    }

    // ---- 3c. break / continue that would leave a capture open: refused at add time, or balanced
    {
        let helpers = directed_helpers();
        let tpls = capture_break_templates();
        let mut accepted: Vec<(String, String, bool)> = Vec::new();
        for (k, (src, legal)) in tpls.iter().enumerate() {
            report.evaluations += 1;
            let name = format!("cb{k}");
            match build(&[helpers.clone(), (name.clone(), src.clone())]) {
                Err(e) if e.starts_with("panic") => {
                    report.oracle_failures += 1;
                    report.violation("property", format!("registration panics on `{src}`: {}", e.chars().take(160).collect::<String>()),
                        serde_json::json!({"templates": [helpers.clone(), (name, src.clone())], "expect_registration_error": true}));
                }
                Err(_) => {
                    report.count("capture_break.refused_at_registration");
                    if *legal {
                        report.notes.push(format!("a legal break/continue template is refused: {src}"));
                    }
                }
                Ok(_) => {
                    report.count("capture_break.accepted");
                    accepted.push((name, src.clone(), *legal));
                }
            }
        }
        report.count_n("capture_break.templates", tpls.len() as u64);
        // accepted ones: the checker must accept every chunk and every render must leave the stacks empty
        let ctxs: Vec<Vec<String>> = ["B1", "B0"].iter().flat_map(|a| ["B1", "B0"].iter().map(move |b| vec![a.to_string(), b.to_string(), CONTAINER.to_string()])).collect();
        for (name, src, legal) in &accepted {
            let set = vec![helpers.clone(), (name.clone(), src.clone())];
            let Ok(t) = build(&set) else { continue };
            let mut checker_says = Vec::new();
            for (cn, l) in hooks::stored_chunks_wire(&t, name).unwrap_or_default() {
                if let Ok(a) = driver::run_batch(&exe, &[format!("wf {}", l.join(" "))]) {
                    report.model_comparisons += 1;
                    if a[0] != "ok" {
                        checker_says.push(format!("{cn}: {}", a[0]));
                    }
                }
            }
            let b = Batch { common: serde_json::json!({"templates": set}), items: vec![serde_json::json!({"name": name, "modes": ["render"], "ctxs": ctxs})] };
            let r = run_batch(CHILD_FLAG, 630_000, &b, std::time::Duration::from_secs(60), 0);
            let problem = r.culprits.first().map(|c| c.1.clone()).or_else(|| {
                r.results.iter().flat_map(|(_, ls)| ls.iter()).find_map(|l| l.strip_prefix("V ").and_then(|v| serde_json::from_str::<serde_json::Value>(v).ok()).map(|j| format!("{} (context a={} b={})", j["problem"].as_str().unwrap_or(""), j["ctx"][0], j["ctx"][1])))
            });
            report.oracle_checks += 1;
            if let Some(p) = problem {
                report.oracle_failures += 1;
                if report.violations.iter().filter(|v| v.summary.contains("leaves a capture")).count() < 3 {
                    report.violation(
                        "property",
                        format!("`{src}` is accepted although its break/continue leaves a capture open: {p}{}", if checker_says.is_empty() { String::new() } else { format!("; the bytecode checker rejects it ({})", checker_says.join(", ")) }),
                        serde_json::json!({"templates": set, "render": name, "mode": "render", "context": ["B1", "B1", CONTAINER], "detail": {"problem": p, "checker": checker_says},
                            "rerun": "harness/target/release/c07 --replay <this file>"}),
                    );
                }
            } else if !checker_says.is_empty() {
                report.model_disagreements += 1;
                report.violation(
                    "model-mismatch",
                    format!("the bytecode checker rejects the accepted template `{src}` ({}) but its renders are balanced", checker_says.join(", ")),
                    serde_json::json!({"templates": set, "detail": {"stage": "wellformed-checker", "checker": checker_says, "legal": legal}}),
                );
            }
        }
    }

    // ---- 3e. a rejected batch that names a template twice must leave nothing of itself behind
    {
        let bad_first: [(&str, &str); 4] = [
            ("unknown-filter", "{{ 1 | zz_missing }}"),
            ("unknown-test", "{% if 1 is zz_missing %}x{% endif %}"),
            ("unknown-function", "{{ zz_missing() }}"),
            ("unknown-component", "{{ <zz_missing/> }}"),
        ];
        let failures: [(&str, &str); 5] = [
            ("later-syntax-error", "{% if %}"),
            ("later-unknown-filter", "{{ 1 | zz_other }}"),
            ("later-unknown-include", "{% include \"zz_nowhere\" %}"),
            ("later-unknown-parent", "{% extends \"zz_nowhere\" %}"),
            ("none-but-first-is-bad", ""),
        ];
        for pre_existing in [false, true] {
            for (bk, bad) in bad_first {
                for (fk, failing) in failures {
                    for second_good in [true, false] {
                        report.evaluations += 1;
                        report.oracle_checks += 1;
                        let what = format!("duplicate-name batch: first `x` {bk}, second `x` {}, {fk}, {}", if second_good { "valid" } else { "also bad" }, if pre_existing { "`x` registered before" } else { "`x` new" });
                        let mut batch: Vec<(String, String)> = vec![("x".into(), bad.to_string()), ("x".into(), if second_good { "second".to_string() } else { bad.to_string() })];
                        if !failing.is_empty() {
                            batch.push(("y".into(), failing.to_string()));
                        } else if second_good {
                            // nothing makes this batch fail: the last `x` wins and is valid
                        }
                        let outcome = catch(std::panic::AssertUnwindSafe(|| {
                            let mut t = Tera::default();
                            if pre_existing {
                                t.add_raw_templates(vec![("x", "before"), ("z", "zed")]).map_err(|e| e.to_string())?;
                            } else {
                                t.add_raw_templates(vec![("z", "zed")]).map_err(|e| e.to_string())?;
                            }
                            let snapshot = |t: &Tera| -> Vec<String> {
                                let mut names: Vec<String> = t.get_template_names().map(|s| s.to_string()).collect();
                                names.sort();
                                names.into_iter().map(|n| { let (class, detail, problem) = observe(t, &n, &Mode::Render, &Context::new()); format!("{n}: {class} {detail}{}", problem.map(|p| format!(" !! {p}")).unwrap_or_default()) }).collect()
                            };
                            let before = snapshot(&t);
                            let r = t.add_raw_templates(batch.iter().map(|(n, s)| (n.as_str(), s.as_str())));
                            let after = snapshot(&t);
                            Ok::<_, String>((r.is_ok(), before, after))
                        }));
                        let replay = serde_json::json!({"templates": if pre_existing { vec![("x", "before"), ("z", "zed")] } else { vec![("z", "zed")] }, "then": batch, "detail": {"history": what}});
                        match outcome {
                            Err(p) => {
                                report.oracle_failures += 1;
                                report.violation("property", format!("{what}: panic {p}"), replay);
                            }
                            Ok(Err(e)) => report.notes.push(format!("{what}: setup failed: {e}")),
                            Ok(Ok((accepted, before, after))) => {
                                let bad_render = after.iter().find(|l| l.contains(": panic") || l.contains(" !! "));
                                if let Some(b) = bad_render {
                                    report.oracle_failures += 1;
                                    if report.violations.iter().filter(|v| v.summary.starts_with("duplicate-name")).count() < 3 {
                                        report.violation("property", format!("{what}: the batch is {} and afterwards rendering gives `{b}`", if accepted { "accepted" } else { "rejected" }), replay);
                                    }
                                } else if !accepted && before != after {
                                    // a rejected batch must not change what is registered (also C10)
                                    report.oracle_failures += 1;
                                    if report.violations.iter().filter(|v| v.summary.starts_with("duplicate-name")).count() < 3 {
                                        report.violation("property", format!("{what}: the batch is rejected but the registry changed: before {before:?}, after {after:?}"), replay);
                                    }
                                } else {
                                    report.count(if accepted { "history.duplicate_batch.accepted_and_sound" } else { "history.duplicate_batch.rejected_and_rolled_back" });
                                }
                            }
                        }
                    }
                }
            }
        }
    }

    // ---- 3d. histories: the provider of a referenced item is registered again without it
    for (what, providers, users, without, render) in history_sets() {
        report.evaluations += 1;
        report.oracle_checks += 1;
        let own = |v: &Vec<(&str, &str)>| -> Vec<(String, String)> { v.iter().map(|(n, s)| (n.to_string(), s.to_string())).collect() };
        let outcome = catch(std::panic::AssertUnwindSafe(|| {
            let mut t = Tera::default();
            let add = |t: &mut Tera, v: &Vec<(String, String)>| t.add_raw_templates(v.iter().map(|(n, s)| (n.as_str(), s.as_str())));
            // two orders: provider then user, and both at once
            if let Err(e) = add(&mut t, &own(&providers)) {
                return Err(format!("setup: provider refused: {e}"));
            }
            if let Err(e) = add(&mut t, &own(&users)) {
                return Err(format!("setup: user refused: {e}"));
            }
            // sanity: replacing the provider by itself is fine
            if let Err(e) = add(&mut t, &own(&providers)) {
                return Err(format!("setup: re-adding the same provider refused: {e}"));
            }
            match add(&mut t, &own(&without)) {
                Err(_) => Ok(None),
                Ok(()) => {
                    // accepted: what does rendering do now?
                    let mut seen = Vec::new();
                    for name in t.get_template_names().map(|s| s.to_string()).collect::<Vec<_>>() {
                        let (class, detail, problem) = observe(&t, &name, &Mode::Render, &Context::new());
                        seen.push(format!("{name}: {class} {detail} {}", problem.unwrap_or_default()));
                    }
                    Ok(Some(seen))
                }
            }
        }));
        let all: Vec<(String, String)> = own(&providers).into_iter().chain(own(&users)).collect();
        match outcome {
            Err(p) => {
                report.oracle_failures += 1;
                report.violation("property", format!("history {what}: panic while registering: {p}"), serde_json::json!({"templates": all, "then": own(&without), "detail": {"history": what}}));
            }
            Ok(Err(e)) => {
                report.count("history.setup_invalid");
                report.notes.push(format!("history {what}: {}", e.lines().next().unwrap_or("")));
            }
            Ok(Ok(None)) => report.count("history.dangling_reference_refused"),
            Ok(Ok(Some(seen))) => {
                report.oracle_failures += 1;
                report.violation(
                    "property",
                    format!("history {what}: after registering {:?} and {:?}, registering {:?} again without the referenced item is accepted; renders then: {}", providers, users, without, seen.join(" | ").chars().take(300).collect::<String>()),
                    serde_json::json!({"templates": all, "then": own(&without), "render": render, "mode": "render", "context": ["-", "-", "-"], "detail": {"history": what, "renders": seen},
                        "note": "replay registers `templates`, then `then`, in this order"}),
                );
            }
        }
    }

    // ---- 4. reference completeness, dynamically
    let matrix = reference_matrix();
    let rich = [format!("L{RICH}"), format!("L{RICH}"), format!("L{RICH}")];
    for rc in &matrix {
        report.evaluations += 1;
        report.count(&format!("refs.kind.{}", rc.kind));
        let valid = instantiate(rc, rc.valid);
        match build(&valid) {
            Err(e) => {
                report.count("refs.matrix_entry_invalid");
                if report.notes.len() < 8 {
                    report.notes.push(format!("reference matrix entry {}/{} does not register even with a valid name: {}", rc.kind, rc.position, e.lines().next().unwrap_or("")));
                }
                continue;
            }
            Ok(t) => {
                // the valid set must render (to text or to an error value) without naming a missing reference
                let (class, _, problem) = observe(&t, "main.html", &Mode::Render, &ctx_of_wires(&rich));
                report.count(&format!("refs.valid_render.{class}"));
                if let Some(p) = problem {
                    report.oracle_failures += 1;
                    report.violation("property", format!("valid reference set {}/{}: {p}", rc.kind, rc.position),
                        serde_json::json!({"templates": valid, "render": "main.html", "mode": "render", "context": rich.to_vec(), "detail": {"problem": p}}));
                }
            }
        }
        let missing_name = if rc.kind == "parent" || rc.kind == "include" { "zz_missing.html" } else { "zz_missing" };
        let broken = instantiate(rc, missing_name);
        report.oracle_checks += 1;
        match build(&broken) {
            Err(e) if e.starts_with("panic") => {
                report.oracle_failures += 1;
                report.violation("property", format!("registration panics on a missing {} ({}): {}", rc.kind, rc.position, e.chars().take(160).collect::<String>()),
                    serde_json::json!({"templates": broken, "expect_registration_error": true, "detail": {"kind": rc.kind, "position": rc.position}}));
            }
            Err(_) => report.count("refs.missing_name_refused_at_registration"),
            Ok(t) => {
                // accepted: what happens at render time?
                let mut worst: Option<String> = None;
                for w in [&rich, &["-".to_string(), "-".to_string(), "-".to_string()]] {
                    let (class, detail, problem) = observe(&t, "main.html", &Mode::Render, &ctx_of_wires(w));
                    if class == "panic" || problem.is_some() || detail.contains("zz_missing") {
                        worst = Some(format!("{class}: {detail} {}", problem.unwrap_or_default()));
                        break;
                    }
                }
                report.oracle_failures += 1;
                report.violation(
                    "property",
                    format!(
                        "an unknown {} name used in position `{}` is accepted at registration{}",
                        rc.kind,
                        rc.position,
                        worst.as_ref().map(|w| format!(" and surfaces at render time ({w})")).unwrap_or_else(|| " (no render reached it)".into())
                    ),
                    serde_json::json!({"templates": broken, "render": "main.html", "mode": "render", "context": rich.to_vec(), "expect_registration_error": true,
                        "detail": {"kind": rc.kind, "position": rc.position, "render": worst}}),
                );
            }
        }
    }
    report.count_n("refs.matrix_entries", matrix.len() as u64);

    // ---- 5. known findings and depth, each in its own child
    for (id, set, render) in [("F5a", f5a(), "C"), ("F5b", f5b(), "A")] {
        report.evaluations += 1;
        match build(&set) {
            Err(e) => report.notes.push(format!("{id}: the set is refused at registration now ({}); the finding no longer reproduces", e.lines().next().unwrap_or(""))),
            Ok(_) => {
                let b = Batch { common: serde_json::json!({"templates": set}), items: vec![set_item(render, &[["-".to_string(), "-".to_string(), "-".to_string()]])] };
                let r = run_batch(CHILD_FLAG, 600_000, &b, std::time::Duration::from_secs(60), 0);
                let bad = r.culprits.first().map(|c| c.1.clone()).or_else(|| {
                    r.results.iter().flat_map(|(_, ls)| ls.iter()).find_map(|l| l.strip_prefix("V ").map(|s| s.to_string()))
                });
                match bad {
                    Some(reason) => {
                        report.oracle_checks += 1;
                        report.oracle_failures += 1;
                        report.violation(
                            "property",
                            format!("{id}: rendering `{render}` of the accepted set does not return a value ({})", reason.chars().take(120).collect::<String>()),
                            serde_json::json!({"templates": set, "render": render, "mode": "render", "context": ["-", "-", "-"], "detail": {"reason": reason}}),
                        );
                        if let Some(v) = report.violations.last_mut() {
                            if v.summary.starts_with(id) {
                                v.known = Some(id.to_string());
                            }
                        }
                        report.count(&format!("known.{id}.reproduced"));
                    }
                    None => report.notes.push(format!("{id}: rendering returned normally; the finding no longer reproduces")),
                }
            }
        }
    }
    // component -> include -> the same component: the recursion limit has to hold across includes
    {
        let unbounded = vec![
            ("rc.html".to_string(), "{% component rec() %}r{% include \"ri.html\" %}{% endcomponent rec %}".to_string()),
            ("ri.html".to_string(), "{{ <rec/> }}".to_string()),
            ("rm.html".to_string(), "{{ <rec/> }}".to_string()),
        ];
        let bounded = |n: usize| vec![
            ("bc.html".to_string(), "{% component cnt(n) %}{{ n }}{% if n > 0 %}{% include \"bi.html\" %}{% endif %}{% endcomponent cnt %}".to_string()),
            ("bi.html".to_string(), "{{ <cnt n={n - 1}/> }}".to_string()),
            ("bm.html".to_string(), format!("{{{{ <cnt n={{{n}}}/> }}}}")),
        ];
        // (what, set, render, expected class)
        let mut probes: Vec<(String, Vec<(String, String)>, &str, &str)> = vec![("component-include recursion, unbounded".into(), unbounded, "rm.html", "err")];
        for n in [5usize, 15, 19] {
            probes.push((format!("component-include recursion, {} levels", n + 1), bounded(n), "bm.html", "ok"));
        }
        for n in [20usize, 21, 22, 24, 40] {
            probes.push((format!("component-include recursion, {} levels", n + 1), bounded(n), "bm.html", "err"));
        }
        for (what, set, render, expected) in probes {
            report.evaluations += 1;
            report.oracle_checks += 1;
            match build(&set) {
                Err(e) => {
                    report.notes.push(format!("{what}: the set is refused at registration ({})", e.lines().next().unwrap_or("")));
                    continue;
                }
                Ok(_) => {}
            }
            let b = Batch { common: serde_json::json!({"templates": set, "limit_secs": 30}), items: vec![set_item(render, &[["-".to_string(), "-".to_string(), "-".to_string()]])] };
            let r = run_batch(CHILD_FLAG, 605_000, &b, std::time::Duration::from_secs(90), 0);
            let crashed = r.culprits.first().map(|c| c.1.clone());
            let counts: Vec<u64> = r.results.iter().flat_map(|(_, ls)| ls.iter()).find_map(|l| l.strip_prefix("S ").map(|st| st.split(' ').filter_map(|x| x.parse().ok()).collect())).unwrap_or_default();
            let got = match (&crashed, counts.as_slice()) {
                (Some(c), _) => format!("no answer ({c})"),
                (None, [1, 0, 0]) => "ok".to_string(),
                (None, [0, 1, 0]) => "err".to_string(),
                (None, [0, 0, 1]) => "panic".to_string(),
                _ => "unknown".to_string(),
            };
            if got == expected {
                report.count(&format!("depth.component_include.{expected}_as_required"));
            } else {
                report.oracle_failures += 1;
                report.violation(
                    "property",
                    format!("{what}: rendering `{render}` gives {got}; the component recursion limit (20) requires {}", if expected == "err" { "an error value" } else { "text" }),
                    serde_json::json!({"templates": set, "render": render, "mode": "render", "context": ["-", "-", "-"], "detail": {"got": got, "expected": expected}}),
                );
            }
        }
    }
    for (what, set, render) in chain_sets() {
        report.evaluations += 1;
        report.oracle_checks += 1;
        let ctxs = vec![rich.clone(), ["-".to_string(), "-".to_string(), "-".to_string()], adversarial_ctx(&mut rng, &leaves)];
        let b = Batch { common: serde_json::json!({"templates": set}), items: vec![set_item(&render, &ctxs)] };
        let r = run_batch(CHILD_FLAG, 500_000, &b, std::time::Duration::from_secs(60), 0);
        let bad = r.culprits.first().map(|c| c.1.clone()).or_else(|| r.results.iter().flat_map(|(_, ls)| ls.iter()).find_map(|l| l.strip_prefix("V ").or(l.strip_prefix("B ")).map(|s| s.to_string())));
        match bad {
            Some(reason) => {
                report.oracle_failures += 1;
                report.violation("property", format!("{what}: rendering `{render}` fails to return a value: {}", reason.chars().take(160).collect::<String>()),
                    serde_json::json!({"templates": set, "render": render, "mode": "render", "context": rich.to_vec(), "detail": {"reason": reason}}));
            }
            None => report.count(&format!("depth.{what}.ok")),
        }
    }

    // ---- 6. values nested at render time
    {
        // moderate depth: always (must simply work)
        let moderate = vec![(
            "nest".to_string(),
            "{% set_global a = 1 %}{% set_global m = 1 %}{% for i in range(end=1500) %}{% set_global a = [a] %}{% set_global m = {\"k\": m} %}{% endfor %}{{ a | length }}{{ a == a }}{{ m == m }}{{ [a, a] | sort | length }}{{ a }}{{ m }}".to_string(),
        )];
        report.evaluations += 1;
        report.oracle_checks += 1;
        let b = Batch { common: serde_json::json!({"templates": moderate, "limit_secs": 30}), items: vec![set_item("nest", &[["-".to_string(), "-".to_string(), "-".to_string()]])] };
        let r = run_batch(CHILD_FLAG, 620_000, &b, std::time::Duration::from_secs(90), 0);
        let bad = r.culprits.first().map(|c| c.1.clone()).or_else(|| r.results.iter().flat_map(|(_, ls)| ls.iter()).find_map(|l| l.strip_prefix("V ").or(l.strip_prefix("B ")).map(|s| s.to_string())));
        match bad {
            Some(reason) => {
                report.oracle_failures += 1;
                report.violation("property", format!("a value nested 1500 deep at render time: {}", reason.chars().take(160).collect::<String>()),
                    serde_json::json!({"templates": moderate, "render": "nest", "mode": "render", "context": ["-", "-", "-"], "detail": {"reason": reason}}));
            }
            None => report.count("depth.runtime-nesting-1500.ok"),
        }
        // the depth range() allows (100000): only once the finding is recorded in known_findings.json
        let kf: serde_json::Value = std::fs::read_to_string(env.verif_dir.join("known_findings.json")).ok().and_then(|t| serde_json::from_str(&t).ok()).unwrap_or_default();
        let entry = kf["findings"].as_array().and_then(|a| a.iter().find(|f| f["property"] == "C07" && f["shape"] == "runtime-value-depth").cloned());
        match entry {
            None => report.notes.push("probe `runtime-value-depth` (a value nested 100000 deep by a render-time loop aborts the process when it is dropped) is not run: no C07 entry with that shape in known_findings.json yet".into()),
            Some(e) => {
                let deep = vec![("deep".to_string(), "{% set_global a = 1 %}{% for i in range(end=100000) %}{% set_global a = [a] %}{% endfor %}x".to_string())];
                report.evaluations += 1;
                report.oracle_checks += 1;
                let b = Batch { common: serde_json::json!({"templates": deep, "limit_secs": 30}), items: vec![set_item("deep", &[["-".to_string(), "-".to_string(), "-".to_string()]])] };
                let r = run_batch(CHILD_FLAG, 610_000, &b, std::time::Duration::from_secs(90), 0);
                let bad = r.culprits.first().map(|c| c.1.clone()).or_else(|| r.results.iter().flat_map(|(_, ls)| ls.iter()).find_map(|l| l.strip_prefix("V ").map(|s| s.to_string())));
                match bad {
                    Some(reason) => {
                        report.oracle_failures += 1;
                        report.violation("property", format!("a value nested 100000 deep by a render-time loop: the render does not return a value ({})", reason.chars().take(120).collect::<String>()),
                            serde_json::json!({"templates": deep, "render": "deep", "mode": "render", "context": ["-", "-", "-"], "detail": {"reason": reason}}));
                        if e["status"] == "known" {
                            if let (Some(v), Some(id)) = (report.violations.last_mut(), e["id"].as_str()) {
                                v.known = Some(id.to_string());
                            }
                        }
                    }
                    None => report.count("depth.runtime-nesting-100000.ok"),
                }
            }
        }
    }

    // ---- samples, rule
    for i in [0usize, n_stored / 2, n_stored.saturating_sub(1)] {
        if let Some(o) = obs.get(i) {
            report.sample(serde_json::json!({"template": case_by_id.get(&o.case).and_then(|c| c.templates().last().cloned()), "chunk": o.chunk, "listing": o.listing.join(" "), "checker": answers.get(i)}));
        }
    }
    if let Some(rc) = matrix.get(matrix.len() / 2) {
        report.sample(serde_json::json!({"reference_case": format!("{}/{}", rc.kind, rc.position), "templates": instantiate(rc, "zz_missing"), "registration": build(&instantiate(rc, "zz_missing")).err().map(|e| e.lines().next().unwrap_or("").to_string())}));
    }
    report.sample(serde_json::json!({"adversarial_context": adversarial_ctx(&mut rng, &leaves).iter().map(|w| w.chars().take(120).collect::<String>()).collect::<Vec<_>>()}));
    let total: u64 = report.histogram.iter().filter(|(k, _)| k.starts_with("render.")).map(|(_, v)| *v).sum();
    let ok: u64 = report.histogram.iter().filter(|(k, _)| k.starts_with("render.") && k.ends_with(".ok")).map(|(_, v)| *v).sum();
    report.notes.push(format!("{ok} of {total} adversarial renders ran to the end of the template (the others end in an error value)"));
    report.exhaustive = false;
    report.rule = format!(
        "evaluations = renders (every case in every mode: whole / block / component, under {} contexts: the rich one, the empty one and adversarial ones) + reference-matrix entries + known/depth sets. Non-trivial: a generated case at least one render of which ran to the end of the template (so every instruction on that path executed and the final stacks were inspected); distinct by case. Every chunk of every case (stored and pre-pass) goes through the verified checker.",
        n_ctx + 3
    );
    tera_verif_harness::childrun::cleanup();
    report.write(&out_path());
}
