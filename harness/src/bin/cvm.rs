//! cvm — the value-level Lean model of the stack VM (`lean/TeraModel/Model/Vm.lean`, driver
//! `drv_vm`) against the real VM (part of C07: "rendering accepted templates never panics").
//!
//! For every template set of the two existing generators (`bcgen`: jump-adjacent + general
//! streams in ten placements, used by c09 / c07; the program generator of `evalh.rs`, used by
//! c03 / c02e — copied into `cvm_support/evgen.rs`, its items are private) plus a few fixed sets
//! (inheritance chains, components, `__tera_context`), registered with autoescape forced ON and
//! forced OFF for every template:
//!  * the REAL stored (optimised) listings of every chunk, block lineages, parents, component
//!    tables, autoescape flags and registered built-in names are dumped through
//!    `verif_hooks::vm_env_wire`;
//!  * the model VM executes those listings (Lean driver) for `render` and `render_block` under the
//!    generators' contexts and under adversarial contexts (unexpected kinds at every operand
//!    position, 128-bit extremes, NaN / inf, invalid UTF-8 bytes, undefined inside maps, non-string
//!    keys) and must give the text of the real `render` / `render_block` exactly, or the same
//!    error class; cases that reach a built-in the model does not define are skipped and counted
//!    (`unmodelled.*` in the histogram);
//!  * direct oracle, independent of the model: the real render never panics, and leaves the
//!    three stacks empty (`take_final_stacks() == (0,0,0)`).
//! Every engine call runs in a child process with a watchdog; a case that does not come back is
//! re-run alone with a 150 s cap before anything is reported.
use std::collections::BTreeMap;
use std::time::{Duration, Instant};
use tera::verif_hooks as hooks;
use tera::{Context, Tera};
use tera_verif_harness::bcgen;
use tera_verif_harness::childrun::{child_main, cleanup, run_batch, run_batches, Batch};
use tera_verif_harness::report::{out_path, replay_path, Report};
use tera_verif_harness::rng::Rng;
use tera_verif_harness::wire::{decode, encode, hex, unhex};
use tera_verif_harness::{catch, driver, quiet_panics, Env};

#[path = "cvm_support/evgen.rs"]
mod evgen;

const CHILD_FLAG: &str = "--child-vm";
/// The property this run reports under, from the `--out` file name the check script chooses
/// (`C04.*` → C04, `C01.*` → C01, otherwise C07; same convention as cpipe).  cvm's correspondence
/// (model VM = real VM on the real listings) is a tie of all of them; each DIRECT oracle states a
/// clause of ONE property and is a property violation only when cvm runs for that property —
/// elsewhere the same observation is reported as a broken tie (model-mismatch), never as an alarm
/// on a property that holds.
fn property() -> &'static str {
    let out = out_path();
    let base = std::path::Path::new(&out).file_name().map(|s| s.to_string_lossy().to_string()).unwrap_or_default();
    if base.starts_with("C04.") {
        "C04"
    } else if base.starts_with("C01.") {
        "C01"
    } else {
        "C07"
    }
}

/// violation kind of a direct oracle that states a clause of property `of`
fn oracle_kind(of: &str) -> &'static str {
    if property() == of { "property" } else { "model-mismatch" }
}

// ------------------------------------------------------------------------------ cases

#[derive(Clone, Debug)]
struct Run {
    ctx: Vec<(String, String)>,
    global: Vec<(String, String)>,
    kind: &'static str,
}

#[derive(Clone, Debug)]
struct Set {
    stream: String,
    templates: Vec<(String, String)>,
    /// "on": every template autoescapes; "off": none does
    ae: &'static str,
    /// (template, block): `render` / `render_block`
    entries: Vec<(String, Option<String>)>,
    runs: Vec<Run>,
}

fn pairs_json(v: &[(String, String)]) -> serde_json::Value {
    serde_json::Value::Array(v.iter().map(|(a, b)| serde_json::json!([a, b])).collect())
}

fn pairs_of(j: &serde_json::Value) -> Vec<(String, String)> {
    j.as_array()
        .map(|a| a.iter().map(|p| (p[0].as_str().unwrap_or("").to_string(), p[1].as_str().unwrap_or("").to_string())).collect())
        .unwrap_or_default()
}

fn kind_static(k: &str) -> &'static str {
    match k {
        "generator" => "generator",
        "adversarial" => "adversarial",
        "empty" => "empty",
        _ => "other",
    }
}

impl Set {
    fn to_json(&self) -> serde_json::Value {
        serde_json::json!({
            "stream": self.stream,
            "templates": pairs_json(&self.templates),
            "ae": self.ae,
            "entries": self.entries.iter().map(|(n, b)| serde_json::json!([n, b])).collect::<Vec<_>>(),
            "runs": self.runs.iter().map(|r| serde_json::json!({"ctx": pairs_json(&r.ctx), "global": pairs_json(&r.global), "kind": r.kind})).collect::<Vec<_>>(),
        })
    }
    fn from_json(j: &serde_json::Value) -> Set {
        Set {
            stream: j["stream"].as_str().unwrap_or("").to_string(),
            templates: pairs_of(&j["templates"]),
            ae: if j["ae"].as_str() == Some("off") { "off" } else { "on" },
            entries: j["entries"]
                .as_array()
                .map(|a| a.iter().map(|e| (e[0].as_str().unwrap_or("").to_string(), e[1].as_str().map(|s| s.to_string()))).collect())
                .unwrap_or_default(),
            runs: j["runs"]
                .as_array()
                .map(|a| {
                    a.iter()
                        .map(|r| Run { ctx: pairs_of(&r["ctx"]), global: pairs_of(&r["global"]), kind: kind_static(r["kind"].as_str().unwrap_or("")) })
                        .collect()
                })
                .unwrap_or_default(),
        }
    }
}

/// values of unexpected kinds / extremes (wire syntax)
const ADV: [&str; 40] = [
    "U",
    "N",
    "B0",
    "B1",
    "i64:0",
    "i64:-1",
    "u64:18446744073709551615",
    "i64:-9223372036854775808",
    "u128:340282366920938463463374607431768211455",
    "u128:170141183460469231731687303715884105728",
    "i128:170141183460469231731687303715884105727",
    "i128:-170141183460469231731687303715884105728",
    "f:7ff8000000000000",
    "f:7ff0000000000000",
    "f:fff0000000000000",
    "f:8000000000000000",
    "f:3ff8000000000000",
    "f:43f0000000000000",
    "f:c3e0000000000000",
    "f:0000000000000001",
    "s:",
    "s:e697a5f09fa680c3a9",
    "S:3c623e2627",
    "s:3c2f7363726970743e2226",
    "y:",
    "y:ff61c3",
    "y:e697a5",
    "A0",
    "A3 i64:1 s:78 N",
    "A2 U U",
    "A2 A1 A0 M0",
    "A2 f:7ff8000000000000 f:3ff0000000000000",
    "M0",
    "M1 s:62 U",
    "M1 s:62 M1 s:63 U",
    "M2 i64:1 s:78 B1 s:79",
    "M2 s:62 y:ff s:63 f:7ff8000000000000",
    "M2 s:62 M2 s:62 u128:340282366920938463463374607431768211455 s:63 M1 s:62 N s:63 A2 i64:-1 s:c3a9",
    "M1 s:62 A2 M1 s:62 i64:1 U",
    "M2 s:62 S:3c3e s:63 s:3c3e",
];

fn adv_value(rng: &mut Rng) -> String {
    if rng.chance(1, 5) {
        // composite with adversarial leaves under the attribute names the generators use
        format!("M2 s:62 {} s:63 {}", rng.pick(&ADV), rng.pick(&ADV))
    } else {
        rng.pick(&ADV).to_string()
    }
}

fn bcgen_sets(rng: &mut Rng, reps: usize, n_general: usize, n_ctx: usize, n_adv: usize) -> Vec<Set> {
    let cases = bcgen::generate_cases(rng, reps, n_general);
    let mut out = Vec::new();
    for c in cases {
        let mut entries = Vec::new();
        for m in c.modes() {
            match m {
                bcgen::Mode::Render => entries.push((c.name(), None)),
                bcgen::Mode::Block(b) => entries.push((c.name(), Some(b))),
                bcgen::Mode::Component(_) => {}
            }
        }
        let mut runs = Vec::new();
        for cx in bcgen::contexts_for(rng, n_ctx) {
            let mut ctx = Vec::new();
            for (i, name) in bcgen::ROOTS.iter().enumerate() {
                let w = bcgen::LATTICE[cx[i]];
                if w != "-" {
                    ctx.push((name.to_string(), w.to_string()));
                }
            }
            runs.push(Run { ctx, global: vec![], kind: "generator" });
        }
        for _ in 0..n_adv {
            let mut ctx = Vec::new();
            for name in bcgen::ROOTS.iter() {
                if rng.chance(1, 8) {
                    continue;
                }
                let v = if rng.chance(1, 3) { bcgen::LATTICE[bcgen::RICH].to_string() } else { adv_value(rng) };
                ctx.push((name.to_string(), v));
            }
            let global = if rng.chance(1, 4) { vec![(rng.pick(&bcgen::ROOTS).to_string(), adv_value(rng))] } else { vec![] };
            runs.push(Run { ctx, global, kind: "adversarial" });
        }
        for ae in ["on", "off"] {
            out.push(Set { stream: format!("bcgen.{}.{:?}", c.stream, c.place), templates: c.templates(), ae, entries: entries.clone(), runs: runs.clone() });
        }
    }
    out
}

fn evgen_sets(rng: &mut Rng, n: usize, n_adv: usize, hist: &mut BTreeMap<String, u64>) -> Vec<Set> {
    let mut out = Vec::new();
    for i in 0..n {
        let adversarial = i % 3 == 2;
        let case = evgen::gen_program(rng, adversarial, i % 2 == 0, false, hist);
        let enc = |v: &[(String, tera::Value)]| -> Vec<(String, String)> {
            // later inserts win, as in Context::insert
            let mut m: BTreeMap<String, String> = BTreeMap::new();
            for (k, x) in v {
                m.insert(k.clone(), encode(x));
            }
            m.into_iter().collect()
        };
        let base = Run { ctx: enc(&case.ctx), global: enc(&case.global), kind: "generator" };
        let mut runs = vec![base.clone()];
        for _ in 0..n_adv {
            let mut r = base.clone();
            r.kind = "adversarial";
            let k = 1 + rng.below(4);
            for _ in 0..k {
                if r.ctx.is_empty() {
                    break;
                }
                let j = rng.below(r.ctx.len());
                if rng.chance(1, 6) {
                    r.ctx.remove(j);
                } else {
                    r.ctx[j].1 = adv_value(rng);
                }
            }
            if rng.chance(1, 4) && !r.global.is_empty() {
                let j = rng.below(r.global.len());
                r.global[j].1 = adv_value(rng);
            }
            runs.push(r);
        }
        runs.push(Run { ctx: vec![], global: vec![], kind: "empty" });
        let templates = case.sources();
        let main = templates[0].0.clone();
        for ae in ["on", "off"] {
            out.push(Set { stream: format!("evgen.{}", case.stream), templates: templates.clone(), ae, entries: vec![(main.clone(), None)], runs: runs.clone() });
        }
    }
    out
}

/// hand-written sets for what the generators touch lightly: inheritance chains with `super()`,
/// `render_block` of nested / overridden / unknown blocks, components (defaults, types, rest,
/// body, nesting, recursion limit), includes in captures, `__tera_context`, map literals with
/// spreads and bad keys, comprehensions
fn fixed_sets(rng: &mut Rng, n_adv: usize) -> Vec<Set> {
    let t = |v: &[(&str, &str)]| -> Vec<(String, String)> { v.iter().map(|(a, b)| (a.to_string(), b.to_string())).collect() };
    let mut protos: Vec<(Vec<(String, String)>, Vec<(String, Option<String>)>)> = Vec::new();
    let e = |n: &str, b: Option<&str>| (n.to_string(), b.map(|s| s.to_string()));
    protos.push((
        t(&[
            ("gp", "G[{% block k %}g:{{ a.b }}{% block inner %}gi{{ b }}{% endblock inner %}{% endblock k %}]{% block z %}Z{{ c }}{% endblock %}"),
            ("p", "{% extends \"gp\" %}{% block k %}p:{{ super() }}|{{ a }}{% endblock k %}"),
            ("c", "{% extends \"p\" %}{% block k %}c<{{ super() }}>{% set w = 1 %}{% endblock k %}{% block inner %}ci{{ super() }}{% endblock inner %}"),
        ]),
        vec![e("c", None), e("c", Some("k")), e("c", Some("inner")), e("c", Some("z")), e("c", Some("nope")), e("p", None), e("p", Some("k")), e("gp", Some("inner"))],
    ));
    protos.push((
        t(&[
            ("base", "{% filter upper %}x{% block k %}b{{ a }}{% endblock %}y{% endfilter %}{% set s %}[{% block j %}j{{ b.b }}{% endblock %}]{% endset %}{{ s }}"),
            ("kid", "{% extends \"base\" %}{% block j %}J{{ super() }}{{ c }}{% endblock %}"),
        ]),
        vec![e("kid", None), e("kid", Some("k")), e("kid", Some("j")), e("base", None), e("base", Some("j"))],
    ));
    protos.push((
        t(&[
            ("lib", "{% component btn(label: string = \"ok\", n = 1, ...rest) %}<{{ label }}:{{ n }}:{{ rest }}>{% endcomponent btn %}{% component wrap(x) %}({{ x }}|{{ body }}){% endcomponent wrap %}{% component rec(n: integer) %}{{ n }}{% if n > 0 %}{{ <rec n={n - 1}/> }}{% endif %}{% endcomponent rec %}"),
            ("use", "{{ <btn/> }}{{ <btn label={a} n={b} extra={c}/> }}{% <wrap x={a}> %}B{{ b }}{% </wrap> %}{{ <rec n={3}/> }}"),
            ("deep", "{{ <rec n={25}/> }}"),
            ("bad", "{{ <wrap/> }}"),
            ("spread", "{{ <btn {...a} n={2}/> }}"),
        ]),
        vec![e("use", None), e("deep", None), e("bad", None), e("spread", None)],
    ));
    protos.push((
        t(&[
            ("inc", "i{{ a }}{{ x }}{% set a = 5 %}{{ a }}{{ __tera_context }}"),
            ("main", "{% for x in [1, 2] %}{% set_global g = x %}{% filter upper %}{% include \"inc\" %}{% endfilter %}{% endfor %}{{ g }}{{ a }}{{ __tera_context }}"),
        ]),
        vec![e("main", None), e("inc", None)],
    ));
    protos.push((
        t(&[
            ("loopset", "{% for x in c %}[{{ w | default(value=\"-\") }}{% set w = x %}{{ w }}{% set_global g = x %}{% for y in c %}{{ w }}{{ v | default(value=\"_\") }}{% set v = y %}{% if y %}{% continue %}{% endif %}{% set w = 0 %}{% endfor %}{{ w }}]{% else %}E{% endfor %}{{ g | default(value=\"G\") }}{{ w | default(value=\"W\") }}"),
            ("kv", "{% for k, v in b %}{{ loop.index }}{{ loop.first }}{{ loop.last }}{{ loop.length }}{{ k }}={{ v }}{% if loop.index0 == 1 %}{% break %}{% endif %}{% endfor %}{% for ch in a %}{{ ch }}{{ loop.index0 }},{% endfor %}"),
        ]),
        vec![e("loopset", None), e("kv", None)],
    ));
    {
        // one template per expression form so that an error in one does not hide the others
        let exprs = [
            "{\"k\": a, ...b, \"z\": 1}", "[1, ...c, a]", "[x * 2 for x in c if x]", "[k ~ v for k, v in b]",
            "a[b]", "a[1:]", "a[::-1]", "c[a:b:1]", "c[a]", "a in c", "a < b", "a >= b", "a == b", "a != c", "a ** b", "-a", "a // b", "a % b",
            "a / b", "a * b", "a + b", "a - b", "a ~ b ~ c", "not a", "a and b or c", "a if b else c", "a?.b", "a?.b?.c", "a?[b]", "c?[1:]",
            "a | default(value=b)", "c | length", "c | first", "c | join(sep=a)", "a | str", "a | safe", "b | int", "a | abs", "c | reverse",
            "a is defined", "a is string", "b is odd", "a is containing(pat=b)", "range(end=b)", "range(start=a, end=b, step_by=a)", "b | keys", "b | values",
            "a | get(key=\"b\", default=c)", "a | replace(from=\"l\", to=b)", "a | truncate(length=b)", "a | split(pat=\"l\")", "a | round", "a | nth(n=b)",
            "c | pairs", "a | trim", "a | capitalize", "a | title", "a | wordcount", "a | indent(width=b)", "b | pluralize", "a | escape_html", "a | float", "c | last",
            "a is divisible_by(divisor=b)", "a is starting_with(pat=\"l\")", "a is number", "a is iterable", "a is none",
        ];
        for (i, ex) in exprs.iter().enumerate() {
            let tpls = vec![
                (format!("e{i}"), format!("[{{{{ {ex} }}}}]")),
                (format!("s{i}"), format!("{{% set w = {ex} %}}{{% if w %}}T{{% else %}}F{{% endif %}}{{% for q in [{ex}] %}}{{{{ loop.index }}}}{{{{ q is defined }}}}{{% endfor %}}")),
            ];
            protos.push((tpls, vec![(format!("e{i}"), None), (format!("s{i}"), None)]));
        }
    }
    let mut out = Vec::new();
    for (templates, entries) in protos {
        let rich = bcgen::LATTICE[bcgen::RICH].to_string();
        let rich_safe = bcgen::LATTICE[bcgen::RICH_SAFE].to_string();
        let mk = |a: &str, b: &str, c: &str, g: &[(&str, &str)]| Run {
            ctx: [("a", a), ("b", b), ("c", c)].iter().filter(|(_, w)| *w != "-").map(|(k, w)| (k.to_string(), w.to_string())).collect(),
            global: g.iter().map(|(k, w)| (k.to_string(), w.to_string())).collect(),
            kind: "generator",
        };
        let mut runs = vec![
            Run { ctx: vec![], global: vec![], kind: "empty" },
            mk(&rich, &rich, &rich, &[]),
            mk(&rich_safe, &rich, "A3 i64:1 i64:0 i64:3", &[("c", "i64:9")]),
            mk("M2 s:62 s:3c613e s:6e i64:4", "M1 s:62 i64:2", "A3 i64:1 i64:0 i64:3", &[("c", "i64:9")]),
            mk("i64:2", "i64:3", "A2 i64:5 i64:6", &[]),
            mk("s:6c62", "i64:1", "s:616c6262", &[]),
            mk("M2 s:6c6162656c s:3c6c3e s:6e i64:7", "u64:5", "-", &[("c", "M1 s:62 s:67")]),
            mk("i64:1", "i64:-1", "A3 i64:1 i64:0 i64:3", &[]),
            mk("f:3ff8000000000000", "i64:2", "A2 f:3ff8000000000000 i64:1", &[]),
        ];
        for _ in 0..n_adv {
            let mut ctx = Vec::new();
            for name in ["a", "b", "c"] {
                if !rng.chance(1, 8) {
                    ctx.push((name.to_string(), adv_value(rng)));
                }
            }
            runs.push(Run { ctx, global: vec![], kind: "adversarial" });
        }
        for ae in ["on", "off"] {
            out.push(Set { stream: "fixed".into(), templates: templates.clone(), ae, entries: entries.clone(), runs: runs.clone() });
        }
    }
    out
}

/// Directed families run on every seed (deterministic, no PRNG):
///  * `super()` evaluated AFTER a nested block has ended, in 2- and 3-level lineages, every order
///    of (nested block, super) per level, and `super()` outside every block after a block;
///  * an extreme-pair matrix (i128::MIN, -1 as i64 and as i128, 0, 1, i128::MAX, u128::MAX,
///    i64::MIN — all 64 pairs) through every binary arithmetic / comparison instruction and unary
///    minus, from the context and against literals;
///  * a block under 0 – 4 nested captures (filter sections, set blocks, component bodies) × render and
///    render_block, with the direct oracle "render_block does not depend on the enclosing captures";
///  * strings printed with `{:?}` inside arrays / maps / as map keys over the characters std escapes
///    as `\u{..}` and their neighbours;
///  * filters that must FAIL (wrong receiver kind, wrong kwarg type) at every filter position:
///    `{{ v | f }}`, filter sections, set-block chains (first and later position, set and
///    set_global), inside blocks, component bodies, includes and loops.
fn directed_sets() -> Vec<Set> {
    let mut out = Vec::new();
    let e = |n: &str, b: Option<&str>| (n.to_string(), b.map(|s| s.to_string()));
    let both_ae = |out: &mut Vec<Set>, stream: &str, templates: Vec<(String, String)>, entries: Vec<(String, Option<String>)>, runs: Vec<Run>| {
        for ae in ["on", "off"] {
            out.push(Set { stream: stream.to_string(), templates: templates.clone(), ae, entries: entries.clone(), runs: runs.clone() });
        }
    };
    let plain_runs = vec![
        Run { ctx: vec![], global: vec![], kind: "empty" },
        Run { ctx: vec![("a".into(), "s:3c613e".into()), ("b".into(), "i64:2".into())], global: vec![], kind: "generator" },
    ];

    // ---- super() after a nested block
    // body of `outer` at one level: order 0 = super first, 1 = nested block first, 2 = super on both sides,
    // 3 = two nested blocks then super
    let outer_body = |tag: &str, order: usize, has_super: bool| -> String {
        let sup = if has_super { "{{ super() }}" } else { "" };
        let inner = format!("{{% block inner %}}{tag}i{}{{% endblock inner %}}", if has_super { "{{ super() }}" } else { "" });
        let tail = format!("{{% block tail %}}{tag}t{{% endblock tail %}}");
        match order {
            0 => format!("{tag}({sup}{inner})"),
            1 => format!("{tag}({inner}{sup})"),
            2 => format!("{tag}({sup}{inner}{sup})"),
            _ => format!("{tag}({inner}{tail}{sup}{{{{ a }}}})"),
        }
    };
    for levels in [2usize, 3] {
        let n_orders = 4usize;
        let combos = n_orders.pow(levels as u32);
        for combo in 0..combos {
            let mut templates: Vec<(String, String)> = Vec::new();
            let mut k = combo;
            for lvl in 0..levels {
                let order = k % n_orders;
                k /= n_orders;
                let tag = ["g", "p", "c"][lvl];
                let name = format!("l{lvl}");
                let body = outer_body(tag, order, lvl > 0);
                let src = if lvl == 0 {
                    format!("A{{% block outer %}}{body}{{% endblock outer %}}B{{% block z %}}z{{% endblock z %}}")
                } else {
                    format!("{{% extends \"l{}\" %}}{{% block outer %}}{body}{{% endblock outer %}}", lvl - 1)
                };
                templates.push((name, src));
            }
            let top = format!("l{}", levels - 1);
            let mut entries = vec![e(&top, None), e(&top, Some("outer")), e(&top, Some("inner")), e(&top, Some("tail")), e(&top, Some("z"))];
            if levels == 3 {
                entries.push(e("l1", None));
                entries.push(e("l1", Some("outer")));
            }
            both_ae(&mut out, "directed.super_after_block", templates, entries, plain_runs.clone());
        }
    }
    // super() outside every block, after / before / between blocks; in a base and through a child
    for (i, src) in [
        "{% block a %}x{% endblock %}{{ super() }}",
        "{{ super() }}{% block a %}x{% endblock %}",
        "{% block a %}x{% block n %}y{% endblock %}{% endblock %}-{{ super() }}-{% block b %}z{% endblock %}",
        "{% block a %}x{% endblock %}{% if a %}{{ super() }}{% endif %}{% for q in [1] %}{{ super() }}{% endfor %}{% block b %}z{% endblock %}",
        "{% block a %}{% block n %}y{% endblock %}{{ a }}{% endblock %}{% set w = super() %}",
        "{% filter upper %}{% block a %}x{% endblock %}{{ super() }}{% endfilter %}",
    ]
    .iter()
    .enumerate()
    {
        let templates = vec![
            (format!("b{i}"), src.to_string()),
            (format!("k{i}"), format!("{{% extends \"b{i}\" %}}{{% block a %}}K{{{{ super() }}}}{{% endblock %}}")),
        ];
        let entries = vec![e(&format!("b{i}"), None), e(&format!("b{i}"), Some("a")), e(&format!("k{i}"), None), e(&format!("k{i}"), Some("a")), e(&format!("k{i}"), Some("n")), e(&format!("k{i}"), Some("b"))];
        both_ae(&mut out, "directed.super_outside_block", templates, entries, plain_runs.clone());
    }

    // ---- extreme pairs through every arithmetic instruction
    let extremes: [&str; 8] = [
        "i128:-170141183460469231731687303715884105728",
        "i64:-1",
        "i128:-1",
        "i64:0",
        "i64:1",
        "i128:170141183460469231731687303715884105727",
        "u128:340282366920938463463374607431768211455",
        "i64:-9223372036854775808",
    ];
    let ops = ["+", "-", "*", "/", "//", "%", "**", "<", "<=", ">", ">=", "==", "!=", "~", "in"];
    let mut templates: Vec<(String, String)> = Vec::new();
    let mut entries = Vec::new();
    for (i, op) in ops.iter().enumerate() {
        templates.push((format!("o{i}"), format!("[{{{{ a {op} b }}}}]")));
        entries.push(e(&format!("o{i}"), None));
    }
    for (i, ex) in ["-a", "a % -1", "a // -1", "a * -1", "a / -1", "a - 1", "a + 1", "0 - a", "a ** 2", "2 ** b", "-1 % a", "a % 1", "(a % b) // b", "- (a % b)", "a % b % b", "a | abs", "[a % b for q in [1]]"].iter().enumerate() {
        templates.push((format!("u{i}"), format!("[{{{{ {ex} }}}}]")));
        entries.push(e(&format!("u{i}"), None));
    }
    templates.push(("stmt".into(), "{% set r = a % b %}{{ r }}{% if a % b == 0 %}Z{% endif %}{% for q in [a % b, a // b] %}{{ q }}{% endfor %}".into()));
    entries.push(e("stmt", None));
    let mut runs = Vec::new();
    for x in extremes.iter() {
        for y in extremes.iter() {
            runs.push(Run { ctx: vec![("a".into(), x.to_string()), ("b".into(), y.to_string())], global: vec![], kind: "adversarial" });
        }
    }
    both_ae(&mut out, "directed.extreme_pairs", templates, entries, runs);

    // ---- a block under 0, 1, 2, 3 nested captures (filter sections, set blocks, component bodies),
    // rendered whole and by `render_block` (F4: every enclosing capture buffer is set aside while
    // the requested block runs).  Direct oracle in `main`: `render_block` of `k` gives the same text
    // in every template of the set (the body of `k` is the same everywhere).
    {
        let k = "{% block k %}k{{ a }}{% block n %}n{{ b }}{% endblock n %}{% endblock k %}";
        let shapes: [(&str, String); 12] = [
            ("d0", format!("A{k}B")),
            ("d1f", format!("{{% filter upper %}}x{k}y{{% endfilter %}}")),
            ("d1s", format!("{{% set w %}}x{k}y{{% endset %}}[{{{{ w }}}}]")),
            ("d2ff", format!("{{% filter upper %}}p{{% filter trim %}} x{k}y {{% endfilter %}}q{{% endfilter %}}")),
            ("d2sf", format!("{{% set w %}}p{{% filter upper %}}x{k}y{{% endfilter %}}q{{% endset %}}[{{{{ w }}}}]")),
            ("d2fs", format!("{{% filter upper %}}p{{% set w %}}x{k}y{{% endset %}}[{{{{ w }}}}]q{{% endfilter %}}")),
            ("d2ss", format!("{{% set v %}}p{{% set w %}}x{k}y{{% endset %}}[{{{{ w }}}}]q{{% endset %}}<{{{{ v }}}}>")),
            ("d3", format!("{{% filter upper %}}1{{% set w %}}2{{% filter trim %}} 3{k}4 {{% endfilter %}}5{{% endset %}}[{{{{ w }}}}]6{{% endfilter %}}")),
            ("d4", format!("{{% filter upper %}}{{% filter lower %}}{{% filter upper %}}{{% filter trim %}} {k} {{% endfilter %}}{{% endfilter %}}{{% endfilter %}}{{% endfilter %}}")),
            ("dfor", format!("{{% filter upper %}}{{% filter trim %}}{{% for q in [1, 2] %}}{{{{ q }}}}{{% endfor %}}{k}{{% for q in [3] %}}{{{{ q }}}}{{% endfor %}}{{% endfilter %}}{{% endfilter %}}")),
            ("dcb", format!("{{% component wr() %}}[{{{{ body }}}}]{{% endcomponent wr %}}{{% <wr> %}}x{{% filter upper %}}{k}{{% endfilter %}}y{{% </wr> %}}")),
            ("dcs", format!("{{% component ws() %}}({{{{ body }}}}){{% endcomponent ws %}}{{% set w %}}{{% <ws> %}}{k}{{% </ws> %}}{{% endset %}}{{{{ w }}}}")),
        ];
        let runs = vec![
            Run { ctx: vec![("a".into(), "s:3c413e".into()), ("b".into(), "i64:7".into())], global: vec![], kind: "generator" },
            Run { ctx: vec![("a".into(), "S:3c62".into())], global: vec![("b".into(), "s:67".into())], kind: "generator" },
            Run { ctx: vec![], global: vec![], kind: "empty" },
        ];
        // each shape on its own (a shape the parser refuses does not take the others with it),
        // next to the depth-0 reference; plus a child that overrides `k` and calls super()
        for (name, src) in shapes.iter() {
            let templates = vec![
                ("d0".to_string(), shapes[0].1.clone()),
                (name.to_string(), src.clone()),
                (format!("{name}_child"), format!("{{% extends \"{name}\" %}}{{% block n %}}N{{{{ super() }}}}{{% endblock n %}}")),
            ];
            let templates: Vec<(String, String)> = if *name == "d0" { templates[1..].to_vec() } else { templates };
            let mut entries = vec![e("d0", Some("k")), e("d0", Some("n")), e(name, None), e(name, Some("k")), e(name, Some("n"))];
            let child = format!("{name}_child");
            entries.push(e(&child, None));
            entries.push(e(&child, Some("k")));
            entries.push(e(&child, Some("n")));
            both_ae(&mut out, "directed.block_in_captures", templates, entries, runs.clone());
        }
    }

    // ---- strings printed with `{:?}` (inside arrays and maps, as map keys): which characters std
    // writes as `\u{..}` — controls, NO-BREAK SPACE, SOFT HYPHEN, combining marks, the Unicode space
    // separators and format characters — and their unescaped neighbours
    // (found by `./check C08 thorough`: `[p2 for …]` over a capture holding U+00A0, measured by
    // `filter length`)
    {
        let cps: [u32; 36] = [
            0x1f, 0x20, 0x7e, 0x7f, 0x85, 0x9f, 0xa0, 0xa1, 0xac, 0xad, 0xae, 0xe9, 0x2ff, 0x300, 0x301, 0x36f, 0x370, 0x1680, 0x1ffe, 0x2000, 0x2003, 0x200b,
            0x200f, 0x2010, 0x2027, 0x2028, 0x202f, 0x2030, 0x205f, 0x206f, 0x2070, 0x3000, 0x3001, 0x65e5, 0xfeff, 0x1f980,
        ];
        let all: String = cps.iter().filter(|c| **c != 0x22 && **c != 0x5c).filter_map(|c| char::from_u32(*c)).filter(|c| *c as u32 >= 0x20 && *c as u32 != 0x7f).collect();
        let templates = vec![
            ("lit".to_string(), format!("[{{{{ [\"{all}\", \"a{}\"] }}}}|{{{{ {{\"k\": \"{all}\"}} }}}}]", '\u{a0}')),
            ("var".to_string(), "{{ [a] }}|{{ {\"k\": a} }}|{{ [[a], {\"q\": [a, 1]}] }}|{{ b }}|{% filter length %}{{ [a] }}{{ b }}{% endfilter %}".to_string()),
            ("cap".to_string(), "{% filter upper %}{% set_global p | lower %}\u{85}\u{a0}\n{{ true }}{% endset %}{% filter length %}{{ [p for e in [1, 2]] }}{% endfilter %}|{{ [p, a] }}{% endfilter %}".to_string()),
        ];
        let entries = vec![e("lit", None), e("var", None), e("cap", None)];
        let mut runs = Vec::new();
        for cp in cps.iter() {
            let Some(ch) = char::from_u32(*cp) else { continue };
            let sv = format!("x{ch}y");
            let h = hex(sv.as_bytes());
            runs.push(Run { ctx: vec![("a".into(), format!("s:{h}")), ("b".into(), format!("M2 s:{h} S:{h} s:6b A1 s:{h}"))], global: vec![], kind: "adversarial" });
        }
        both_ae(&mut out, "directed.debug_escapes", templates, entries, runs);
    }

    // ---- filters that must fail, at every filter position
    // (filter call, a receiver expression of a kind it also refuses in `{{ v | f }}` position)
    let failing: [&str; 24] = [
        "round", "first", "last", "join", "join(sep=1)", "sort", "unique", "keys", "values", "pairs", "nth(n=0)", "group_by(attribute=\"a\")",
        "get(key=\"a\")", "trim(pat=1)", "truncate(length=\"3\")", "replace(from=1, to=\"b\")", "indent(width=\"x\")", "split(pat=1)",
        "trim_start(pat=[1])", "trim_end(pat=none)", "default(value=1, boolean=\"x\")", "round(method=1)", "int(base=\"x\")", "pluralize(singular=1)",
    ];
    for (i, f) in failing.iter().enumerate() {
        let mut templates: Vec<(String, String)> = Vec::new();
        let mut entries = Vec::new();
        let add = |name: String, src: String, templates: &mut Vec<(String, String)>| {
            templates.push((name, src));
        };
        add(format!("e{i}"), format!("[{{{{ \"abc\" | {f} }}}}]"), &mut templates);
        add(format!("v{i}"), format!("[{{{{ a | {f} }}}}]"), &mut templates);
        add(format!("fs{i}"), format!("{{% filter {f} %}}abc{{% endfilter %}}"), &mut templates);
        add(format!("sb{i}"), format!("{{% set x | {f} %}}abc{{% endset %}}{{{{ x }}}}"), &mut templates);
        add(format!("sg{i}"), format!("{{% for q in [1] %}}{{% set_global x | {f} %}}abc{{% endset %}}{{% endfor %}}{{{{ x }}}}"), &mut templates);
        add(format!("s1{i}"), format!("{{% set x | {f} | upper %}}abc{{% endset %}}{{{{ x }}}}"), &mut templates);
        add(format!("s2{i}"), format!("{{% set x | upper | {f} %}}abc{{% endset %}}{{{{ x }}}}"), &mut templates);
        add(format!("s3{i}"), format!("{{% set x | upper | trim | {f} | lower %}}a{{{{ a }}}}c{{% endset %}}{{{{ x }}}}"), &mut templates);
        add(format!("bl{i}"), format!("{{% block k %}}{{% set x | {f} %}}abc{{% endset %}}{{{{ x }}}}{{% filter {f} %}}q{{% endfilter %}}{{% endblock %}}"), &mut templates);
        entries.push((format!("bl{i}"), Some("k".to_string())));
        add(format!("cp{i}"), format!("{{% component w{i}() %}}[{{{{ body }}}}]{{% set x | {f} %}}abc{{% endset %}}{{% endcomponent w{i} %}}{{% <w{i}> %}}{{% set y | {f} %}}abc{{% endset %}}{{{{ y }}}}{{% </w{i}> %}}"), &mut templates);
        add(format!("ci{i}"), format!("{{% component z{i}() %}}{{% set x | {f} %}}abc{{% endset %}}{{{{ x }}}}{{% endcomponent z{i} %}}{{{{ <z{i}/> }}}}"), &mut templates);
        templates.push((format!("in{i}"), format!("{{% set x | {f} %}}abc{{% endset %}}{{{{ x }}}}")));
        add(format!("ic{i}"), format!("{{% filter upper %}}{{% include \"in{i}\" %}}{{% endfilter %}}"), &mut templates);
        add(format!("lp{i}"), format!("{{% for q in [1, 2] %}}{{% set x | {f} %}}a{{{{ q }}}}{{% endset %}}{{{{ x }}}}{{% endfor %}}"), &mut templates);
        for (n, _) in templates.iter() {
            if !n.starts_with("in") {
                entries.push((n.clone(), None));
            }
        }
        let runs = vec![
            Run { ctx: vec![], global: vec![], kind: "empty" },
            Run { ctx: vec![("a".into(), "s:616263".into())], global: vec![], kind: "generator" },
            Run { ctx: vec![("a".into(), "i64:3".into())], global: vec![], kind: "adversarial" },
            Run { ctx: vec![("a".into(), "A2 i64:1 s:78".into())], global: vec![], kind: "adversarial" },
            Run { ctx: vec![("a".into(), "M1 s:61 i64:1".into())], global: vec![], kind: "adversarial" },
            Run { ctx: vec![("a".into(), "f:3ff8000000000000".into())], global: vec![], kind: "adversarial" },
            Run { ctx: vec![("a".into(), "y:ff61".into())], global: vec![], kind: "adversarial" },
            Run { ctx: vec![("a".into(), "N".into())], global: vec![], kind: "adversarial" },
        ];
        both_ae(&mut out, "directed.failing_filter", templates, entries, runs);
    }
    out
}

// ------------------------------------------------------------------------------ the real engine

/// class of a render error, from its message (same classes as `showRErr` in Driver/Vm.lean)
fn classify(msg: &str) -> &'static str {
    let has = |s: &str| msg.contains(s);
    if msg.starts_with("Variable `") && has("is not defined") {
        "undefvar"
    } else if msg.starts_with("Field `") && has("is not defined") {
        "undeffield"
    } else if has("Tried to render a variable that is not defined") {
        "undefrender"
    } else if has("Cannot index into an undefined value") || has("Index expression is undefined") || has("index must be an integer, got") || has("Map keys must be strings") {
        "index"
    } else if has("Cannot slice an undefined value")
        || has("Slice start is undefined")
        || has("Slice end is undefined")
        || has("Slice step is undefined")
        || has("must be an integer, got")
        || has("Slicing can only be used")
        || has("Slicing step cannot be 0")
    {
        "slice"
    } else if has("Cannot compare `") {
        "notcomparable"
    } else if has("out of range for integer arithmetic") {
        "operandrange"
    } else if has("divide by 0") {
        "divzero"
    } else if has("Exponent") && has("out of range") {
        "exprange"
    } else if has("Unable to perform") || has("would overflow") {
        "overflow"
    } else if has("can only be done on numbers") || has("requires both operands to be numbers") || has("Only numbers can be") {
        "notnumber"
    } else if has("Iteration not possible") || has("Key/value iteration") {
        "iteration"
    } else if has("`in` cannot be used") {
        "incontainer"
    } else if has("Spread operator requires") {
        "spread"
    } else if has("Not a valid key type") {
        "mapkey"
    } else if has("super() called outside of a block") {
        "superoutside"
    } else if has("Tried to use super() in the top level block") {
        "supertop"
    } else if has("Unknown argument(s)") || (has("Argument `") && has("missing.")) || has("Component argument `") {
        "binding"
    } else if has("Maximum render recursion depth") {
        "recursion"
    } else if has("has no block lineage") {
        "nolineage"
    } else if msg.starts_with("Block `") && has("not found in template") {
        "blocknotfound"
    } else if has("Template") && has("not found") {
        "notfound"
    } else {
        "call"
    }
}

fn build_engine(set: &Set) -> Result<Tera, String> {
    match catch(std::panic::AssertUnwindSafe(|| {
        let mut tera = Tera::default();
        if set.ae == "on" {
            tera.autoescape_on(vec![""]);
        } else {
            tera.autoescape_on(Vec::<&'static str>::new());
        }
        tera.add_raw_templates(set.templates.clone()).map_err(|e| format!("{e}"))?;
        Ok(tera)
    })) {
        Ok(r) => r,
        Err(p) => Err(format!("panic {p}")),
    }
}

fn context_of(v: &[(String, String)]) -> Result<Context, String> {
    let mut ctx = Context::new();
    for (k, w) in v {
        ctx.insert_value(k.clone(), decode(w).ok_or_else(|| format!("bad wire value {w}"))?);
    }
    Ok(ctx)
}

/// ("ok <hex>" | "err <class>" | "panic <msg>", final stack sizes after a successful render)
fn real_outcome(tera: &mut Tera, entry: &(String, Option<String>), run: &Run) -> (String, Option<(usize, usize, usize)>) {
    let ctx = match context_of(&run.ctx) {
        Ok(c) => c,
        Err(e) => return (format!("harness-error {e}"), None),
    };
    let glob = match context_of(&run.global) {
        Ok(c) => c,
        Err(e) => return (format!("harness-error {e}"), None),
    };
    *tera.global_context() = glob;
    let _ = hooks::take_final_stacks();
    let tera: &Tera = tera;
    let r = catch(std::panic::AssertUnwindSafe(|| match &entry.1 {
        None => tera.render(&entry.0, &ctx),
        Some(b) => tera.render_block(&entry.0, b, &ctx),
    }));
    let stacks = hooks::take_final_stacks();
    match r {
        Err(p) => (format!("panic {}", p.replace(['\n', ';'], " ")), None),
        Ok(Ok(text)) => (format!("ok {}", hex(text.as_bytes())), stacks),
        Ok(Err(e)) => {
            let msg = match e.kind() {
                tera::ErrorKind::RenderingError(r) => r.message().to_string(),
                _ => e.to_string(),
            };
            (format!("err {}", classify(&msg)), None)
        }
    }
}

fn name_tok(s: &str) -> String {
    format!("n:{}", hex(s.as_bytes()))
}

fn bindings_wire(tag: &str, v: &[(String, String)]) -> String {
    let mut s = format!("{tag}{}", v.len());
    for (k, w) in v {
        s.push_str(&format!(" {} {}", name_tok(k), w));
    }
    s
}

fn request(env_wire: &str, entry: &(String, Option<String>), runs: &[Run]) -> String {
    let mut s = format!("render {} ", name_tok(&entry.0));
    match &entry.1 {
        None => s.push_str("B0"),
        Some(b) => s.push_str(&format!("B1 {}", name_tok(b))),
    }
    s.push(' ');
    s.push_str(env_wire);
    s.push_str(&format!(" R{}", runs.len()));
    for r in runs {
        s.push(' ');
        s.push_str(&bindings_wire("X", &r.ctx));
        s.push(' ');
        s.push_str(&bindings_wire("G", &r.global));
    }
    s
}

/// child side: one set → "adderr …" | per entry "Q <e> <request>" and per (entry, run) "O <e> <r> <stacks> <outcome>"
fn child_each(item: &serde_json::Value) -> Vec<String> {
    let set = Set::from_json(item);
    let mut tera = match build_engine(&set) {
        Ok(t) => t,
        Err(e) => return vec![format!("adderr {}", e.lines().next().unwrap_or(""))],
    };
    let env_wire = match catch(std::panic::AssertUnwindSafe(|| hooks::vm_env_wire(&tera))) {
        Ok(w) => w,
        Err(p) => return vec![format!("adderr hook panic {p}")],
    };
    let mut out = Vec::new();
    out.push(format!("K check {env_wire}"));
    // (C01 on the VM model) the static hypotheses of C01 on the same listings: statistics + oracle
    out.push(format!("K check01 {env_wire}"));
    for (ei, entry) in set.entries.iter().enumerate() {
        out.push(format!("Q {ei} {}", request(&env_wire, entry, &set.runs)));
        for (ri, run) in set.runs.iter().enumerate() {
            let (o, st) = real_outcome(&mut tera, entry, run);
            let st = match st {
                Some((a, b, c)) => format!("{a},{b},{c}"),
                None => "-".to_string(),
            };
            out.push(format!("O {ei} {ri} {st} {o}"));
        }
    }
    out
}

// ------------------------------------------------------------------------------ comparison

fn show(o: &str) -> String {
    match o.strip_prefix("ok ") {
        Some(h) => format!("ok {:?}", String::from_utf8_lossy(&unhex(h).unwrap_or_default())),
        None => o.to_string(),
    }
}

struct Obs {
    set: usize,
    entry: usize,
    run: usize,
    real: String,
    stacks: String,
}

/// in-process evaluation of one (set, entry, run) on both sides (shrinking / replay only)
fn eval_one(set: &Set, entry: usize, run: &Run, exe: &std::path::Path) -> Result<(String, String, String), String> {
    let mut tera = build_engine(set)?;
    let env_wire = hooks::vm_env_wire(&tera);
    let (real, _) = real_outcome(&mut tera, &set.entries[entry], run);
    let req = request(&env_wire, &set.entries[entry], std::slice::from_ref(run));
    let model = driver::run_batch(exe, std::slice::from_ref(&req))?.pop().unwrap_or_default();
    Ok((real, model, req))
}

fn comparable(model: &str) -> bool {
    !(model.starts_with("unmodelled") || model == "fuel")
}

fn agree(real: &str, model: &str) -> bool {
    real == model
}

/// drop context bindings / simplify values while the disagreement stays
fn shrink_run(set: &Set, entry: usize, run: &Run, exe: &std::path::Path) -> Run {
    let mut cur = run.clone();
    let still = |r: &Run| -> bool {
        match eval_one(set, entry, r, exe) {
            Ok((real, model, _)) => comparable(&model) && !agree(&real, &model),
            Err(_) => false,
        }
    };
    let mut budget = 40;
    loop {
        let mut changed = false;
        for which in 0..2 {
            let n = if which == 0 { cur.ctx.len() } else { cur.global.len() };
            for i in (0..n).rev() {
                if budget == 0 {
                    return cur;
                }
                budget -= 1;
                let mut cand = cur.clone();
                if which == 0 {
                    cand.ctx.remove(i);
                } else {
                    cand.global.remove(i);
                }
                if still(&cand) {
                    cur = cand;
                    changed = true;
                }
            }
        }
        if !changed {
            return cur;
        }
    }
}

/// the set cut down to one entry and the templates that entry needs: the entry's template plus
/// everything reachable through quoted names (extends / include) and component tags; kept only if
/// the real outcome stays in the same class
fn reduce_templates(set: &Set, entry: usize, run: &Run, real: &str) -> Set {
    let mut one = set.clone();
    one.entries = vec![set.entries[entry].clone()];
    one.runs = vec![run.clone()];
    let class = |o: &str| o.split(' ').next().unwrap_or("").to_string();
    let mut keep: Vec<usize> = Vec::new();
    if let Some(i) = set.templates.iter().position(|(n, _)| *n == set.entries[entry].0) {
        keep.push(i);
    }
    let mut k = 0;
    while k < keep.len() {
        let src = set.templates[keep[k]].1.clone();
        for (j, (n, other)) in set.templates.iter().enumerate() {
            if keep.contains(&j) {
                continue;
            }
            let mentions = src.contains(&format!("\"{n}\""));
            // a component defined in `other` and used here
            let comp = other.match_indices("{% component ").any(|(at, _)| {
                let name: String = other[at + 13..].chars().take_while(|c| c.is_alphanumeric() || *c == '_').collect();
                !name.is_empty() && src.contains(&format!("<{name}"))
            });
            if mentions || comp {
                keep.push(j);
            }
        }
        k += 1;
    }
    keep.sort();
    let mut cand = one.clone();
    cand.templates = keep.iter().map(|i| set.templates[*i].clone()).collect();
    let same = build_engine(&cand).map(|mut t| class(&real_outcome(&mut t, &cand.entries[0], run).0) == class(real)).unwrap_or(false);
    if same { cand } else { one }
}

fn replay_json(set: &Set, entry: usize, run: &Run, real: &str, model: &str, stage: &str) -> serde_json::Value {
    let mut one = set.clone();
    one.entries = vec![set.entries[entry].clone()];
    one.runs = vec![run.clone()];
    serde_json::json!({
        "property": property(),
        "harness_bin": "cvm",
        "detail": {"stage": stage},
        "case": one.to_json(),
        "real": show(real),
        "model": show(model),
        "rerun": "harness/target/release/cvm --replay <this file>",
    })
}

fn run_replay(path: &str, exe: &std::path::Path) {
    let text = std::fs::read_to_string(path).expect("replay file");
    let j: serde_json::Value = serde_json::from_str(&text).expect("replay json");
    // the replay object itself, or the file check.py wraps it in (a violation: under "replay";
    // a correspondence that no longer checks: under "no_longer_checks"[i]."case")
    let mut cases: Vec<&serde_json::Value> = Vec::new();
    if j["case"].is_object() {
        cases.push(&j["case"]);
    }
    if j["replay"]["case"].is_object() {
        cases.push(&j["replay"]["case"]);
    }
    if let Some(l) = j["no_longer_checks"].as_array() {
        for x in l {
            if x["case"]["case"].is_object() {
                cases.push(&x["case"]["case"]);
            }
        }
    }
    if cases.is_empty() {
        println!("no cvm case in {path}");
        return;
    }
    for case in cases {
        replay_case(case, exe);
    }
}

fn replay_case(case: &serde_json::Value, exe: &std::path::Path) {
    let set = Set::from_json(case);
    for (n, s) in &set.templates {
        println!("template {n:?}: {s}");
    }
    println!("autoescape forced {}", set.ae);
    for ei in 0..set.entries.len() {
        for run in &set.runs {
            println!("entry {:?} ctx {:?} global {:?}", set.entries[ei], run.ctx, run.global);
            match eval_one(&set, ei, run, exe) {
                Ok((real, model, _)) => {
                    println!("  real VM : {}", show(&real));
                    println!("  model VM: {}", show(&model));
                    println!("  {}", if !comparable(&model) { "NOT COMPARED (outside the model)" } else if agree(&real, &model) { "AGREE" } else { "DISAGREE" });
                }
                Err(e) => println!("  could not evaluate: {e}"),
            }
        }
    }
}

fn main() {
    quiet_panics();
    let args: Vec<String> = std::env::args().collect();
    if let Some(i) = args.iter().position(|a| a == CHILD_FLAG) {
        child_main(&args[i + 1], &args[i + 2], 20, |_| (), |_, item| child_each(item));
    }
    let env = Env::from_env();
    let exe = driver::driver_path(&env.verif_dir, "drv_vm");
    if let Some(p) = replay_path() {
        run_replay(&p, &exe);
        return;
    }
    let t0 = Instant::now();
    let threads = std::thread::available_parallelism().map(|n| n.get()).unwrap_or(4).min(16);
    let mut report = Report::new(property());
    report.rule = "a (template set, entry, context) whose real listings were executed by the model VM with a comparable outcome (not `unmodelled`)".into();
    let mut rng = Rng::new(env.seed ^ 0x766d5f6376);

    // ---- cases
    let mut ev_hist = BTreeMap::new();
    let mut sets = directed_sets();
    sets.extend(fixed_sets(&mut rng, env.budget(8, 40)));
    sets.extend(bcgen_sets(&mut rng, env.budget(5, 30), env.budget(1500, 30000), env.budget(3, 8), env.budget(4, 12)));
    sets.extend(evgen_sets(&mut rng, env.budget(8000, 200000), env.budget(3, 6), &mut ev_hist));
    for s in &sets {
        report.count(&format!("sets.{}", s.stream.split('.').take(2).collect::<Vec<_>>().join(".")));
    }
    report.count_n("sets.total", sets.len() as u64);

    // ---- real engine, in child processes
    let per_batch = 24;
    let batches: Vec<Batch> = sets
        .chunks(per_batch)
        .map(|c| Batch { common: serde_json::json!({}), items: c.iter().map(|s| s.to_json()).collect() })
        .collect();
    let results = run_batches(CHILD_FLAG, &batches, Duration::from_secs(240), threads);
    let mut requests: Vec<String> = Vec::new();
    let mut req_of: Vec<(usize, usize)> = Vec::new(); // (set, entry) of each request; entry = usize::MAX: the `check` request
    let mut obs: Vec<Obs> = Vec::new();
    let mut suspects: Vec<(usize, String)> = Vec::new();
    for (bi, br) in results.iter().enumerate() {
        for (ii, lines) in &br.results {
            let si = bi * per_batch + ii;
            for l in lines {
                if let Some(req) = l.strip_prefix("K ") {
                    requests.push(req.to_string());
                    req_of.push((si, usize::MAX));
                } else if let Some(rest) = l.strip_prefix("Q ") {
                    let (e, req) = rest.split_once(' ').unwrap_or(("0", ""));
                    requests.push(req.to_string());
                    req_of.push((si, e.parse().unwrap_or(0)));
                } else if let Some(rest) = l.strip_prefix("O ") {
                    let mut it = rest.splitn(4, ' ');
                    let e: usize = it.next().unwrap_or("0").parse().unwrap_or(0);
                    let r: usize = it.next().unwrap_or("0").parse().unwrap_or(0);
                    let stacks = it.next().unwrap_or("-").to_string();
                    let real = it.next().unwrap_or("").to_string();
                    obs.push(Obs { set: si, entry: e, run: r, real, stacks });
                } else if l.starts_with("adderr") {
                    report.count("sets.rejected_at_registration");
                    report.count(&format!("sets.rejected.{}", sets[si].stream.split('.').take(2).collect::<Vec<_>>().join(".")));
                    if report.notes.len() < 4 {
                        report.notes.push(format!("not registered: {}: {}", format!("{:?}", sets[si].templates).chars().take(300).collect::<String>(), l.chars().take(160).collect::<String>()));
                    }
                }
            }
        }
        for (ii, why) in &br.culprits {
            suspects.push((bi * per_batch + ii, why.clone()));
        }
        if br.abandoned > 0 {
            report.count_n("sets.abandoned_after_culprits", br.abandoned as u64);
        }
    }
    // a set that did not come back: confirm alone with a long cap before saying anything
    for (si, why) in suspects.iter().take(4) {
        let b = Batch { common: serde_json::json!({"limit_secs": 150}), items: vec![sets[*si].to_json()] };
        let r = run_batch(CHILD_FLAG, 100_000 + si, &b, Duration::from_secs(170), 0);
        if r.results.is_empty() {
            report.oracle_checks += 1;
            report.oracle_failures += 1;
            report.violation(
                oracle_kind("C07"),
                format!("rendering did not come back ({why}; confirmed alone with a 150 s cap): {:?}", sets[*si].templates),
                serde_json::json!({"property": property(), "case": sets[*si].to_json(), "detail": {"stage": "real-render", "why": why}}),
            );
        } else {
            report.count("sets.slow_under_load_only");
        }
    }

    // ---- direct oracle on the implementation's own results
    for o in &obs {
        report.evaluations += 1;
        report.oracle_checks += 1;
        let set = &sets[o.set];
        let bad_panic = o.real.starts_with("panic");
        let bad_stacks = o.real.starts_with("ok ") && o.stacks != "0,0,0";
        if bad_panic || bad_stacks {
            report.oracle_failures += 1;
            let what = if bad_panic { "the real render panicked" } else { "stacks not empty after a successful render" };
            if report.violations.len() < 20 {
                // keep only the templates the entry needs (same failure on the reduced set), then
                // drop context bindings that do not matter
                let small_set = reduce_templates(set, o.entry, &set.runs[o.run], &o.real);
                let mut run = set.runs[o.run].clone();
                let fails = |r: &Run| -> bool {
                    build_engine(&small_set).map(|mut t| real_outcome(&mut t, &small_set.entries[0], r).0.split(' ').next() == o.real.split(' ').next()).unwrap_or(false)
                };
                for which in 0..2 {
                    let n = if which == 0 { run.ctx.len() } else { run.global.len() };
                    for i in (0..n).rev() {
                        let mut cand = run.clone();
                        if which == 0 {
                            cand.ctx.remove(i);
                        } else {
                            cand.global.remove(i);
                        }
                        if bad_panic && fails(&cand) {
                            run = cand;
                        }
                    }
                }
                report.violation(
                    oracle_kind("C07"),
                    format!("{what}: {} stacks {} — {:?} (autoescape {}) entry {:?} ctx {:?}", show(&o.real), o.stacks, small_set.templates, small_set.ae, small_set.entries[0], run.ctx),
                    replay_json(&small_set, 0, &run, &o.real, "-", "real-render"),
                );
            }
        }
        report.count(&format!("real.{}", o.real.split(' ').take(if o.real.starts_with("err") { 2 } else { 1 }).collect::<Vec<_>>().join(".")));
        report.count(&format!("runs.{}", set.runs[o.run].kind));
        report.count(&format!("autoescape.{}", set.ae));
        report.count(if set.entries[o.entry].1.is_some() { "entry.render_block" } else { "entry.render" });
    }

    // ---- direct oracle of the family `directed.block_in_captures`: `render_block(t, "k")` (and "n")
    // gives, for a template `t` that is not the child, the text `render_block("d0", ..)` gives —
    // the captures that enclose the block in `t` must not swallow or change it (C04's render_block
    // clause / F4; independent of the model)
    {
        let mut by: BTreeMap<(usize, usize, usize), &str> = BTreeMap::new();
        for o in &obs {
            by.insert((o.set, o.entry, o.run), o.real.as_str());
        }
        let mut reported = 0;
        for (si, set) in sets.iter().enumerate() {
            if set.stream != "directed.block_in_captures" {
                continue;
            }
            for (ei, (tname, block)) in set.entries.iter().enumerate() {
                let Some(block) = block else { continue };
                if tname == "d0" || tname.ends_with("_child") {
                    continue;
                }
                let Some(reference) = set.entries.iter().position(|(t, b)| t == "d0" && b.as_deref() == Some(block.as_str())) else { continue };
                for ri in 0..set.runs.len() {
                    let (Some(want), Some(got)) = (by.get(&(si, reference, ri)), by.get(&(si, ei, ri))) else { continue };
                    report.oracle_checks += 1;
                    if want != got {
                        report.oracle_failures += 1;
                        if reported < 3 {
                            reported += 1;
                            let small = reduce_templates(set, ei, &set.runs[ri], got);
                            report.violation(
                                oracle_kind("C04"),
                                format!(
                                    "render_block(\"{tname}\", \"{block}\") depends on the captures that enclose the block: {} — the same block outside any capture (template d0) gives {} — template {:?} (autoescape {}) ctx {:?} [render_block must return the block's own text: F4 / C04's render_block clause]",
                                    show(got), show(want), small.templates, set.ae, set.runs[ri].ctx
                                ),
                                replay_json(&small, 0, &set.runs[ri], got, want, "real-render_block"),
                            );
                        }
                    }
                }
            }
        }
    }

    // ---- the model VM on the real listings
    let answers = match driver::run_batch_parallel(&exe, &requests, threads) {
        Ok(a) => a,
        Err(e) => {
            report.violation("model-mismatch", format!("model driver could not be run: {e}"), serde_json::json!({"detail": {"stage": "driver", "error": e}}));
            report.write(&out_path());
            cleanup();
            return;
        }
    };
    let mut model_of: BTreeMap<(usize, usize, usize), String> = BTreeMap::new();
    let mut checker_refusals: Vec<String> = Vec::new();
    let mut refused_sets: Vec<(usize, String)> = Vec::new();
    // set → (c01StaticCheck holds and no listing applies `safe`, which of < > " ' occur in WriteText text)
    let mut c01_of: BTreeMap<usize, (bool, String)> = BTreeMap::new();
    for (k, a) in answers.iter().enumerate() {
        let (si, ei) = req_of[k];
        if ei == usize::MAX && requests[k].starts_with("check01 ") {
            // `c01 <static> <uses safe> <chunks> <with body> <refused by bodyCheck> <literal specials>`:
            // statistics only, a refusal is not a violation (Model/VmBodyCheck.lean is conservative)
            let f: Vec<&str> = a.split(' ').collect();
            if f.len() == 7 && f[0] == "c01" {
                let num = |x: &str| x.parse::<u64>().unwrap_or(0);
                report.count(if f[1] == "t" { "c01static.sets_passing" } else { "c01static.sets_not_passing" });
                if f[2] == "t" {
                    report.count("c01static.sets_using_safe");
                }
                report.count_n("c01static.chunks_with_body_component", num(f[4]));
                report.count_n("c01static.chunks_refused_by_bodyCheck", num(f[5]));
                if num(f[5]) > 0 && report.notes.len() < 8 {
                    report.notes.push(format!("bodyCheck (Model/VmBodyCheck.lean) refused a real chunk (statistics, not a violation): {}", format!("{:?}", sets[si].templates).chars().take(300).collect::<String>()));
                }
                c01_of.insert(si, (f[1] == "t" && f[2] == "f", f[6].to_string()));
            } else {
                report.count("c01static.bad_answer");
            }
            continue;
        }
        if ei == usize::MAX && !a.starts_with("bad-request") {
            // translation validation: the verified checker on every real chunk of the set
            let mut it = a.split(' ');
            let verdict = it.next().unwrap_or("");
            let n: u64 = it.next().unwrap_or("0").parse().unwrap_or(0);
            report.count_n("checker.chunks", n);
            if verdict == "fail" {
                let bad: u64 = it.next().unwrap_or("0").parse().unwrap_or(0);
                report.count_n("checker.chunks_refused", bad);
                report.count("checker.sets_with_a_refused_chunk");
                let ids: Vec<&str> = it.collect();
                if checker_refusals.len() < 5 {
                    checker_refusals.push(format!("{:?} → {}", sets[si].templates, ids.join(" ")).chars().take(500).collect::<String>());
                }
                if refused_sets.len() < 3 {
                    refused_sets.push((si, ids.join(" ")));
                }
            } else {
                report.count("checker.sets_fully_accepted");
            }
            continue;
        }
        if a.starts_with("bad-request") {
            report.model_disagreements += 1;
            report.violation(
                "model-mismatch",
                format!("the model driver refused the environment of {:?}: {a}", sets[si].templates),
                serde_json::json!({"property": property(), "detail": {"stage": "vm-env-decode", "answer": a}, "case": sets[si].to_json()}),
            );
            continue;
        }
        for (ri, m) in a.split(';').enumerate() {
            model_of.insert((si, ei, ri), m.to_string());
        }
    }
    let mut mismatches: Vec<&Obs> = Vec::new();
    let mut nontrivial = std::collections::HashSet::new();
    let mut sample_count: BTreeMap<String, u64> = BTreeMap::new();
    // direct oracle of C01Vm_static_check on the REAL output (independent of the model's run): when
    // the listings pass c01StaticCheck, none applies `safe` and the context holds no pre-marked safe
    // string, every < > " ' of the real text occurs in WriteText text of the listings
    let mut c01_failures: Vec<(usize, usize, usize, char)> = Vec::new();
    for o in &obs {
        let Some((ok, lits)) = c01_of.get(&o.set) else { continue };
        let run = &sets[o.set].runs[o.run];
        let premarked = run.ctx.iter().chain(run.global.iter()).any(|(_, w)| w.contains("S:"));
        if !*ok || premarked {
            report.count("c01static.oracle_not_applicable");
            continue;
        }
        let Some(h) = o.real.strip_prefix("ok ") else { continue };
        let bytes = unhex(h).unwrap_or_default();
        report.oracle_checks += 1;
        report.count("c01static.oracle_checked_outputs");
        for (b, letter) in [(b'<', 'L'), (b'>', 'G'), (b'"', 'Q'), (b'\'', 'A')] {
            if bytes.contains(&b) && !lits.contains(letter) {
                report.oracle_failures += 1;
                c01_failures.push((o.set, o.entry, o.run, b as char));
                break;
            }
        }
    }
    for (si, ei, ri, ch) in c01_failures.iter().take(3) {
        let set = &sets[*si];
        let real = obs.iter().find(|o| o.set == *si && o.entry == *ei && o.run == *ri).map(|o| o.real.clone()).unwrap_or_default();
        report.violation(
            oracle_kind("C01"),
            format!("C01 (static hypotheses hold): the real output contains {ch:?} which no WriteText of the listings contains — {:?} entry {:?} ctx {:?}: {}", set.templates, set.entries[*ei], set.runs[*ri].ctx, show(&real)),
            replay_json(set, *ei, &set.runs[*ri], &real, "-", "c01-static-oracle"),
        );
    }
    for o in &obs {
        let Some(m) = model_of.get(&(o.set, o.entry, o.run)) else { continue };
        if !comparable(m) {
            let what = m.split(' ').nth(1).unwrap_or(m);
            report.count(&format!("unmodelled.{what}"));
            report.count("compare.skipped_unmodelled");
            continue;
        }
        report.model_comparisons += 1;
        report.count("compare.modelled");
        nontrivial.insert((o.set, o.entry, o.run));
        if agree(&o.real, m) {
            if m.starts_with("ok") && sets[o.set].ae == "on" && (m.contains("266c743b") || m.contains("26616d703b") || m.contains("2671756f743b") || m.contains("262333393b")) {
                report.count("compare.agree_with_escaped_output");
            }
            let stream_key = format!("sampled.{}", sets[o.set].stream.split('.').take(2).collect::<Vec<_>>().join("."));
            if report.samples.len() < 12 && sample_count.get(&stream_key).copied().unwrap_or(0) < 3 && (o.run % 5 == 1 || o.real.starts_with("err") && o.run % 7 == 2) {
                *sample_count.entry(stream_key).or_insert(0) += 1;
                let set = &sets[o.set];
                report.sample(serde_json::json!({"templates": set.templates, "autoescape": set.ae, "entry": set.entries[o.entry], "ctx": set.runs[o.run].ctx, "real": show(&o.real), "model": show(m)}));
            }
        } else {
            report.model_disagreements += 1;
            mismatches.push(o);
        }
    }
    report.distinct_nontrivial = nontrivial.len() as u64;
    for (k, v) in ev_hist.iter() {
        report.count_n(&format!("evgen.{k}"), *v);
    }
    // ---- disagreements: shrink the context, look for a property failure around the case
    for o in mismatches.iter().take(6) {
        let set = &sets[o.set];
        let m = model_of.get(&(o.set, o.entry, o.run)).cloned().unwrap_or_default();
        let small = shrink_run(set, o.entry, &set.runs[o.run], &exe);
        let (real_s, model_s) = match eval_one(set, o.entry, &small, &exe) {
            Ok((r, mo, _)) if comparable(&mo) && !agree(&r, &mo) => (r, mo),
            _ => (o.real.clone(), m.clone()),
        };
        // targeted burst: many adversarial contexts on this set, direct oracle only
        let mut burst = set.clone();
        burst.entries = vec![set.entries[o.entry].clone()];
        burst.runs = (0..200)
            .map(|_| Run { ctx: set.runs[o.run].ctx.iter().map(|(k, w)| (k.clone(), if rng.chance(1, 2) { adv_value(&mut rng) } else { w.clone() })).collect(), global: vec![], kind: "adversarial" })
            .collect();
        let b = Batch { common: serde_json::json!({}), items: vec![burst.to_json()] };
        let r = run_batch(CHILD_FLAG, 200_000 + o.set, &b, Duration::from_secs(120), 0);
        let mut found = false;
        for (_, lines) in &r.results {
            for l in lines {
                if let Some(rest) = l.strip_prefix("O ") {
                    let mut it = rest.splitn(4, ' ');
                    let _ = it.next();
                    let ri: usize = it.next().unwrap_or("0").parse().unwrap_or(0);
                    let stacks = it.next().unwrap_or("-");
                    let real = it.next().unwrap_or("");
                    report.oracle_checks += 1;
                    if real.starts_with("panic") || (real.starts_with("ok ") && stacks != "0,0,0") {
                        report.oracle_failures += 1;
                        if !found {
                            found = true;
                            report.violation(oracle_kind("C07"), format!("the real render panicked / left stacks: {} — {:?}", show(real), set.templates), replay_json(&burst, 0, &burst.runs[ri], real, "-", "real-render"));
                        }
                    }
                }
            }
        }
        if !found {
            report.violation(
                "model-mismatch",
                format!("model VM and real VM disagree on {:?} (autoescape {}) entry {:?} ctx {:?} global {:?}: real {} / model {}", set.templates, set.ae, set.entries[o.entry], small.ctx, small.global, show(&real_s), show(&model_s)),
                replay_json(set, o.entry, &small, &real_s, &model_s, "vm-model"),
            );
        }
    }
    for r in checker_refusals {
        report.notes.push(format!("checker (Model/VmCheck.lean) refused a real chunk: {r}"));
    }
    // a real chunk the verified checker refuses: `vm_no_panic_wellformed` no longer applies to what
    // the compiler emitted (the directed families above look for the input on which it panics)
    for (si, ids) in refused_sets {
        report.model_disagreements += 1;
        report.violation(
            "model-mismatch",
            format!("the verified bytecode checker (Model/VmCheck.lean `checkChunk`) refuses a chunk the real compiler stored: {ids} — {}", format!("{:?}", sets[si].templates).chars().take(400).collect::<String>()),
            serde_json::json!({"property": property(), "harness_bin": "cvm", "detail": {"stage": "vm-checker", "chunks": ids}, "case": sets[si].to_json()}),
        );
    }
    let cmp = report.model_comparisons.max(1);
    let total = (report.model_comparisons + report.histogram.get("compare.skipped_unmodelled").copied().unwrap_or(0)).max(1);
    report.notes.push(format!(
        "fully modelled: {} of {} (entry, context) cases = {:.1} %; disagreements {}; wall {:.1} s",
        report.model_comparisons,
        total,
        100.0 * report.model_comparisons as f64 / total as f64,
        report.model_disagreements,
        t0.elapsed().as_secs_f64()
    ));
    let _ = cmp;
    report.write(&out_path());
    cleanup();
}
