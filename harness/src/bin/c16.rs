//! C16 — collection filters keep their contracts (sort, unique, group_by, first, last, nth,
//! length, reverse, keys, values, pairs, join, split).
//!
//! Every generated case (filter, operand, argument) is
//!  * rendered through the real engine (`{{ v | FILTER(...) | probe }}`, operands passed through the
//!    context, the filter's result captured by the `probe` filter registered here),
//!  * sent to the Lean model (`drv_c16`) and the canonicalised answers are compared (correspondence),
//!  * judged by a contract oracle written here that only uses the public `Ord`/`PartialEq` of
//!    `tera::Value` and the bit-exact wire encoding (the property itself, independent of the model).
use serde_json::json;
use std::cell::RefCell;
use std::cmp::Ordering;
use std::collections::hash_map::DefaultHasher;
use std::collections::HashSet;
use std::hash::{Hash, Hasher};
use std::sync::atomic::{AtomicUsize, Ordering as AtomicOrdering};
use tera::value::ValueKind;
use tera::{Context, Kwargs, Map, State, Tera, Value};
use tera_verif_harness::report::{out_path, replay_path, Report};
use tera_verif_harness::rng::Rng;
use tera_verif_harness::wire::{decode, encode, hex, unhex, value_to_key};
use tera_verif_harness::{catch, driver, quiet_panics, Env};

thread_local! {
    static PROBE: RefCell<Option<Value>> = const { RefCell::new(None) };
}

/// (name of the case kind = name of the driver request, template source)
const TEMPLATES: [(&str, &str); 14] = [
    ("sort", "{{ v | sort | probe }}"),
    ("sortattr", "{{ v | sort(attribute=arg) | probe }}"),
    ("unique", "{{ v | unique | probe }}"),
    ("groupby", "{{ v | group_by(attribute=arg) | probe }}"),
    ("first", "{{ v | first | probe }}"),
    ("last", "{{ v | last | probe }}"),
    ("nth", "{{ v | nth(n=arg) | probe }}"),
    ("length", "{{ v | length | probe }}"),
    ("reverse", "{{ v | reverse | probe }}"),
    ("keys", "{{ v | keys | probe }}"),
    ("values", "{{ v | values | probe }}"),
    ("pairs", "{{ v | pairs | probe }}"),
    ("join", "{{ v | join(sep=arg) | probe }}"),
    ("split", "{{ v | split(pat=arg) | probe }}"),
];

fn filter_name(s: &str) -> Option<&'static str> {
    TEMPLATES.iter().map(|t| t.0).find(|n| *n == s)
}

fn engine() -> Tera {
    let mut tera = Tera::default();
    tera.register_filter("probe", |v: Value, _: Kwargs, _: &State| {
        PROBE.with(|p| *p.borrow_mut() = Some(v.clone()));
        v
    });
    let tpls: Vec<(String, String)> = TEMPLATES.iter().map(|(n, s)| (n.to_string(), s.to_string())).collect();
    tera.add_raw_templates(tpls).expect("probe templates");
    tera
}

// ---------------------------------------------------------------- cases

#[derive(Clone, Debug, PartialEq)]
enum Arg {
    None,
    Str(String),
    N(u64),
}

#[derive(Clone)]
struct Case {
    filter: &'static str,
    v: Value,
    arg: Arg,
}

impl Case {
    fn new(filter: &'static str, v: Value, arg: Arg) -> Self {
        Case { filter, v, arg }
    }
    fn request(&self) -> String {
        let mut s = format!("{} {}", self.filter, encode(&self.v));
        match &self.arg {
            Arg::None => {}
            Arg::Str(a) => {
                s.push_str(" s:");
                s.push_str(&hex(a.as_bytes()));
            }
            Arg::N(n) => s.push_str(&format!(" {n}")),
        }
        s
    }
    fn replay(&self) -> serde_json::Value {
        let arg = match &self.arg {
            Arg::None => json!({"kind": "none"}),
            Arg::Str(a) => json!({"kind": "str", "hex": hex(a.as_bytes()), "text": a}),
            Arg::N(n) => json!({"kind": "n", "n": n.to_string()}),
        };
        let display: String = format!("{}", self.v).chars().take(400).collect();
        json!({
            "filter": self.filter,
            "template": TEMPLATES.iter().find(|t| t.0 == self.filter).map(|t| t.1),
            "value": encode(&self.v),
            "value_display": display,
            "arg": arg,
            "request": self.request(),
            "rerun": "harness/target/release/c16 --replay <this file>",
        })
    }
    fn from_replay(j: &serde_json::Value) -> Option<Case> {
        let filter = filter_name(j["filter"].as_str()?)?;
        let v = decode(j["value"].as_str()?)?;
        let arg = match j["arg"]["kind"].as_str()? {
            "none" => Arg::None,
            "str" => Arg::Str(String::from_utf8(unhex(j["arg"]["hex"].as_str()?)?).ok()?),
            "n" => Arg::N(j["arg"]["n"].as_str()?.parse().ok()?),
            _ => return None,
        };
        Some(Case { filter, v, arg })
    }
}

/// What the engine did with a case.
#[derive(Clone)]
enum Out {
    Ok(Value),
    /// error class, full message
    Err(&'static str, String),
    Panic(String),
    NoProbe,
}

impl Out {
    fn class(&self) -> String {
        match self {
            Out::Ok(_) => "ok".into(),
            Out::Err(c, _) => format!("err {c}"),
            Out::Panic(_) => "panic".into(),
            Out::NoProbe => "noprobe".into(),
        }
    }
    fn err_class(&self) -> Option<&'static str> {
        match self {
            Out::Err(c, _) => Some(c),
            _ => None,
        }
    }
    fn describe(&self) -> String {
        match self {
            Out::Ok(v) => format!("ok {}", clip(&encode(v), 300)),
            Out::Err(c, m) => format!("err {c} ({})", clip(m, 160)),
            Out::Panic(m) => format!("panic {}", clip(m, 300)),
            Out::NoProbe => "noprobe".into(),
        }
    }
}

fn clip(s: &str, n: usize) -> String {
    if s.chars().count() <= n { s.to_string() } else { format!("{}…", s.chars().take(n).collect::<String>()) }
}

/// Error classes, by the fixed part of the message (filters.rs, value/mod.rs, errors.rs).
fn classify_err(msg: &str) -> &'static str {
    if msg.starts_with("Cannot sort:") && msg.ends_with("are not comparable") {
        "comparable"
    } else if msg.starts_with("Invalid type for the value, expected") {
        "arg"
    } else if msg == "Not a valid key type" {
        "key"
    } else if msg.starts_with("Value of type ") && (msg.ends_with(" has no length") || msg.ends_with(" cannot be reversed")) {
        "kind"
    } else if msg.starts_with("Value ") && msg.contains(" does not have an attribute after following path: ") {
        "attr"
    } else {
        "other"
    }
}

/// Deep copy in which every map is a SEPARATELY BUILT table (fresh `Map::new()`, entries inserted
/// one by one): a `clone()` shares the table layout of its source, so equal maps made by cloning
/// always iterate alike, which real inputs (two template literals, two serialized values) do not.
fn rebuild(v: &Value) -> Value {
    match v.kind() {
        ValueKind::Array => Value::from(v.as_array().unwrap().iter().map(rebuild).collect::<Vec<Value>>()),
        ValueKind::Map => {
            let mut m = Map::new();
            for (k, x) in v.as_map().unwrap().iter() {
                m.insert(k.clone(), rebuild(x));
            }
            Value::from(m)
        }
        _ => v.clone(),
    }
}

fn run(tera: &Tera, c: &Case) -> Out {
    let mut ctx = Context::new();
    ctx.insert_value("v", rebuild(&c.v));
    match &c.arg {
        Arg::None => {}
        Arg::Str(s) => ctx.insert_value("arg", Value::normal_string(s)),
        Arg::N(n) => ctx.insert_value("arg", Value::from(*n)),
    }
    PROBE.with(|p| *p.borrow_mut() = None);
    let res = catch(std::panic::AssertUnwindSafe(|| tera.render(c.filter, &ctx)));
    let probed = PROBE.with(|p| p.borrow_mut().take());
    match res {
        Err(p) => Out::Panic(p),
        Ok(Ok(_)) => match probed {
            Some(v) => Out::Ok(v),
            None => Out::NoProbe,
        },
        Ok(Err(e)) => {
            // the filter answered and the probe saw its result: a later error is about printing
            // the value (e.g. an undefined element), not about the filter
            if let Some(v) = probed {
                return Out::Ok(v);
            }
            let msg = match e.kind() {
                tera::ErrorKind::RenderingError(r) => r.message().to_string(),
                _ => e.to_string(),
            };
            Out::Err(classify_err(&msg), msg)
        }
    }
}

/// The engine's answer in the vocabulary of the model driver.
fn canon(filter: &str, out: &Out) -> String {
    match out {
        Out::Ok(v) => match filter {
            "length" => {
                if v.is_f64() {
                    format!("ok ?{}", encode(v))
                } else if let Some(u) = v.as_u128() {
                    format!("ok {u}")
                } else if let Some(i) = v.as_i128() {
                    format!("ok {i}")
                } else {
                    format!("ok ?{}", encode(v))
                }
            }
            "join" => match v.as_str() {
                Some(s) => format!("ok s:{}", hex(s.as_bytes())),
                None => format!("ok ?{}", encode(v)),
            },
            _ => format!("ok {}", encode(v)),
        },
        Out::Err(c, _) => format!("err {c}"),
        Out::Panic(m) => format!("panic {m}"),
        Out::NoProbe => "noprobe".into(),
    }
}

// ---------------------------------------------------------------- the contract oracle

fn is_none(v: &Value) -> bool {
    v.kind() == ValueKind::None
}

/// Own path walker (what "the attribute of an element" means): undefined has no attribute, none
/// answers none, then one step per dot-separated component: a component that reads as an index
/// (`str::parse::<usize>`) selects from an array, any other component is looked up among the
/// string keys of a map by text.
fn walk(v: &Value, path: &str) -> Option<Value> {
    match v.kind() {
        ValueKind::Undefined => return None,
        ValueKind::None => return Some(v.clone()),
        _ => {}
    }
    let mut cur = v.clone();
    for elem in path.split('.') {
        let next = if let Ok(idx) = elem.parse::<usize>() {
            cur.as_array()?.get(idx)?.clone()
        } else {
            let m = cur.as_map()?;
            let mut found = None;
            for (k, x) in m.iter() {
                if k.as_str() == Some(elem) {
                    found = Some(x.clone());
                    break;
                }
            }
            found?
        };
        cur = next;
    }
    Some(cur)
}

fn ok_array<'a>(out: &'a Out) -> Result<&'a [Value], String> {
    match out {
        Out::Ok(v) => v.as_array().ok_or_else(|| format!("result is not an array: {}", out.describe())),
        _ => Err(format!("expected an array result, engine: {}", out.describe())),
    }
}

fn must_refuse_non(kind: &str, out: &Out) -> Option<String> {
    match out {
        Out::Err(..) => None,
        _ => Some(format!("input is not {kind} but the engine answered {}", out.describe())),
    }
}

fn check_sort(c: &Case, out: &Out) -> Option<String> {
    let path = match (&c.arg, c.filter) {
        (Arg::Str(p), "sortattr") => Some(p.as_str()),
        _ => None,
    };
    let Some(xs) = c.v.as_array() else { return must_refuse_non("an array", out) };
    let n = xs.len();
    if n == 0 {
        return match ok_array(out) {
            Ok(a) if a.is_empty() => None,
            Ok(_) => Some(format!("sort of [] is not []: {}", out.describe())),
            Err(e) => Some(e),
        };
    }
    let keys: Vec<Option<Value>> = xs.iter().map(|x| match path { None => Some(x.clone()), Some(p) => walk(x, p) }).collect();
    let missing = keys.iter().position(|k| k.is_none());
    if let Some(i) = missing {
        return (out.err_class() != Some("attr"))
            .then(|| format!("element {i} has no attribute `{}` but the engine answered {}", path.unwrap_or(""), out.describe()));
    }
    if out.err_class() == Some("attr") {
        return Some(format!("every element has the attribute `{}` but the engine answered {}", path.unwrap_or(""), out.describe()));
    }
    let keys: Vec<Value> = keys.into_iter().map(|k| k.unwrap()).collect();
    let nn: Vec<&Value> = keys.iter().filter(|k| !is_none(k)).collect();
    let mut inc: Option<(usize, usize)> = None;
    'outer: for i in 0..nn.len() {
        for j in i + 1..nn.len() {
            if nn[i].partial_cmp(nn[j]).is_none() {
                inc = Some((i, j));
                break 'outer;
            }
        }
    }
    let no_arrays = nn.iter().all(|k| k.kind() != ValueKind::Array);
    match out {
        Out::Err("comparable", _) => {
            if inc.is_none() {
                return Some("refused as not comparable although all non-none keys are pairwise comparable".into());
            }
            None
        }
        Out::Ok(res) => {
            if let (Some((i, j)), true) = (inc, no_arrays) {
                return Some(format!(
                    "keys `{}` and `{}` are not comparable but sort answered {}",
                    clip(&encode(nn[i]), 80),
                    clip(&encode(nn[j]), 80),
                    out.describe()
                ));
            }
            let Some(res) = res.as_array() else { return Some(format!("result is not an array: {}", out.describe())) };
            if res.len() != n {
                return Some(format!("{} elements in, {} out", n, res.len()));
            }
            let in_enc: Vec<String> = xs.iter().map(encode).collect();
            let out_enc: Vec<String> = res.iter().map(encode).collect();
            let mut a = in_enc.clone();
            let mut b = out_enc.clone();
            a.sort();
            b.sort();
            if a != b {
                return Some("output is not a permutation of the input".into());
            }
            let mut okeys: Vec<Value> = Vec::with_capacity(n);
            for x in res {
                match path {
                    None => okeys.push(x.clone()),
                    Some(p) => match walk(x, p) {
                        Some(k) => okeys.push(k),
                        None => return Some("an output element lacks the attribute".into()),
                    },
                }
            }
            for i in 0..n - 1 {
                if okeys[i].cmp(&okeys[i + 1]) == Ordering::Greater {
                    return Some(format!(
                        "output not sorted: key {} `{}` > key {} `{}`",
                        i,
                        clip(&encode(&okeys[i]), 80),
                        i + 1,
                        clip(&encode(&okeys[i + 1]), 80)
                    ));
                }
            }
            // accepted, so in the sorted order every non-none key compares with the next non-none
            // key (this is what is left of the refusal clause for nested-array keys)
            let nn_out: Vec<&Value> = okeys.iter().filter(|k| !is_none(k)).collect();
            for w in nn_out.windows(2) {
                if w[0].partial_cmp(w[1]).is_none() {
                    return Some(format!(
                        "accepted although the neighbouring keys `{}` and `{}` of the sorted order are not comparable",
                        clip(&encode(w[0]), 80),
                        clip(&encode(w[1]), 80)
                    ));
                }
            }
            // stable: every run of equal keys lists the input elements with that key in input order
            let mut i = 0;
            while i < n {
                let mut j = i + 1;
                while j < n && okeys[j - 1].cmp(&okeys[j]) == Ordering::Equal {
                    j += 1;
                }
                if !(n > 600 && j == i + 1) {
                    let expected: Vec<&String> = (0..n).filter(|&t| keys[t].cmp(&okeys[i]) == Ordering::Equal).map(|t| &in_enc[t]).collect();
                    let got: Vec<&String> = out_enc[i..j].iter().collect();
                    if expected != got {
                        return Some(format!(
                            "not stable: the run of key `{}` at output {}..{} does not list the input elements with that key in input order",
                            clip(&encode(&okeys[i]), 80),
                            i,
                            j
                        ));
                    }
                }
                i = j;
            }
            None
        }
        _ => Some(format!("unexpected outcome of sort: {}", out.describe())),
    }
}

fn check_unique(c: &Case, out: &Out) -> Option<String> {
    let Some(xs) = c.v.as_array() else { return must_refuse_non("an array", out) };
    let res = match ok_array(out) {
        Ok(r) => r,
        Err(e) => return Some(e),
    };
    // reference: first occurrences of the classes of ==
    let mut reps: Vec<usize> = Vec::new();
    for (i, x) in xs.iter().enumerate() {
        if !reps.iter().any(|&r| xs[r] == *x) {
            reps.push(i);
        }
    }
    // every input element is == to exactly one output element
    for (i, x) in xs.iter().enumerate() {
        let cnt = res.iter().filter(|o| *o == x).count();
        if cnt == 0 {
            return Some(format!("input element {i} `{}` is == to no output element (dropped)", clip(&encode(x), 80)));
        }
        if cnt > 1 {
            return Some(format!("input element {i} `{}` is == to {cnt} output elements (duplicates kept)", clip(&encode(x), 80)));
        }
    }
    for i in 0..res.len() {
        for j in i + 1..res.len() {
            if res[i] == res[j] {
                return Some(format!("output elements {i} and {j} are == (`{}`, `{}`)", clip(&encode(&res[i]), 80), clip(&encode(&res[j]), 80)));
            }
        }
    }
    if res.len() != reps.len() {
        return Some(format!("{} classes of == in the input, {} output elements", reps.len(), res.len()));
    }
    for (t, &r) in reps.iter().enumerate() {
        if encode(&res[t]) != encode(&xs[r]) {
            return Some(format!(
                "output {t} is `{}`, the first occurrence of its class is input {r} `{}`",
                clip(&encode(&res[t]), 80),
                clip(&encode(&xs[r]), 80)
            ));
        }
    }
    None
}

fn is_key_kind(v: &Value) -> bool {
    matches!(v.kind(), ValueKind::Bool | ValueKind::U64 | ValueKind::I64 | ValueKind::U128 | ValueKind::I128 | ValueKind::String)
}

fn check_groupby(c: &Case, out: &Out) -> Option<String> {
    let Arg::Str(path) = &c.arg else { return None };
    let Some(xs) = c.v.as_array() else { return must_refuse_non("an array", out) };
    if xs.is_empty() {
        return match out {
            Out::Ok(v) if v.as_map().is_some_and(|m| m.is_empty()) => None,
            _ => Some(format!("group_by of [] is not an empty map: {}", out.describe())),
        };
    }
    let attrs: Vec<Option<Value>> = xs.iter().map(|x| walk(x, path)).collect();
    let any_missing = attrs.iter().any(|a| a.is_none());
    let any_badkey = attrs.iter().any(|a| a.as_ref().is_some_and(|a| !is_none(a) && !is_key_kind(a)));
    match out {
        Out::Err("attr", _) => (!any_missing).then(|| "refused for a missing attribute although every element has it".into()),
        Out::Err("key", _) => (!any_badkey).then(|| "refused for a key type although every attribute is a bool, integer, string or none".into()),
        Out::Ok(res) => {
            if any_missing || any_badkey {
                return Some(format!(
                    "an element {} but the engine answered {}",
                    if any_missing { "lacks the attribute" } else { "has an attribute that cannot be a key" },
                    out.describe()
                ));
            }
            let Some(m) = res.as_map() else { return Some(format!("result is not a map: {}", out.describe())) };
            let in_enc: Vec<String> = xs.iter().map(encode).collect();
            let groups: Vec<(Value, &Value)> = m.iter().map(|(k, g)| (k.as_value(), g)).collect();
            let mut members = 0usize;
            for (kv, g) in &groups {
                let Some(g) = g.as_array() else { return Some(format!("group `{}` is not an array", encode(kv))) };
                if g.is_empty() {
                    return Some(format!("group `{}` is empty", encode(kv)));
                }
                members += g.len();
                let expected: Vec<&String> =
                    (0..xs.len()).filter(|&t| attrs[t].as_ref().is_some_and(|a| !is_none(a) && a == kv)).map(|t| &in_enc[t]).collect();
                let got: Vec<String> = g.iter().map(encode).collect();
                if expected.len() != got.len() || expected.iter().zip(got.iter()).any(|(a, b)| *a != b) {
                    return Some(format!(
                        "group `{}` does not list, in input order, exactly the elements whose attribute equals the key ({} expected, {} found)",
                        clip(&encode(kv), 80),
                        expected.len(),
                        got.len()
                    ));
                }
            }
            let mut eligible = 0usize;
            for (t, a) in attrs.iter().enumerate() {
                let a = a.as_ref().unwrap();
                if is_none(a) {
                    continue;
                }
                eligible += 1;
                let cnt = groups.iter().filter(|(kv, _)| kv == a).count();
                if cnt != 1 {
                    return Some(format!("input element {t} (attribute `{}`) matches {cnt} group keys", clip(&encode(a), 80)));
                }
            }
            if eligible != members {
                return Some(format!("{eligible} elements have a non-none attribute, the groups hold {members}"));
            }
            None
        }
        _ => Some(format!("unexpected outcome of group_by: {}", out.describe())),
    }
}

fn sub(tera: &Tera, filter: &'static str, v: &Value, arg: Arg) -> Out {
    run(tera, &Case::new(filter, v.clone(), arg))
}

fn same(a: &Out, b: &Value) -> bool {
    matches!(a, Out::Ok(x) if encode(x) == encode(b))
}

fn length_of(tera: &Tera, v: &Value) -> Option<u128> {
    match sub(tera, "length", v, Arg::None) {
        Out::Ok(l) if !l.is_f64() => l.as_u128(),
        _ => None,
    }
}

fn check_access(tera: &Tera, c: &Case, out: &Out) -> Option<String> {
    let Some(xs) = c.v.as_array() else { return must_refuse_non("an array", out) };
    let n = xs.len();
    let Out::Ok(res) = out else { return Some(format!("unexpected outcome of {}: {}", c.filter, out.describe())) };
    let want: Value = match (c.filter, &c.arg) {
        ("first", _) => xs.first().cloned().unwrap_or(Value::none()),
        ("last", _) => xs.last().cloned().unwrap_or(Value::none()),
        ("nth", Arg::N(k)) => usize::try_from(*k).ok().and_then(|k| xs.get(k)).cloned().unwrap_or(Value::none()),
        _ => return None,
    };
    if encode(res) != encode(&want) {
        return Some(format!("{} answered `{}`, the element there is `{}`", c.filter, clip(&encode(res), 80), clip(&encode(&want), 80)));
    }
    // agreement between the filters, on the engine's own answers
    match c.filter {
        "first" => {
            let nth0 = sub(tera, "nth", &c.v, Arg::N(0));
            if !same(&nth0, res) {
                return Some(format!("first `{}` differs from nth(0) {}", clip(&encode(res), 80), nth0.describe()));
            }
            // first(reverse(x)) == last(x)
            if let Out::Ok(r) = sub(tera, "reverse", &c.v, Arg::None) {
                let fr = sub(tera, "first", &r, Arg::None);
                let l = sub(tera, "last", &c.v, Arg::None);
                match (&fr, &l) {
                    (Out::Ok(a), Out::Ok(b)) if encode(a) == encode(b) => {}
                    _ => return Some(format!("first(reverse(x)) {} differs from last(x) {}", fr.describe(), l.describe())),
                }
            } else {
                return Some("reverse refused an array".into());
            }
        }
        "last" => {
            if n > 0 {
                let nthl = sub(tera, "nth", &c.v, Arg::N(n as u64 - 1));
                if !same(&nthl, res) {
                    return Some(format!("last `{}` differs from nth(len-1) {}", clip(&encode(res), 80), nthl.describe()));
                }
            } else if !is_none(res) {
                return Some("last of [] is not none".into());
            }
        }
        "nth" => {
            if let Arg::N(k) = c.arg {
                if k as u128 >= n as u128 && !is_none(res) {
                    return Some(format!("nth({k}) of {n} elements is not none"));
                }
                if length_of(tera, &c.v) != Some(n as u128) {
                    return Some("length disagrees with the number of elements".into());
                }
            }
        }
        _ => {}
    }
    None
}

fn check_length(c: &Case, out: &Out) -> Option<String> {
    let want: Option<u128> = match c.v.kind() {
        ValueKind::Array => Some(c.v.as_array().unwrap().len() as u128),
        ValueKind::String => Some(c.v.as_str().unwrap().chars().count() as u128),
        ValueKind::Map => Some(c.v.as_map().unwrap().len() as u128),
        ValueKind::Bytes => Some(c.v.as_bytes().unwrap().len() as u128),
        _ => None,
    };
    match (want, out) {
        (Some(w), Out::Ok(l)) if !l.is_f64() && l.as_u128() == Some(w) => None,
        (Some(w), _) => Some(format!("length must be {w}, engine: {}", out.describe())),
        (None, Out::Err(..)) => None,
        (None, _) => Some(format!("a value without a length was given one: {}", out.describe())),
    }
}

fn check_reverse(tera: &Tera, c: &Case, out: &Out) -> Option<String> {
    match c.v.kind() {
        ValueKind::Array | ValueKind::String | ValueKind::Bytes => {}
        _ => return must_refuse_non("an array, string or bytes", out),
    }
    let Out::Ok(r) = out else { return Some(format!("unexpected outcome of reverse: {}", out.describe())) };
    let rr = sub(tera, "reverse", r, Arg::None);
    let Out::Ok(rr) = rr else { return Some(format!("reverse of a reversed value failed: {}", rr.describe())) };
    match c.v.kind() {
        ValueKind::Array => {
            let xs = c.v.as_array().unwrap();
            let Some(ra) = r.as_array() else { return Some(format!("reverse of an array is not an array: {}", out.describe())) };
            if ra.len() != xs.len() || ra.iter().zip(xs.iter().rev()).any(|(a, b)| encode(a) != encode(b)) {
                return Some("reverse of an array is not the elements in opposite order".into());
            }
            if encode(&rr) != encode(&c.v) {
                return Some(format!("reverse(reverse(x)) `{}` differs from x", clip(&encode(&rr), 120)));
            }
        }
        ValueKind::String => {
            // the engine answers a normal string (the safe mark is dropped): text only
            let want: String = c.v.as_str().unwrap().chars().rev().collect();
            if r.as_str() != Some(want.as_str()) {
                return Some(format!("reverse of a string is `{}`, its characters in opposite order are `{}`", clip(&encode(r), 120), clip(&want, 60)));
            }
            if rr.as_str() != c.v.as_str() {
                return Some(format!("reverse(reverse(s)) `{}` differs from s", clip(&encode(&rr), 120)));
            }
        }
        _ => {
            // bytes receivers are outside the property's quantifier (observation O12: the engine
            // answers an array of integers); only the model comparison and the length law apply
        }
    }
    let (l0, l1) = (length_of(tera, &c.v), length_of(tera, r));
    if l0.is_none() || l0 != l1 {
        return Some(format!("length(reverse(x)) = {l1:?} but length(x) = {l0:?}"));
    }
    None
}

fn check_map_views(tera: &Tera, c: &Case, out: &Out) -> Option<String> {
    let Some(m) = c.v.as_map() else { return must_refuse_non("a map", out) };
    if let Err(e) = ok_array(out) {
        return Some(e);
    }
    let (k, v, p) = (sub(tera, "keys", &c.v, Arg::None), sub(tera, "values", &c.v, Arg::None), sub(tera, "pairs", &c.v, Arg::None));
    let (Ok(k), Ok(v), Ok(p)) = (ok_array(&k), ok_array(&v), ok_array(&p)) else {
        return Some("keys, values or pairs did not answer an array for a map".into());
    };
    let own = match c.filter {
        "keys" => k,
        "values" => v,
        _ => p,
    };
    if encode(&Value::from(own.to_vec())) != canon(c.filter, out)[3..] {
        return Some(format!("{} answered differently on the same map twice", c.filter));
    }
    if k.len() != m.len() || v.len() != m.len() || p.len() != m.len() {
        return Some(format!("map has {} entries; keys {}, values {}, pairs {}", m.len(), k.len(), v.len(), p.len()));
    }
    for i in 0..k.len() {
        let want = Value::from(vec![k[i].clone(), v[i].clone()]);
        if encode(&p[i]) != encode(&want) {
            return Some(format!("pairs[{i}] `{}` is not [keys[{i}], values[{i}]]", clip(&encode(&p[i]), 100)));
        }
        let Some(key) = value_to_key(&k[i]) else { return Some(format!("keys[{i}] `{}` is not a key", encode(&k[i]))) };
        if i + 1 < k.len() {
            let Some(next) = value_to_key(&k[i + 1]) else { return Some(format!("keys[{}] is not a key", i + 1)) };
            if key.cmp(&next) != Ordering::Less {
                return Some(format!("keys not strictly increasing at {i}: `{}` then `{}`", encode(&k[i]), encode(&k[i + 1])));
            }
        }
        let hits: Vec<&Value> = m.iter().filter(|(mk, _)| **mk == key).map(|(_, x)| x).collect();
        if hits.len() != 1 || encode(hits[0]) != encode(&v[i]) {
            return Some(format!("keys[{i}] `{}` with values[{i}] is not an entry of the map", encode(&k[i])));
        }
    }
    None
}

/// number of leftmost non-overlapping occurrences of a non-empty `pat` in `s` (own byte scanner)
fn count_matches(s: &str, pat: &str) -> usize {
    let (s, p) = (s.as_bytes(), pat.as_bytes());
    let mut i = 0;
    let mut cnt = 0;
    while i + p.len() <= s.len() {
        if &s[i..i + p.len()] == p {
            cnt += 1;
            i += p.len();
        } else {
            i += 1;
        }
    }
    cnt
}

fn check_split(tera: &Tera, c: &Case, out: &Out) -> Option<String> {
    let Arg::Str(pat) = &c.arg else { return None };
    let Some(s) = c.v.as_str() else { return must_refuse_non("a string", out) };
    let parts = match ok_array(out) {
        Ok(p) => p,
        Err(e) => return Some(e),
    };
    if parts.iter().any(|p| p.as_str().is_none()) {
        return Some("split produced a non-string".into());
    }
    let Out::Ok(whole) = out else { return None };
    let back = sub(tera, "join", whole, Arg::Str(pat.clone()));
    match &back {
        Out::Ok(j) if j.as_str() == Some(s) => {}
        _ => return Some(format!("join(split(s, pat), pat) is {} instead of s", back.describe())),
    }
    if !pat.is_empty() {
        let want = 1 + count_matches(s, pat);
        if parts.len() != want {
            return Some(format!("{} pieces for {} non-overlapping matches", parts.len(), want - 1));
        }
        if length_of(tera, whole) != Some(want as u128) {
            return Some("length(split(s, pat)) disagrees with the number of pieces".into());
        }
    }
    None
}

fn check_join(c: &Case, out: &Out) -> Option<String> {
    let Arg::Str(sep) = &c.arg else { return None };
    let Some(xs) = c.v.as_array() else { return must_refuse_non("an array", out) };
    let Out::Ok(j) = out else { return Some(format!("unexpected outcome of join: {}", out.describe())) };
    let Some(j) = j.as_str() else { return Some("join did not answer a string".into()) };
    if xs.iter().all(|x| x.as_str().is_some()) {
        let mut want = String::new();
        for (i, x) in xs.iter().enumerate() {
            if i > 0 {
                want.push_str(sep);
            }
            want.push_str(x.as_str().unwrap());
        }
        if want != j {
            return Some(format!("join of strings is `{}`, the texts with the separator between them are `{}`", clip(j, 80), clip(&want, 80)));
        }
    } else if xs.len() > 1 {
        // the separator appears at least len-1 times whatever the elements print as
        if !sep.is_empty() && count_matches(j, sep) < xs.len() - 1 && !sep_can_overlap(sep) {
            return Some(format!("join of {} elements has fewer than {} separators", xs.len(), xs.len() - 1));
        }
    }
    None
}

/// a separator with a border (e.g. "aa", "aba") can be matched fewer times by the
/// non-overlapping scanner when the neighbouring text continues it; only count for the others
fn sep_can_overlap(sep: &str) -> bool {
    let b = sep.as_bytes();
    (1..b.len()).any(|k| b[..k] == b[b.len() - k..])
}

/// The property itself, evaluated on the engine's answer. Some(description) = violated.
fn oracle(tera: &Tera, c: &Case, out: &Out) -> Option<String> {
    if let Out::Panic(m) = out {
        return Some(format!("panic {m}"));
    }
    if let Out::NoProbe = out {
        return Some("render succeeded without running the probe".into());
    }
    let r = catch(std::panic::AssertUnwindSafe(|| match c.filter {
        "sort" | "sortattr" => check_sort(c, out),
        "unique" => check_unique(c, out),
        "groupby" => check_groupby(c, out),
        "first" | "last" | "nth" => check_access(tera, c, out),
        "length" => check_length(c, out),
        "reverse" => check_reverse(tera, c, out),
        "keys" | "values" | "pairs" => check_map_views(tera, c, out),
        "split" => check_split(tera, c, out),
        "join" => check_join(c, out),
        _ => None,
    }));
    match r {
        Ok(v) => v,
        Err(p) => Some(format!("panic while comparing values (Ord or PartialEq of Value): {p}")),
    }
}

// ---------------------------------------------------------------- generators

/// includes texts that differ only by trailing NUL characters, at lengths around the 21 bytes an
/// inline string holds (20, 21, 22) and one long control
const STR_POOL: [&str; 34] = [
    "", "a", "b", "ab", "abc", "A", "B", "é", "日本", "a.b", "k", "0", "10", "9", "😀", "ß", " ", "aa", "z", "true", "1", "ab",
    "\0", "\0\0", "a\0", "ab\0", "ab\0\0", "é\0",
    "abcdefghij0123456789", "abcdefghij0123456789\0", "abcdefghij0123456789_", "abcdefghij0123456789_\0",
    "abcdefghij0123456789_long_control", "abcdefghij0123456789_long_control\0",
];

fn gen_len(rng: &mut Rng, max: usize, big_pct: usize) -> usize {
    let r = rng.below(100);
    if r < 8 {
        *rng.pick(&[20usize, 21, 32, 33])
    } else if r < 56 {
        rng.below(13)
    } else if r < 82 {
        13 + rng.below(52)
    } else if r < 100 - big_pct {
        65 + rng.below(236)
    } else if max > 300 {
        301 + rng.below(max - 300)
    } else {
        200 + rng.below(101)
    }
}

/// an integer in one of the encodings that can hold it (sometimes the equal float)
fn enc_int(rng: &mut Rng, x: i128, floats: bool) -> Value {
    loop {
        match rng.below(if floats { 9 } else { 8 }) {
            0 | 1 if x >= 0 && x <= u64::MAX as i128 => return Value::from(x as u64),
            2 | 3 if x >= i64::MIN as i128 && x <= i64::MAX as i128 => return Value::from(x as i64),
            4 | 5 if x >= 0 => return Value::from(x as u128),
            6 | 7 => return Value::from(x),
            8 if (x as f64) as i128 == x && x.unsigned_abs() < (1u128 << 100) => return Value::from(x as f64),
            _ => {}
        }
    }
}

fn small_int(rng: &mut Rng, floats: bool) -> Value {
    let x = rng.range(-3, 12) as i128;
    enc_int(rng, x, floats)
}

fn big_int(rng: &mut Rng) -> Value {
    match rng.below(12) {
        0 => Value::from(u64::MAX),
        1 => Value::from(i64::MIN),
        2 => Value::from(i64::MAX),
        3 => Value::from(u128::MAX),
        4 => Value::from(i128::MIN),
        5 => Value::from(i128::MAX),
        6 => enc_int(rng, 1i128 << 53, true),
        7 => enc_int(rng, (1i128 << 53) + 1, false),
        8 => enc_int(rng, 1i128 << 64, true),
        9 => enc_int(rng, u64::MAX as i128, false),
        10 => enc_int(rng, i64::MIN as i128, true),
        _ => enc_int(rng, -(1i128 << 53) - 1, false),
    }
}

fn gen_float(rng: &mut Rng) -> Value {
    const POOL: [f64; 20] = [
        f64::NAN,
        0.0,
        -0.0,
        f64::INFINITY,
        f64::NEG_INFINITY,
        0.5,
        1.0,
        1.5,
        2.0,
        -1.0,
        -2.5,
        1e300,
        -1e300,
        5e-324,
        9007199254740992.0,
        18446744073709551616.0,
        3.0,
        -3.0,
        12.0,
        0.1,
    ];
    match rng.below(10) {
        0 => Value::from(f64::from_bits(rng.next_u64())),
        1 => Value::from(f64::from_bits(0xfff8_0000_0000_0001)), // another NaN
        _ => Value::from(*rng.pick(&POOL)),
    }
}

fn gen_str(rng: &mut Rng) -> Value {
    let s = *rng.pick(&STR_POOL);
    if rng.chance(1, 4) { Value::safe_string(s) } else { Value::normal_string(s) }
}

fn gen_bytes(rng: &mut Rng) -> Value {
    const POOL: [&[u8]; 9] = [&[], &[0], &[97], &[97, 98], &[255], &[0xc3, 0xa9], &[97, 0], &[255, 254], &[97, 98, 99]];
    Value::bytes(rng.pick(&POOL).to_vec())
}

/// arrays that are prefixes / near-prefixes of each other, members mutually comparable
fn gen_nested_comparable(rng: &mut Rng) -> Value {
    const BASES: [&[i128]; 4] = [&[1, 2, 3, 4], &[1, 2, 4], &[0], &[1, 3]];
    let base = *rng.pick(&BASES);
    let k = rng.below(base.len() + 1);
    Value::from(base[..k].iter().map(|&x| enc_int(rng, x, true)).collect::<Vec<Value>>())
}

fn gen_nested_odd(rng: &mut Rng) -> Value {
    let one = |rng: &mut Rng| enc_int(rng, 1, true);
    match rng.below(12) {
        0 => Value::from(vec![one(rng), Value::normal_string("x")]),
        1 => Value::from(vec![one(rng), Value::none()]),
        2 => Value::from(vec![one(rng), Value::from(true)]),
        3 => Value::from(vec![Value::from(vec![one(rng)]), Value::normal_string("y")]),
        4 => Value::from(vec![one(rng), enc_int(rng, 2, true)]),
        5 => Value::from(vec![one(rng)]),
        6 => Value::from(vec![Value::normal_string("x"), one(rng)]),
        7 => Value::from(vec![Value::undefined()]),
        8 => Value::from(vec![one(rng), small_map(rng)]),
        9 => Value::from(vec![one(rng), enc_int(rng, 2, true), Value::normal_string("x")]),
        10 => Value::from(Vec::<Value>::new()),
        _ => Value::from(vec![one(rng), enc_int(rng, 3, false)]),
    }
}

/// arrays in PREFIX relation whose members `partial_cmp` cannot compare (maps, arrays holding a
/// map, mixed-kind pairs): `[]`, `[x]`, `[x, y]`, `[x, y, z]` over a tiny pool, so that strict
/// prefixes, equal arrays and same-length-different arrays all meet in one input; only the
/// length tie-break of `Ord::cmp` tells a strict prefix from the longer array
fn gen_nested_prefix(rng: &mut Rng) -> Value {
    let m = |k: &str, v: i128, rng: &mut Rng| map_of(vec![(Value::normal_string(k), enc_int(rng, v, true))]);
    let item = |rng: &mut Rng| match rng.below(7) {
        0 | 1 => m("a", 1, rng),
        2 => m("a", 2, rng),
        3 => Value::from(Map::new()),
        4 => Value::from(vec![m("a", 1, rng)]),
        5 => Value::from(vec![enc_int(rng, 1, true), Value::normal_string("x")]),
        _ => enc_int(rng, 2, true),
    };
    // the first member is most often the same map so that many arrays share a prefix
    let mut base = vec![if rng.chance(3, 4) { m("a", 1, rng) } else { item(rng) }];
    base.push(if rng.chance(1, 2) { enc_int(rng, 2, true) } else { item(rng) });
    base.push(item(rng));
    let k = rng.below(4);
    base.truncate(k);
    Value::from(base)
}

/// copies of a few maps with 2..16 INTEGER / BOOL keys (plus now and then a string key), some
/// with one value changed or one key written in another integer width, bare or nested in an
/// array: equal maps that were built separately must be one `==` class for `unique` and `sort`
fn gen_intkey_map(rng: &mut Rng) -> Value {
    let which = rng.below(3) as i128;
    let n = [2usize, 3, 10, 16][rng.below(4)];
    let mut es: Vec<(Value, Value)> = Vec::new();
    for i in 0..n as i128 {
        let k = if i == 0 && which == 1 {
            Value::from(true)
        } else if i == 1 && which == 2 {
            Value::from(false)
        } else {
            // same mathematical key, random width
            enc_int(rng, i * 3 - 4 + which, false)
        };
        es.push((k, enc_int(rng, i % 3, true)));
    }
    if rng.chance(1, 4) {
        es.push((Value::normal_string("s"), Value::normal_string("t")));
    }
    if rng.chance(1, 5) {
        let i = rng.below(es.len());
        es[i].1 = Value::normal_string("changed");
    }
    let m = map_of(es);
    match rng.below(5) {
        0 => Value::from(vec![m]),
        1 => Value::from(vec![m, enc_int(rng, 1, true)]),
        _ => m,
    }
}

fn map_of(entries: Vec<(Value, Value)>) -> Value {
    let mut m = Map::new();
    for (k, v) in entries {
        if let Some(k) = value_to_key(&k) {
            m.insert(k, v);
        }
    }
    Value::from(m)
}

fn small_map(rng: &mut Rng) -> Value {
    let n = rng.below(4);
    let mut es = Vec::new();
    for _ in 0..n {
        let k = match rng.below(5) {
            0 => Value::normal_string("a"),
            1 => Value::normal_string("b"),
            2 => small_int(rng, false),
            3 => Value::from(rng.chance(1, 2)),
            _ => Value::normal_string("k"),
        };
        let v = match rng.below(5) {
            0 => Value::none(),
            1 => gen_str(rng),
            2 => gen_float(rng),
            _ => small_int(rng, true),
        };
        es.push((k, v));
    }
    map_of(es)
}

#[derive(Clone, Copy, PartialEq, Debug)]
enum Profile {
    Numbers,
    Floats,
    Strings,
    Bools,
    Bytes,
    NestedComparable,
    NestedOdd,
    NestedPrefix,
    IntKeyMaps,
    Maps,
    Mixed,
}

fn gen_elem(rng: &mut Rng, p: Profile) -> Value {
    match p {
        Profile::Numbers => match rng.below(20) {
            0 => big_int(rng),
            1 | 2 => gen_float(rng),
            _ => small_int(rng, true),
        },
        Profile::Floats => gen_float(rng),
        Profile::Strings => gen_str(rng),
        Profile::Bools => Value::from(rng.chance(1, 2)),
        Profile::Bytes => gen_bytes(rng),
        Profile::NestedComparable => gen_nested_comparable(rng),
        Profile::NestedOdd => {
            if rng.chance(1, 2) {
                gen_nested_odd(rng)
            } else {
                gen_nested_comparable(rng)
            }
        }
        Profile::NestedPrefix => gen_nested_prefix(rng),
        Profile::IntKeyMaps => gen_intkey_map(rng),
        Profile::Maps => small_map(rng),
        Profile::Mixed => {
            let q = *rng.pick(&[
                Profile::Numbers,
                Profile::Numbers,
                Profile::Strings,
                Profile::Strings,
                Profile::Bools,
                Profile::Bytes,
                Profile::NestedComparable,
                Profile::NestedOdd,
                Profile::NestedPrefix,
                Profile::IntKeyMaps,
                Profile::Maps,
                Profile::Floats,
            ]);
            gen_elem(rng, q)
        }
    }
}

/// `benign`: a stream whose arrays `sort` must accept (one comparable kind, none sprinkled in);
/// otherwise the adversarial stream (mixed kinds, maps, incomparable nested arrays, undefined).
fn gen_elems(rng: &mut Rng, n: usize, benign: bool) -> Vec<Value> {
    let p = if benign {
        *rng.pick(&[
            Profile::Numbers,
            Profile::Numbers,
            Profile::Numbers,
            Profile::Numbers,
            Profile::Floats,
            Profile::Strings,
            Profile::Strings,
            Profile::Bools,
            Profile::Bytes,
            Profile::NestedComparable,
        ])
    } else {
        *rng.pick(&[Profile::Mixed, Profile::Mixed, Profile::Mixed, Profile::NestedOdd, Profile::NestedOdd, Profile::NestedPrefix, Profile::NestedPrefix, Profile::IntKeyMaps, Profile::IntKeyMaps, Profile::Maps, Profile::Numbers, Profile::Strings])
    };
    let mut xs: Vec<Value> = (0..n).map(|_| gen_elem(rng, p)).collect();
    if rng.chance(1, 4) {
        for x in xs.iter_mut() {
            if rng.chance(1, 6) {
                *x = Value::none();
            }
        }
    }
    if !benign && rng.chance(1, 3) && n > 0 {
        for _ in 0..1 + rng.below(2) {
            let i = rng.below(n);
            xs[i] = Value::undefined();
        }
    }
    xs
}

fn gen_array(rng: &mut Rng, max: usize, big_pct: usize, benign_pct: u32) -> Value {
    let n = gen_len(rng, max, big_pct);
    let benign = rng.chance(benign_pct, 100);
    Value::from(gen_elems(rng, n, benign))
}

fn not_an_array(rng: &mut Rng) -> Value {
    match rng.below(7) {
        0 => Value::normal_string("abc"),
        1 => small_map(rng),
        2 => Value::none(),
        3 => Value::from(3u64),
        4 => Value::from(1.5f64),
        5 => Value::bytes(vec![1u8, 2]),
        _ => Value::from(true),
    }
}

const PATHS: [&str; 14] = ["k", "k", "k", "a.b", "a.b", "0", "a.0", "k.1", "é", "a.b.c", "", "k.", "+0", "00"];

/// an element that holds `key` at `path`; `i` makes elements distinguishable (stability)
fn elem_with(path: &str, key: Value, i: usize, rng: &mut Rng) -> Value {
    let id = Value::from(i as u64);
    let s = |t: &str| Value::normal_string(t);
    match path {
        "k" => {
            let mut es = vec![(s("k"), key), (s("id"), id)];
            if rng.chance(1, 4) {
                es.push((s("z"), gen_str(rng)));
            }
            map_of(es)
        }
        "a.b" => map_of(vec![(s("a"), map_of(vec![(s("b"), key)])), (s("id"), id)]),
        "0" | "+0" | "00" => Value::from(vec![key, id]),
        "a.0" => map_of(vec![(s("a"), Value::from(vec![key, Value::from(7u64)])), (s("id"), id)]),
        "k.1" => map_of(vec![(s("k"), Value::from(vec![id, key]))]),
        "é" => map_of(vec![(s("é"), key), (s("id"), id)]),
        "a.b.c" => map_of(vec![(s("a"), map_of(vec![(s("b"), map_of(vec![(s("c"), key)]))])), (s("id"), id)]),
        "" => map_of(vec![(s(""), key), (s("id"), id)]),
        "k." => map_of(vec![(s("k"), map_of(vec![(s(""), key)])), (s("id"), id)]),
        _ => map_of(vec![(s(path), key), (s("id"), id)]),
    }
}

/// an element without the attribute at `path`
fn elem_without(path: &str, i: usize, rng: &mut Rng) -> Value {
    let id = Value::from(i as u64);
    let s = |t: &str| Value::normal_string(t);
    match rng.below(8) {
        0 => map_of(vec![(s("id"), id)]),
        1 => Value::from(Vec::<Value>::new()),
        2 => map_of(vec![(s("a"), Value::from(5u64)), (s("k"), Value::from(5u64))]).clone(),
        3 => Value::undefined(),
        4 => id,
        5 => {
            // a map whose key reads like the index component: an index never selects from a map
            map_of(vec![(s("0"), id.clone()), (s("+0"), id.clone()), (s("00"), id), (s("a"), map_of(vec![]))])
        }
        6 => Value::normal_string("k"),
        _ => {
            let first = path.split('.').next().unwrap_or("");
            map_of(vec![(s(first), Value::from(Vec::<Value>::new())), (s("id"), id)])
        }
    }
}

/// array of elements carrying an attribute, plus the path. `for_group`: keys are mostly valid map
/// keys; otherwise mostly one comparable kind.
fn gen_attr_array(rng: &mut Rng, max: usize, big_pct: usize, for_group: bool) -> (Value, String) {
    let n = gen_len(rng, max, big_pct);
    let path = *rng.pick(&PATHS);
    // 0 clean, 1 some none, 2 some missing, 3 some odd kinds, 4 some non-container elements
    let mode = match rng.below(100) {
        0..=64 => 0,
        65..=76 => 1,
        77..=84 => 2,
        85..=92 => 3,
        _ => 4,
    };
    let kp = if for_group {
        *rng.pick(&[Profile::Numbers, Profile::Numbers, Profile::Strings, Profile::Strings, Profile::Bools, Profile::Mixed])
    } else if rng.chance(85, 100) {
        *rng.pick(&[Profile::Numbers, Profile::Numbers, Profile::Numbers, Profile::Strings, Profile::Strings, Profile::Floats, Profile::Bools, Profile::NestedComparable, Profile::Bytes])
    } else {
        *rng.pick(&[Profile::Mixed, Profile::NestedOdd, Profile::Maps])
    };
    let mut xs = Vec::with_capacity(n);
    for i in 0..n {
        let fault = mode != 0 && rng.chance(1, 6);
        let key = loop {
            let k = if for_group && kp == Profile::Numbers { small_int(rng, false) } else { gen_elem(rng, kp) };
            if for_group && mode != 3 && !is_key_kind(&k) {
                continue;
            }
            break k;
        };
        let x = match (fault, mode) {
            (true, 1) => elem_with(path, Value::none(), i, rng),
            (true, 2) => elem_without(path, i, rng),
            (true, 3) => {
                let odd = match rng.below(6) {
                    0 => gen_float(rng),
                    1 => gen_nested_comparable(rng),
                    2 => small_map(rng),
                    3 => gen_bytes(rng),
                    4 => Value::undefined(),
                    _ => Value::from(2.0f64),
                };
                elem_with(path, odd, i, rng)
            }
            (true, _) => match rng.below(3) {
                0 => Value::none(),
                1 => Value::undefined(),
                _ => small_int(rng, true),
            },
            _ => elem_with(path, key, i, rng),
        };
        xs.push(x);
    }
    (Value::from(xs), path.to_string())
}

fn gen_key_value(rng: &mut Rng) -> Value {
    match rng.below(10) {
        0 => Value::from(rng.chance(1, 2)),
        1 | 2 => small_int(rng, false),
        3 => big_int_key(rng),
        4 => Value::from(-(rng.range(1, 1000))),
        5 => Value::from(-(rng.range(1, 1000) as i128)),
        _ => Value::normal_string(*rng.pick(&STR_POOL)),
    }
}

fn big_int_key(rng: &mut Rng) -> Value {
    loop {
        let v = big_int(rng);
        if !v.is_f64() {
            return v;
        }
    }
}

fn gen_map(rng: &mut Rng) -> Value {
    let n = rng.below(21);
    let mut es = Vec::with_capacity(n);
    for _ in 0..n {
        let v = match rng.below(6) {
            0 => Value::none(),
            1 => gen_str(rng),
            2 => gen_nested_comparable(rng),
            3 => gen_float(rng),
            _ => small_int(rng, true),
        };
        es.push((gen_key_value(rng), v));
    }
    map_of(es)
}

fn gen_text(rng: &mut Rng, maxlen: usize) -> String {
    const ALPHA: [&[&str]; 4] = [&["a", "b"], &["a", "b", ",", " "], &["a", ",", "é", "日", "😀"], &["a", "a", "a", "b", ",", ", "]];
    let al = *rng.pick(&ALPHA);
    let n = rng.below(maxlen + 1);
    (0..n).map(|_| *rng.pick(al)).collect()
}

const SEPS: [&str; 14] = ["", ",", ", ", "ab", "aa", "aba", "a", "é", "日", "😀", ",,", "b", " ", "a,"];

fn gen_split(rng: &mut Rng) -> (Value, String) {
    const FIXED: [(&str, &str); 14] = [
        ("aaa", "aa"),
        ("ababa", "aba"),
        (",a,,b,", ","),
        ("", ","),
        ("", ""),
        ("a", ""),
        ("é日", ""),
        ("ab", "ab"),
        ("abab", "ab"),
        ("aaaa", "aa"),
        ("a, b, c", ", "),
        (", ", ", "),
        ("日本日本", "本"),
        ("😀a😀", "😀"),
    ];
    if rng.chance(1, 12) {
        let (s, p) = *rng.pick(&FIXED);
        return (Value::normal_string(s), p.to_string());
    }
    let maxlen = if rng.chance(1, 10) { 200 } else { 24 };
    let s = gen_text(rng, maxlen);
    let pat = match rng.below(10) {
        0 => {
            // a substring of the input
            let cs: Vec<char> = s.chars().collect();
            if cs.is_empty() {
                String::new()
            } else {
                let a = rng.below(cs.len());
                let b = a + 1 + rng.below((cs.len() - a).min(3));
                cs[a..b.min(cs.len())].iter().collect()
            }
        }
        1 if rng.chance(1, 3) => s.clone(),
        _ => rng.pick(&SEPS).to_string(),
    };
    let v = if rng.chance(1, 5) { Value::safe_string(&s) } else { Value::normal_string(&s) };
    (v, pat)
}

fn gen_join(rng: &mut Rng, max: usize) -> (Value, String) {
    let sep = rng.pick(&SEPS).to_string();
    let n = match rng.below(10) {
        0 => 1,
        1 => 0,
        _ => gen_len(rng, max.min(300), 3),
    };
    let style = rng.below(10);
    let xs: Vec<Value> = (0..n)
        .map(|_| match style {
            0..=5 => {
                let t = gen_text(rng, 5);
                if rng.chance(1, 6) { Value::safe_string(&t) } else { Value::normal_string(&t) }
            }
            6 | 7 => match rng.below(6) {
                0 => Value::from(rng.chance(1, 2)),
                1 => Value::none(),
                2 => big_int_key(rng),
                3 => gen_str(rng),
                4 => Value::undefined(),
                _ => small_int(rng, false),
            },
            8 => gen_str(rng),
            _ => gen_elem(rng, Profile::Mixed),
        })
        .collect();
    (Value::from(xs), sep)
}

fn gen_any_len_value(rng: &mut Rng, max: usize, big_pct: usize) -> Value {
    match rng.below(100) {
        0..=49 => gen_array(rng, max, big_pct, 60),
        50..=72 => {
            let maxlen = if rng.chance(1, 8) { 300 } else { 30 };
            let t = gen_text(rng, maxlen);
            if rng.chance(1, 4) { Value::safe_string(&t) } else { Value::normal_string(&t) }
        }
        73..=76 => gen_str(rng),
        77..=83 => {
            if rng.chance(1, 2) {
                gen_bytes(rng)
            } else {
                let n = rng.below(40);
                Value::bytes((0..n).map(|_| rng.next_u64() as u8).collect::<Vec<u8>>())
            }
        }
        84..=90 => gen_map(rng),
        _ => match rng.below(6) {
            0 => Value::none(),
            1 => small_int(rng, false),
            2 => gen_float(rng),
            3 => Value::from(true),
            4 => big_int(rng),
            _ => Value::from(0u64),
        },
    }
}

fn gen_case(rng: &mut Rng, max: usize, big_pct: usize) -> Case {
    let r = rng.below(102);
    let odd_input = rng.chance(2, 100);
    let arr = |rng: &mut Rng, benign_pct: u32| if odd_input { not_an_array(rng) } else { gen_array(rng, max, big_pct, benign_pct) };
    match r {
        0..=17 => Case::new("sort", arr(rng, 74), Arg::None),
        18..=31 => {
            let (v, p) = gen_attr_array(rng, max, big_pct, false);
            Case::new("sortattr", if odd_input { not_an_array(rng) } else { v }, Arg::Str(p))
        }
        32..=45 => Case::new("unique", arr(rng, 55), Arg::None),
        46..=57 => {
            let (v, p) = gen_attr_array(rng, max, big_pct, true);
            Case::new("groupby", if odd_input { not_an_array(rng) } else { v }, Arg::Str(p))
        }
        58..=60 => Case::new("first", arr(rng, 50), Arg::None),
        61..=63 => Case::new("last", arr(rng, 50), Arg::None),
        64..=69 => {
            let v = arr(rng, 50);
            let len = v.as_array().map(|a| a.len()).unwrap_or(3) as u64;
            let n = match rng.below(8) {
                0 => 0,
                1 => len.saturating_sub(1),
                2 => len,
                3 => len + 5,
                4 => *rng.pick(&[u64::MAX, 1 << 32, 1 << 63, u64::MAX - 1, (1 << 32) - 1]),
                _ => rng.below(len as usize + 1) as u64,
            };
            Case::new("nth", v, Arg::N(n))
        }
        70..=74 => Case::new("length", gen_any_len_value(rng, max, big_pct), Arg::None),
        75..=80 => Case::new("reverse", gen_any_len_value(rng, max, big_pct), Arg::None),
        81..=90 => {
            let f = match r {
                81..=83 => "keys",
                84..=86 => "values",
                _ => "pairs",
            };
            let v = if rng.chance(4, 100) { not_an_array(rng) } else { gen_map(rng) };
            let v = if v.as_map().is_none() && rng.chance(1, 2) { Value::from(vec![Value::from(1u64)]) } else { v };
            Case::new(f, v, Arg::None)
        }
        91..=95 => {
            let (v, sep) = gen_join(rng, max);
            Case::new("join", if odd_input { not_an_array(rng) } else { v }, Arg::Str(sep))
        }
        _ => {
            let (v, pat) = gen_split(rng);
            let v = if odd_input {
                let o = not_an_array(rng);
                if o.as_str().is_some() { Value::from(5u64) } else { o }
            } else {
                v
            };
            Case::new("split", v, Arg::Str(pat))
        }
    }
}

/// cases every run contains whatever the seed
fn fixed_cases() -> Vec<Case> {
    let mut out = Vec::new();
    let u = |x: u64| Value::from(x);
    let s = |t: &str| Value::normal_string(t);
    // equal values in every encoding (stability, unique keeps the first)
    let ones = Value::from(vec![Value::from(1.0f64), Value::from(1i64), u(1), Value::from(1u128), Value::from(1i128), u(0), Value::from(-0.0f64), Value::from(0.0f64)]);
    for f in ["sort", "unique", "first", "last", "reverse", "length"] {
        out.push(Case::new(f, ones.clone(), Arg::None));
    }
    // none is allowed to stay; it also separates undefined from the rest in the sorted order
    out.push(Case::new("sort", Value::from(vec![u(3), Value::none(), u(1)]), Arg::None));
    out.push(Case::new("sort", Value::from(vec![u(1), s("x")]), Arg::None));
    out.push(Case::new("sort", Value::from(vec![u(1), Value::undefined()]), Arg::None));
    // regression (F12): a none between them must not hide two keys that do not compare
    out.push(Case::new("sort", Value::from(vec![u(1), Value::none(), Value::undefined()]), Arg::None));
    out.push(Case::new("sort", Value::from(vec![Value::undefined(), Value::none(), s("")]), Arg::None));
    out.push(Case::new(
        "sortattr",
        Value::from(vec![map_of(vec![(s("k"), u(1))]), map_of(vec![(s("k"), Value::none())]), map_of(vec![(s("k"), Value::undefined())])]),
        Arg::Str("k".into()),
    ));
    out.push(Case::new("sort", Value::from(vec![Value::from(f64::NAN), u(1), Value::from(f64::NEG_INFINITY), Value::from(f64::NAN)]), Arg::None));
    out.push(Case::new("sort", Value::from(vec![map_of(vec![(s("a"), u(1))]), map_of(vec![(s("a"), u(1))])]), Arg::None));
    out.push(Case::new("sort", Value::from(vec![map_of(vec![(s("a"), u(1))]), Value::none()]), Arg::None));
    out.push(Case::new("unique", Value::from(vec![map_of(vec![(s("a"), u(1))]), map_of(vec![(s("a"), u(2))]), map_of(vec![(s("a"), Value::from(1i64))])]), Arg::None));
    out.push(Case::new("unique", Value::from(vec![Value::from(vec![u(1), s("x")]), Value::from(vec![u(1), s("y")]), Value::from(vec![Value::from(1.0f64), Value::safe_string("x")])]), Arg::None));
    out.push(Case::new("unique", Value::from(vec![s("a"), Value::safe_string("a"), Value::bytes(vec![97u8]), Value::none(), Value::undefined(), Value::none()]), Arg::None));
    // arrays holding a map (partial_cmp gives up) in prefix relation: only the length tie-break of
    // `Ord::cmp` separates a strict prefix from the longer array
    let ma = || map_of(vec![(s("a"), u(1))]);
    let prefixes = Value::from(vec![
        Value::from(vec![ma()]),
        Value::from(vec![ma(), u(2)]),
        Value::from(Vec::<Value>::new()),
        Value::from(vec![ma(), u(2), ma()]),
        Value::from(vec![ma()]),
        Value::from(vec![Value::from(vec![ma()])]),
        Value::from(vec![Value::from(vec![ma()]), Value::from(vec![ma()])]),
    ]);
    for f in ["unique", "sort"] {
        out.push(Case::new(f, prefixes.clone(), Arg::None));
    }
    // texts that differ only by trailing NUL characters are different values
    let nuls = Value::from(vec![s("ab\0"), s("ab"), s("ab\0\0"), s(""), s("\0"), s("ab"), Value::safe_string("ab\0"), s("abcdefghij0123456789\0"), s("abcdefghij0123456789")]);
    for f in ["unique", "sort"] {
        out.push(Case::new(f, nuls.clone(), Arg::None));
    }
    // equal maps with many integer / bool keys, built separately (see `rebuild`): one class
    let big = |w: u8| {
        map_of((0..14u64).map(|i| {
            let k = match (w, i) {
                (_, 0) => Value::from(true),
                (0, _) => Value::from(i),
                (1, _) => Value::from(i as i64),
                _ => Value::from(i as u128),
            };
            (k, u(i % 3))
        }).collect())
    };
    let copies = Value::from(vec![big(0), big(1), big(0), Value::from(vec![big(2)]), big(2), Value::from(vec![big(0)])]);
    for f in ["unique", "sort"] {
        out.push(Case::new(f, copies.clone(), Arg::None));
    }
    for (t, p) in [("aaa", "aa"), ("ababa", "aba"), ("", ""), ("ab", ""), ("", ","), (",", ","), ("é日", "")] {
        out.push(Case::new("split", s(t), Arg::Str(p.into())));
    }
    out.push(Case::new("join", Value::from(vec![s("only")]), Arg::Str(", ".into())));
    out.push(Case::new("join", Value::from(Vec::<Value>::new()), Arg::Str(", ".into())));
    out.push(Case::new("reverse", s("é日😀a"), Arg::None));
    out.push(Case::new("reverse", Value::safe_string("ab"), Arg::None));
    out.push(Case::new("reverse", Value::bytes(vec![1u8, 2, 255]), Arg::None));
    out.push(Case::new("length", Value::bytes(vec![1u8, 2, 255]), Arg::None));
    out.push(Case::new("length", s("é日😀a"), Arg::None));
    for f in ["first", "last"] {
        out.push(Case::new(f, Value::from(Vec::<Value>::new()), Arg::None));
    }
    out.push(Case::new("nth", Value::from(vec![u(1)]), Arg::N(u64::MAX)));
    let m = map_of(vec![(Value::from(true), u(1)), (Value::from(-1i64), u(2)), (Value::from(u128::MAX), u(3)), (s("a"), u(4)), (Value::from(i128::MIN), u(5)), (u(7), u(6))]);
    for f in ["keys", "values", "pairs", "length"] {
        out.push(Case::new(f, m.clone(), Arg::None));
    }
    let g = Value::from(vec![
        map_of(vec![(s("k"), u(1)), (s("id"), u(0))]),
        map_of(vec![(s("k"), Value::from(1i128)), (s("id"), u(1))]),
        map_of(vec![(s("k"), Value::none()), (s("id"), u(2))]),
        map_of(vec![(s("k"), s("1")), (s("id"), u(3))]),
        map_of(vec![(s("k"), Value::from(true)), (s("id"), u(4))]),
    ]);
    out.push(Case::new("groupby", g.clone(), Arg::Str("k".into())));
    out.push(Case::new("sortattr", g, Arg::Str("k".into())));
    out
}

// ---------------------------------------------------------------- shrinking and bursts

fn str_shrinks(s: &str) -> Vec<String> {
    let cs: Vec<char> = s.chars().collect();
    let mut out = Vec::new();
    if cs.is_empty() {
        return out;
    }
    out.push(String::new());
    if cs.len() > 1 {
        out.push(cs[..cs.len() / 2].iter().collect());
        out.push(cs[cs.len() / 2..].iter().collect());
        out.push(cs[1..].iter().collect());
        out.push(cs[..cs.len() - 1].iter().collect());
    }
    out
}

fn shrinks(v: &Value) -> Vec<Value> {
    let mut out = Vec::new();
    match v.kind() {
        ValueKind::Array => {
            let a = v.as_array().unwrap();
            let n = a.len();
            let mut size = n / 2;
            while size >= 1 && out.len() < 600 {
                let mut start = 0;
                while start < n {
                    let end = (start + size).min(n);
                    let mut b = Vec::with_capacity(n - (end - start));
                    b.extend_from_slice(&a[..start]);
                    b.extend_from_slice(&a[end..]);
                    out.push(Value::from(b));
                    start += size;
                }
                if size == 1 {
                    break;
                }
                size /= 2;
            }
            if n <= 24 {
                for i in 0..n {
                    for s in shrinks(&a[i]) {
                        let mut b = a.to_vec();
                        b[i] = s;
                        out.push(Value::from(b));
                    }
                }
            }
        }
        ValueKind::Map => {
            let m = v.as_map().unwrap();
            let es: Vec<_> = m.iter().map(|(k, x)| (k.clone(), x.clone())).collect();
            for i in 0..es.len() {
                let mut nm = Map::new();
                for (j, (k, x)) in es.iter().enumerate() {
                    if i != j {
                        nm.insert(k.clone(), x.clone());
                    }
                }
                out.push(Value::from(nm));
            }
            if es.len() <= 6 {
                for i in 0..es.len() {
                    for s in shrinks(&es[i].1) {
                        let mut nm = Map::new();
                        for (j, (k, x)) in es.iter().enumerate() {
                            nm.insert(k.clone(), if i == j { s.clone() } else { x.clone() });
                        }
                        out.push(Value::from(nm));
                    }
                }
            }
        }
        ValueKind::String => {
            let safe = v.is_safe();
            for t in str_shrinks(v.as_str().unwrap()) {
                out.push(if safe { Value::safe_string(&t) } else { Value::normal_string(&t) });
            }
            if safe {
                out.push(Value::normal_string(v.as_str().unwrap()));
            }
        }
        ValueKind::Bytes => {
            let b = v.as_bytes().unwrap();
            if !b.is_empty() {
                out.push(Value::bytes(Vec::<u8>::new()));
                out.push(Value::bytes(b[..b.len() - 1].to_vec()));
                out.push(Value::bytes(b[1..].to_vec()));
            }
        }
        ValueKind::U64 | ValueKind::I64 | ValueKind::U128 | ValueKind::I128 => {
            let z = encode(v);
            for c in [Value::from(0u64), Value::from(1u64)] {
                if encode(&c) != z {
                    out.push(c);
                }
            }
        }
        ValueKind::F64 => {
            let z = encode(v);
            for c in [Value::from(0.0f64), Value::from(1u64)] {
                if encode(&c) != z {
                    out.push(c);
                }
            }
        }
        _ => {}
    }
    out
}

fn case_shrinks(c: &Case) -> Vec<Case> {
    let mut out: Vec<Case> = shrinks(&c.v).into_iter().map(|v| Case { filter: c.filter, v, arg: c.arg.clone() }).collect();
    match &c.arg {
        Arg::Str(s) => {
            for t in str_shrinks(s) {
                out.push(Case { filter: c.filter, v: c.v.clone(), arg: Arg::Str(t) });
            }
        }
        Arg::N(n) if *n > 0 => {
            for t in [0, n / 2, n - 1] {
                if t != *n {
                    out.push(Case { filter: c.filter, v: c.v.clone(), arg: Arg::N(t) });
                }
            }
        }
        _ => {}
    }
    out
}

/// Greedy shrinking: keep the first smaller case on which `fails` still holds.
fn shrink(c: &Case, budget: usize, fails: &mut dyn FnMut(&[Case]) -> Option<usize>) -> Case {
    let mut cur = c.clone();
    let mut spent = 0;
    loop {
        let cands = case_shrinks(&cur);
        if cands.is_empty() || spent >= budget {
            return cur;
        }
        spent += cands.len();
        match fails(&cands) {
            Some(i) => cur = cands[i].clone(),
            None => return cur,
        }
    }
}

/// variants around a case (for the targeted burst after a model-only mismatch)
fn mutate(rng: &mut Rng, c: &Case) -> Case {
    let mut v = c.v.clone();
    if let Some(a) = c.v.as_array() {
        let mut b = a.to_vec();
        for _ in 0..1 + rng.below(3) {
            let n = b.len();
            match rng.below(8) {
                0 if n > 0 => {
                    b.remove(rng.below(n));
                }
                1 if n > 0 => {
                    let x = b[rng.below(n)].clone();
                    b.insert(rng.below(n + 1), x);
                }
                2 if n > 1 => {
                    let (i, j) = (rng.below(n), rng.below(n));
                    b.swap(i, j);
                }
                3 => b.reverse(),
                4 if n > 0 => {
                    let k = rng.below(n);
                    b.rotate_left(k);
                }
                5 if n > 0 => {
                    // same number, another encoding
                    let i = rng.below(n);
                    if let Some(x) = b[i].as_i128().filter(|_| !b[i].is_f64()) {
                        b[i] = enc_int(rng, x, true);
                    }
                }
                6 if n > 0 => {
                    let i = rng.below(n);
                    b[i] = match rng.below(3) {
                        0 => Value::none(),
                        1 => gen_elem(rng, Profile::Mixed),
                        _ => b[rng.below(n)].clone(),
                    };
                }
                _ if n > 1 => b.truncate(1 + rng.below(n - 1)),
                _ => {}
            }
        }
        v = Value::from(b);
    } else if let Some(s) = c.v.as_str() {
        let mut cs: Vec<char> = s.chars().collect();
        if !cs.is_empty() && rng.chance(1, 2) {
            cs.remove(rng.below(cs.len()));
        } else {
            let ins: Vec<char> = rng.pick(&SEPS).chars().collect();
            let at = rng.below(cs.len() + 1);
            for (k, ch) in ins.into_iter().enumerate() {
                cs.insert(at + k, ch);
            }
        }
        v = Value::normal_string(&cs.into_iter().collect::<String>());
    } else if c.v.as_map().is_some() && rng.chance(1, 2) {
        v = gen_map(rng);
    }
    let arg = match &c.arg {
        Arg::Str(s) if matches!(c.filter, "split" | "join") && rng.chance(1, 3) => {
            let _ = s;
            Arg::Str(rng.pick(&SEPS).to_string())
        }
        Arg::N(n) if rng.chance(1, 2) => Arg::N(n.wrapping_add(rng.below(3) as u64).wrapping_sub(1)),
        a => a.clone(),
    };
    Case { filter: c.filter, v, arg }
}

// ---------------------------------------------------------------- main

struct Res {
    req: String,
    imp: String,
    class: String,
    fail: Option<String>,
    arr_len: Option<usize>,
    xdup: bool,
}

/// some two elements are == but not identical (equal numbers in different encodings, safe and
/// normal strings with the same text, 0.0 and -0.0)
fn has_cross_encoding_duplicates(xs: &[Value]) -> bool {
    let xs = &xs[..xs.len().min(200)];
    let enc: Vec<String> = xs.iter().map(encode).collect();
    for i in 0..xs.len() {
        for j in i + 1..xs.len() {
            if xs[i] == xs[j] && enc[i] != enc[j] {
                return true;
            }
        }
    }
    false
}

fn eval(tera: &Tera, c: &Case) -> Res {
    let out = run(tera, c);
    let fail = oracle(tera, c, &out);
    let arr = c.v.as_array();
    Res {
        req: c.request(),
        imp: canon(c.filter, &out),
        class: out.class(),
        fail,
        arr_len: arr.map(|a| a.len()),
        xdup: matches!(c.filter, "sort" | "unique") && arr.is_some_and(|a| catch(std::panic::AssertUnwindSafe(|| has_cross_encoding_duplicates(a))).unwrap_or(false)),
    }
}

fn eval_all(tera: &Tera, cases: &[Case], threads: usize) -> Vec<Res> {
    let next = AtomicUsize::new(0);
    let mut parts: Vec<Vec<(usize, Res)>> = std::thread::scope(|s| {
        let next = &next;
        let hs: Vec<_> = (0..threads)
            .map(|_| {
                s.spawn(move || {
                    let mut out = Vec::new();
                    loop {
                        let i = next.fetch_add(1, AtomicOrdering::Relaxed);
                        if i >= cases.len() {
                            break;
                        }
                        out.push((i, eval(tera, &cases[i])));
                    }
                    out
                })
            })
            .collect();
        hs.into_iter().map(|h| h.join().unwrap()).collect()
    });
    let mut all: Vec<(usize, Res)> = parts.drain(..).flatten().collect();
    all.sort_by_key(|e| e.0);
    all.into_iter().map(|e| e.1).collect()
}

/// The model's cost per request grows with the square of the array length: spread the requests
/// over the driver processes by weight instead of in input order.
fn model_batch(exe: &std::path::Path, reqs: &[String], threads: usize) -> Result<Vec<String>, String> {
    if reqs.len() < 2000 || threads <= 1 {
        return driver::run_batch(exe, reqs);
    }
    let mut order: Vec<usize> = (0..reqs.len()).collect();
    order.sort_by_key(|&i| std::cmp::Reverse(reqs[i].len()));
    let mut buckets: Vec<(u64, Vec<usize>)> = (0..threads * 6).map(|_| (0u64, Vec::new())).collect();
    for i in order {
        let l = reqs[i].len() as u64;
        let b = buckets.iter_mut().min_by_key(|b| b.0).unwrap();
        b.0 += 200 + l + l * l / 2000;
        b.1.push(i);
    }
    buckets.sort_by_key(|b| std::cmp::Reverse(b.0));
    let next = AtomicUsize::new(0);
    let results: Vec<Vec<(usize, Result<Vec<String>, String>)>> = std::thread::scope(|s| {
        let (next, buckets) = (&next, &buckets);
        let hs: Vec<_> = (0..threads)
            .map(|_| {
                s.spawn(move || {
                    let mut done = Vec::new();
                    loop {
                        let k = next.fetch_add(1, AtomicOrdering::Relaxed);
                        if k >= buckets.len() {
                            break;
                        }
                        let part: Vec<String> = buckets[k].1.iter().map(|&i| reqs[i].clone()).collect();
                        done.push((k, if part.is_empty() { Ok(Vec::new()) } else { driver::run_batch(exe, &part) }));
                    }
                    done
                })
            })
            .collect();
        hs.into_iter().map(|h| h.join().unwrap()).collect()
    });
    let mut out = vec![String::new(); reqs.len()];
    for (k, r) in results.into_iter().flatten() {
        for (i, line) in buckets[k].1.iter().zip(r?) {
            out[*i] = line;
        }
    }
    Ok(out)
}

fn len_bucket(n: usize) -> &'static str {
    match n {
        0 => "0",
        1..=12 => "1-12",
        13..=64 => "13-64",
        65..=300 => "65-300",
        _ => "301+",
    }
}

fn fingerprint(s: &str) -> u128 {
    let mut h1 = DefaultHasher::new();
    s.hash(&mut h1);
    let mut h2 = DefaultHasher::new();
    (s, 0x5eedu32).hash(&mut h2);
    ((h1.finish() as u128) << 64) | h2.finish() as u128
}

fn main() {
    quiet_panics();
    let env = Env::from_env();
    let mut report = Report::new("C16");
    let tera = engine();
    let exe = driver::driver_path(&env.verif_dir, "drv_c16");

    if let Some(path) = replay_path() {
        let text = std::fs::read_to_string(&path).expect("replay file");
        let j: serde_json::Value = serde_json::from_str(&text).expect("replay json");
        let c = Case::from_replay(&j).expect("replay case (filter, value, arg)");
        let out = run(&tera, &c);
        let req = c.request();
        let model = driver::run_batch(&exe, std::slice::from_ref(&req)).map(|m| m[0].clone()).unwrap_or_else(|e| format!("(driver: {e})"));
        println!("template: {}", TEMPLATES.iter().find(|t| t.0 == c.filter).unwrap().1);
        println!("request: {req}");
        println!("implementation: {}", canon(c.filter, &out));
        if let Out::Err(_, m) = &out {
            println!("implementation message: {m}");
        }
        println!("model: {model}");
        println!("oracle: {:?}", oracle(&tera, &c, &out));
        return;
    }

    let started = std::time::Instant::now();
    let threads = std::thread::available_parallelism().map(|n| n.get()).unwrap_or(8).min(16);
    let mut rng = Rng::new(env.seed);
    let max_len = env.budget(300, 2000);
    let big_pct = env.budget(6, 3);
    let round_size = 20_000usize;
    // development aid: VERIF_C16_ROUNDS overrides the number of rounds of the tier
    let rounds = std::env::var("VERIF_C16_ROUNDS").ok().and_then(|s| s.parse::<usize>().ok()).unwrap_or(env.budget(12, 80));

    let mut distinct: HashSet<u128> = HashSet::new();
    let mut reached = 0u64;
    let mut sort_total = 0u64;
    let mut sort_ok = 0u64;
    let mut failures: Vec<(Case, String)> = Vec::new();
    let mut mismatches: Vec<(Case, String, String)> = Vec::new();
    let mut model_ok = true;

    for round in 0..rounds {
        let t0 = std::time::Instant::now();
        let mut cases: Vec<Case> = if round == 0 { fixed_cases() } else { Vec::new() };
        while cases.len() < round_size {
            cases.push(gen_case(&mut rng, max_len, big_pct));
        }
        let t1 = std::time::Instant::now();
        let results = eval_all(&tera, &cases, threads);
        let t2 = std::time::Instant::now();
        report.count_n("time_ms.generate", (t1 - t0).as_millis() as u64);
        report.count_n("time_ms.engine_and_oracle", (t2 - t1).as_millis() as u64);
        let reqs: Vec<String> = results.iter().map(|r| r.req.clone()).collect();
        let model: Vec<String> = if model_ok {
            match model_batch(&exe, &reqs, threads) {
                Ok(m) => m,
                Err(e) => {
                    model_ok = false;
                    report.notes.push(format!("model driver unavailable: {e}"));
                    report.violation("model-mismatch", format!("model driver could not be run: {e}"), json!({"stage": "driver", "error": e}));
                    Vec::new()
                }
            }
        } else {
            Vec::new()
        };
        report.count_n("time_ms.model_driver", t2.elapsed().as_millis() as u64);
        for (i, (c, r)) in cases.iter().zip(results.iter()).enumerate() {
            report.evaluations += 1;
            report.oracle_checks += 1;
            report.count(&format!("filter.{}.{}", c.filter, r.class));
            let trivial = r.class == "err arg" || r.class == "err other" || r.class == "noprobe";
            if !trivial {
                reached += 1;
                if distinct.insert(fingerprint(&r.req)) {
                    report.distinct_nontrivial += 1;
                }
            }
            if let Some(n) = r.arr_len {
                report.count(&format!("array_len.{}", len_bucket(n)));
                if matches!(n, 20 | 21 | 32 | 33) {
                    report.count(&format!("array_len.exactly_{n}"));
                }
            }
            if r.xdup {
                report.count("arrays_with_equal_elements_in_different_encodings");
            }
            if matches!(c.filter, "sort" | "sortattr") {
                sort_total += 1;
                if r.class == "ok" {
                    sort_ok += 1;
                }
            }
            if let Some(d) = &r.fail {
                report.oracle_failures += 1;
                report.count(&format!("oracle_failure.{}.{}", c.filter, d.split([':', '`']).next().unwrap_or("").trim()));
                if failures.len() < 40 {
                    failures.push((c.clone(), d.clone()));
                }
            }
            if let Some(m) = model.get(i) {
                if m == "skip" {
                    report.count("model.skip_display_not_modelled");
                } else {
                    report.model_comparisons += 1;
                    if *m != r.imp {
                        report.model_disagreements += 1;
                        report.count(&format!("model_disagreement.{}", c.filter));
                        if mismatches.len() < 40 {
                            mismatches.push((c.clone(), r.imp.clone(), m.clone()));
                        }
                    }
                }
            }
            if round == 0 && (i % 1600 == 40 || i == 0) {
                report.sample(json!({"request": clip(&r.req, 600), "implementation": clip(&r.imp, 600), "model": model.get(i).map(|m| clip(m, 600)), "oracle": r.fail}));
            }
        }
    }

    // ---- oracle failures: shrink with the oracle as the predicate, report as property violations
    let mut seen_summaries: HashSet<String> = HashSet::new();
    for (c, d) in failures.iter() {
        if report.violations.len() >= 5 {
            break;
        }
        let small = shrink(c, 20_000, &mut |cands: &[Case]| {
            cands.iter().position(|k| {
                let o = run(&tera, k);
                oracle(&tera, k, &o).is_some()
            })
        });
        let out = run(&tera, &small);
        let verdict = oracle(&tera, &small, &out).unwrap_or_else(|| d.clone());
        let summary = format!("{}: {} — on `{}` the engine answered `{}`", small.filter, verdict, clip(&small.request(), 300), clip(&canon(small.filter, &out), 300));
        if !seen_summaries.insert(format!("{}:{}", small.filter, small.request())) {
            continue;
        }
        let model = driver::run_batch(&exe, &[small.request()]).ok().map(|m| m[0].clone());
        let mut rj = small.replay();
        rj["implementation"] = json!(canon(small.filter, &out));
        rj["model"] = json!(model);
        rj["oracle"] = json!(verdict);
        rj["original_request"] = json!(clip(&c.request(), 2000));
        report.violation("property", summary, rj);
    }

    // ---- model-only mismatches: targeted burst through the direct oracle, then shrink and report
    if failures.is_empty() {
        let mut seen_mm: HashSet<String> = HashSet::new();
        for (c, imp, m) in mismatches.iter() {
            if report.violations.len() >= 5 {
                break;
            }
            let mut brng = Rng::new(env.seed ^ fingerprint(&c.request()) as u64);
            let variants: Vec<Case> = (0..400).map(|_| mutate(&mut brng, c)).collect();
            let vres = eval_all(&tera, &variants, threads);
            report.oracle_checks += vres.len() as u64;
            report.count_n("burst.variants", vres.len() as u64);
            if let Some(k) = vres.iter().position(|r| r.fail.is_some()) {
                report.oracle_failures += 1;
                let small = shrink(&variants[k], 20_000, &mut |cands: &[Case]| {
                    cands.iter().position(|k| {
                        let o = run(&tera, k);
                        oracle(&tera, k, &o).is_some()
                    })
                });
                let out = run(&tera, &small);
                let verdict = oracle(&tera, &small, &out).unwrap_or_default();
                let mut rj = small.replay();
                rj["implementation"] = json!(canon(small.filter, &out));
                rj["oracle"] = json!(verdict);
                report.violation("property", format!("{}: {} — on `{}` (found by the burst around a model mismatch)", small.filter, verdict, clip(&small.request(), 300)), rj);
                continue;
            }
            // no property failure around it: shrink the disagreement itself
            let small = shrink(c, 6_000, &mut |cands: &[Case]| {
                let reqs: Vec<String> = cands.iter().map(|k| k.request()).collect();
                let Ok(ms) = driver::run_batch(&exe, &reqs) else { return None };
                cands.iter().zip(ms.iter()).position(|(k, m)| m != "skip" && *m != canon(k.filter, &run(&tera, k)))
            });
            let req = small.request();
            if !seen_mm.insert(req.clone()) {
                continue;
            }
            let s_imp = canon(small.filter, &run(&tera, &small));
            let s_model = driver::run_batch(&exe, std::slice::from_ref(&req)).ok().map(|m| m[0].clone()).unwrap_or_default();
            let (s_imp, s_model, small) = if s_imp != s_model { (s_imp, s_model, small) } else { (imp.clone(), m.clone(), c.clone()) };
            let mut rj = small.replay();
            rj["stage"] = json!(format!("correspondence:{}", small.filter));
            rj["implementation"] = json!(s_imp);
            rj["model"] = json!(s_model);
            report.violation(
                "model-mismatch",
                format!("model `{}` vs implementation `{}` on `{}`", clip(&s_model, 200), clip(&s_imp, 200), clip(&small.request(), 300)),
                rj,
            );
        }
    }

    report.count_n("sort.cases", sort_total);
    report.count_n("sort.cases_ok", sort_ok);
    if sort_total > 0 {
        report.count_n("sort.ok_share_percent", sort_ok * 100 / sort_total);
    }
    if report.evaluations > 0 {
        report.count_n("reached_filter_body_percent", reached * 100 / report.evaluations);
    }
    report.count_n("reached_filter_body", reached);
    report.count_n("wall_seconds", started.elapsed().as_secs());
    report.rule = "a case is (filter, operand, argument) rendered through `{{ v | FILTER(arg) | probe }}`; it counts as non-trivial when the evaluation reached the body of the filter, i.e. it did not die converting the operand or an argument (outcome class other than `err arg`); distinct by the request string (filter, bit-exact wire encoding of the operand, argument)".into();
    report.notes.push(format!(
        "tier {}, seed {}, {} rounds of {} cases, array lengths up to {}, {} threads; every case is judged by the contract oracle (oracle_checks) and, unless the model answers `skip` (join of a float, bytes, array or map element: Display not modelled), compared with drv_c16",
        env.tier, env.seed, rounds, round_size, max_len, threads
    ));
    report.notes.push("the `get` filter and the Display of floats and nested values are outside this check (C17 / not modelled)".into());
    report.write(&out_path());
}
