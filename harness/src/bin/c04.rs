//! C04 — inheritance: blocks resolve to the most-derived override and super() walks up.
//!
//! Shapes are enumerated exhaustively: an inheritance chain of 1..L templates, up to three block
//! names, per level and block {absent, defined, defined calling super()} × every nesting forest of
//! the blocks a level defines, × every registration order of the chain.  For each shape:
//!  * what `finalize_templates` derived (`verif_hooks::dump_derived`: parents, lineage owners) vs
//!    the Lean model of the two lineage passes (`fin`) and vs `lineageSpec` evaluated by the model
//!    (`spec`)                                                              — correspondence
//!  * the same lineage vs a definers-cut computed here, and equality across registration orders
//!  * real `render` of every template vs a reference inheritance renderer written here (root body,
//!    every block replaced by its most-derived definition, super() = next definer up, error where
//!    there is none), and `render_block` of every (template, block) vs exactly the text the block
//!    wrote in the reference full render (blocks inside `{% filter %}` sections included)
//!                                                                          — the property itself
//! Work is done in worker processes (a stack overflow or hang names its culprit).
use std::collections::{BTreeMap, BTreeSet};
use std::io::{Read, Write};
use std::process::{Command, Stdio};
use std::time::{Duration, Instant};
use tera::{Context, Kwargs, State};
use tera_verif_harness::report::{out_path, replay_path, Report};
use tera_verif_harness::rng::Rng;
use tera_verif_harness::tplgen::{add_all, canon_err, engine, err_class, mark, real_derived, set_wire, BlockS, TplS};
use tera_verif_harness::{catch, driver, quiet_panics, Env};

const BLOCKS: [&str; 3] = ["x", "y", "z"];

/// what `{{ hv }}` prints: a string with HTML-special characters
const HOSTILE: &str = "<i>&";

/// the context of every render
fn ctx() -> Context {
    let mut c = Context::new();
    c.insert("hv", &HOSTILE);
    c
}

/// is a template of this name auto-escaped (default suffixes)?
fn autoescaped(name: &str) -> bool {
    [".html", ".htm", ".xml"].iter().any(|s| name.ends_with(s))
}

fn escape_html(s: &str) -> String {
    s.replace('&', "&amp;").replace('<', "&lt;").replace('>', "&gt;")
}

#[derive(Clone, Debug, serde::Serialize, serde::Deserialize)]
struct Case {
    /// chain, root first: tpls[i] extends tpls[i-1]
    tpls: Vec<TplS>,
    /// registration order (indices into tpls)
    order: Vec<usize>,
}

fn mix(seed: u64, a: u64, b: u64) -> u64 {
    let mut r = Rng::new(seed ^ a.wrapping_mul(0x9e3779b97f4a7c15) ^ b.wrapping_mul(0xc2b2ae3d27d4eb4f));
    r.next_u64()
}

/// All configurations of one level over the first `nb` block names:
/// per block (state 0 absent / 1 defined / 2 defined+super, nested_in index or usize::MAX)
fn level_configs(nb: usize) -> Vec<Vec<(u8, usize)>> {
    let mut out = Vec::new();
    let n_states = 3usize.pow(nb as u32);
    for s in 0..n_states {
        let st: Vec<u8> = (0..nb).map(|i| ((s / 3usize.pow(i as u32)) % 3) as u8).collect();
        let defined: Vec<usize> = (0..nb).filter(|&i| st[i] > 0).collect();
        // every parent assignment among defined blocks (none = MAX) that is a forest
        let k = defined.len();
        let opts = k + 1;
        for code in 0..opts.pow(k as u32) {
            let mut parent = vec![usize::MAX; nb];
            let mut ok = true;
            for (pos, &b) in defined.iter().enumerate() {
                let c = (code / opts.pow(pos as u32)) % opts;
                if c > 0 {
                    let p = defined[c - 1];
                    if p == b {
                        ok = false;
                        break;
                    }
                    parent[b] = p;
                }
            }
            if !ok {
                continue;
            }
            // acyclic?
            for &b in &defined {
                let mut cur = b;
                let mut steps = 0;
                while parent[cur] != usize::MAX {
                    cur = parent[cur];
                    steps += 1;
                    if steps > nb {
                        ok = false;
                        break;
                    }
                }
            }
            if ok {
                out.push((0..nb).map(|i| (st[i], parent[i])).collect());
            }
        }
    }
    out
}

struct Plan {
    /// (chain length, number of block names, 0 = every shape | n = a seeded sample of n shapes)
    parts: Vec<(usize, usize, u64)>,
}

fn plan(quick: bool) -> Plan {
    if quick {
        Plan { parts: vec![(1, 3, 0), (2, 3, 0), (3, 2, 0)] }
    } else {
        Plan { parts: vec![(1, 3, 0), (2, 3, 0), (3, 2, 0), (4, 2, 0), (5, 1, 0), (3, 3, 1_500_000), (4, 3, 300_000), (5, 2, 150_000), (5, 3, 150_000)] }
    }
}

/// number of cases a part contributes and the shape index of its `j`-th case
fn part_cases(len: usize, nb: usize, sample: u64) -> u64 {
    if sample == 0 { part_size(len, nb) } else { sample }
}
fn part_shape_index(len: usize, nb: usize, sample: u64, j: u64, seed: u64) -> u64 {
    if sample == 0 { j } else { mix(seed, j, 4242 + len as u64 * 16 + nb as u64) % part_size(len, nb) }
}

fn perms(n: usize) -> Vec<Vec<usize>> {
    fn go(cur: &mut Vec<usize>, used: &mut Vec<bool>, n: usize, out: &mut Vec<Vec<usize>>) {
        if cur.len() == n {
            out.push(cur.clone());
            return;
        }
        for i in 0..n {
            if !used[i] {
                used[i] = true;
                cur.push(i);
                go(cur, used, n, out);
                cur.pop();
                used[i] = false;
            }
        }
    }
    let mut out = Vec::new();
    go(&mut Vec::new(), &mut vec![false; n], n, &mut out);
    out
}

/// number of shapes of a part and the shape with a given index
fn part_size(len: usize, nb: usize) -> u64 {
    (level_configs(nb).len() as u64).pow(len as u32)
}

fn shape(len: usize, nb: usize, configs: &[Vec<(u8, usize)>], mut idx: u64, seed: u64) -> Vec<TplS> {
    let names = ["base.html", "mid", "leaf.html", "l4", "l5"];
    let salt = idx;
    // a third of the shapes write HTML-special characters (literal text and escaped data) in their
    // blocks; those shapes have no filter sections (what a filter section does to literal text in
    // an auto-escaped template is another property's business)
    let special_shape = mix(seed, salt, 999) % 3 == 0;
    let mut tpls = Vec::new();
    for lvl in 0..len {
        let cfg = &configs[(idx % configs.len() as u64) as usize];
        idx /= configs.len() as u64;
        let mut t = TplS::new(names[lvl]);
        if lvl > 0 {
            t.parent = Some(names[lvl - 1].to_string());
        }
        // emit blocks so that an enclosing block precedes nothing in particular: order by index
        for b in 0..nb {
            let (st, par) = cfg[b];
            if st == 0 {
                continue;
            }
            t.blocks.push(BlockS {
                name: BLOCKS[b].to_string(),
                calls_super: st == 2,
                nested_in: (par != usize::MAX).then(|| BLOCKS[par].to_string()),
                includes: vec![],
                in_filter: !special_shape && mix(seed, salt, (lvl * 8 + b) as u64) % 3 == 0,
                super_twice: st == 2 && mix(seed, salt, (100 + lvl * 8 + b) as u64) % 4 == 0,
                call_before_super: st == 2 && mix(seed, salt, (200 + lvl * 8 + b) as u64) % 4 == 1,
                // an EMPTY definition (no instruction at all), only where nothing is nested in it
                empty: st == 1 && !(0..nb).any(|c| cfg[c].0 > 0 && cfg[c].1 == b) && mix(seed, salt, (300 + lvl * 8 + b) as u64) % 4 == 2,
                special: special_shape && mix(seed, salt, (400 + lvl * 8 + b) as u64) % 2 == 0,
            });
        }
        tpls.push(t);
    }
    tpls
}

// ---------------------------------------------------------------- reference semantics

struct Ref<'a> {
    tpls: &'a [TplS],
    /// text written by each block the last time it ran (block name → raw text)
    written: BTreeMap<String, String>,
    depth_exceeded: bool,
}

#[derive(Debug, Clone, PartialEq)]
enum RefErr {
    SuperAtTop,
    TooDeep,
}

impl<'a> Ref<'a> {
    fn get(&self, name: &str) -> &'a TplS {
        self.tpls.iter().find(|t| t.name == name).expect("chain template")
    }
    /// most derived first
    fn chain(&self, t: &str) -> Vec<&'a TplS> {
        let mut v = vec![self.get(t)];
        while let Some(p) = &v.last().unwrap().parent {
            v.push(self.get(p));
        }
        v
    }
    fn definers(&self, view: &str, b: &str) -> Vec<&'a TplS> {
        self.chain(view).into_iter().filter(|t| t.blocks.iter().any(|x| x.name == b)).collect()
    }
    /// the text block `b` writes when `RenderBlock b` runs while rendering template `view`
    fn block(&mut self, view: &str, b: &str, depth: usize) -> Result<String, RefErr> {
        let defs = self.definers(view, b);
        let text = self.level(view, b, &defs, 0, depth)?;
        self.written.insert(b.to_string(), text.clone());
        Ok(text)
    }
    fn level(&mut self, view: &str, b: &str, defs: &[&'a TplS], i: usize, depth: usize) -> Result<String, RefErr> {
        if depth > 40 {
            self.depth_exceeded = true;
            return Err(RefErr::TooDeep);
        }
        let owner = defs[i];
        let d = owner.blocks.iter().find(|x| x.name == b).unwrap();
        if d.empty {
            // an empty definition is still THE definition at its level: it writes nothing
            return Ok(String::new());
        }
        let mut s = format!("[{}@{}{}:", b, mark(&owner.name), mark(&owner.tag));
        if d.special {
            // literal text is never escaped; data is escaped once, by the flag of the template that
            // is being rendered (`view`), wherever the block was written
            s.push_str("<&>");
            s.push_str(&if autoescaped(view) { escape_html(HOSTILE) } else { HOSTILE.to_string() });
        }
        let mut again = String::new();
        if d.calls_super {
            if d.call_before_super {
                // `{% for i in range(end=2) %}{{ i }}{% endfor %}` written before super()
                s.push_str("01");
            }
            if i + 1 < defs.len() {
                let up = self.level(view, b, defs, i + 1, depth + 1)?;
                s.push_str(&up);
                if d.super_twice {
                    // the second super() of the same block must reach the same level again
                    again = self.level(view, b, defs, i + 1, depth + 1)?;
                }
            } else {
                return Err(RefErr::SuperAtTop);
            }
        }
        for c in owner.blocks.iter().filter(|c| c.nested_in.as_deref() == Some(b)) {
            let inner = self.block(view, &c.name, depth + 1)?;
            s.push_str(&if c.in_filter { inner.to_uppercase() } else { inner });
        }
        s.push_str(&again);
        s.push(']');
        Ok(s)
    }
    /// what `{% include "t" %}` writes: `t`'s OWN main chunk, its blocks resolved in `t`'s own chain
    fn render_own(&mut self, t: &str) -> Result<String, RefErr> {
        let me = self.get(t);
        let mut s = format!("{{{}{}:", mark(&me.name), mark(&me.tag));
        for b in me.blocks.iter().filter(|b| b.nested_in.is_none()) {
            let inner = self.block(t, &b.name, 1)?;
            s.push_str(&if b.in_filter { inner.to_uppercase() } else { inner });
        }
        s.push('}');
        Ok(s)
    }
    /// full render of `view`: the root ancestor's body
    fn render(&mut self, view: &str) -> Result<String, RefErr> {
        let chain = self.chain(view);
        let root = *chain.last().unwrap();
        let mut s = format!("{{{}{}:", mark(&root.name), mark(&root.tag));
        for b in root.blocks.iter().filter(|b| b.nested_in.is_none()) {
            let inner = self.block(view, &b.name, 1)?;
            s.push_str(&if b.in_filter { inner.to_uppercase() } else { inner });
        }
        s.push('}');
        Ok(s)
    }
}

/// definers of the chain cut after the first that does not call super(): owners, most derived first
fn lineage_ref(tpls: &[TplS], view: &str, b: &str) -> Option<Vec<String>> {
    let r = Ref { tpls, written: BTreeMap::new(), depth_exceeded: false };
    let defs = r.definers(view, b);
    if defs.is_empty() {
        return None;
    }
    let mut out = Vec::new();
    for t in defs {
        out.push(t.name.clone());
        if !t.blocks.iter().find(|x| x.name == b).unwrap().calls_super {
            break;
        }
    }
    Some(out)
}

/// a child's top-level block that no ancestor defines
fn has_orphan(tpls: &[TplS]) -> bool {
    for (i, t) in tpls.iter().enumerate() {
        if i == 0 {
            continue;
        }
        for b in t.blocks.iter().filter(|b| b.nested_in.is_none()) {
            if !tpls[..i].iter().any(|a| a.blocks.iter().any(|x| x.name == b.name)) {
                return true;
            }
        }
    }
    false
}

// ---------------------------------------------------------------- one shape on the real engine

#[derive(Default, Debug)]
struct Outcome {
    /// "ok <dump>" | "err …" | "panic …" for the first registration order
    imp: String,
    /// description of a failed direct oracle, if any
    failure: Option<String>,
    /// the render-time call graph is cyclic (reference renderer exceeded its depth): renders skipped
    call_cycle: bool,
    renders: u32,
    render_errors: u32,
    block_renders: u32,
    /// re-registrations of one template of an accepted chain
    history_steps: u32,
    /// per template: "ok <text>" | "err <class>" | "skip" (cyclic call graph), in chain order
    render_results: Vec<String>,
}

fn register(tpls: &[TplS], order: &[usize]) -> (String, Option<tera::Tera>) {
    let ordered: Vec<TplS> = order.iter().map(|&i| tpls[i].clone()).collect();
    let r = catch(std::panic::AssertUnwindSafe(|| {
        let mut tera = engine(&[]);
        match add_all(&mut tera, &ordered) {
            Ok(()) => (format!("ok {}", real_derived(&tera).canon()), Some(tera)),
            Err(e) => (canon_err(&e), None),
        }
    }));
    match r {
        Ok(x) => x,
        Err(p) => (format!("panic {p}"), None),
    }
}

fn class_of(r: &Result<Result<String, tera::Error>, String>) -> String {
    match r {
        Ok(Ok(s)) => format!("ok:{s}"),
        Ok(Err(e)) => format!("err:{}", err_class(&canon_err(e))),
        Err(p) => format!("panic:{p}"),
    }
}

fn run_shape(tpls: &[TplS], orders: &[Vec<usize>]) -> Outcome {
    let mut o = Outcome::default();
    let (imp, tera) = register(tpls, &orders[0]);
    o.imp = imp.clone();
    // registration order must not matter
    for ord in &orders[1..] {
        let (other, _) = register(tpls, ord);
        if other != imp {
            o.failure = Some(format!("registration order {ord:?} gives `{other}` but order {:?} gives `{imp}`", orders[0]));
            return o;
        }
    }
    if imp.starts_with("panic") {
        o.failure = Some(format!("registration panicked: {imp}"));
        return o;
    }
    let orphan = has_orphan(tpls);
    if orphan != imp.starts_with("err") {
        o.failure = Some(if orphan {
            "a child defines a top-level block no ancestor defines, yet the set was accepted".to_string()
        } else {
            format!("rejected with `{imp}` although every top-level child block exists in an ancestor")
        });
        return o;
    }
    if orphan && err_class(&imp) != "msg" {
        o.failure = Some(format!("orphan block reported as `{imp}`"));
        return o;
    }
    let Some(tera) = tera else { return o };
    // lineage: definers cut, for every (template, block)
    let d = real_derived(&tera);
    for t in tpls {
        let real = &d.tpls[&t.name];
        for b in BLOCKS {
            let want = lineage_ref(tpls, &t.name, b);
            let got = real.lineage.get(b).cloned();
            if want != got {
                o.failure = Some(format!("lineage of block `{b}` in `{}`: engine {got:?}, definers cut after the first without super(): {want:?}", t.name));
                return o;
            }
        }
    }
    // renders
    for t in tpls {
        let mut r = Ref { tpls, written: BTreeMap::new(), depth_exceeded: false };
        let want = r.render(&t.name);
        if r.depth_exceeded {
            o.call_cycle = true;
            o.render_results.push("skip".into());
            continue;
        }
        let got = class_of(&catch(std::panic::AssertUnwindSafe(|| tera.render(&t.name, &ctx()))));
        o.render_results.push(got.replacen(':', " ", 1));
        o.renders += 1;
        let want_s = match &want {
            Ok(s) => format!("ok:{s}"),
            Err(_) => "err:rendering".to_string(),
        };
        if want.is_err() {
            o.render_errors += 1;
        }
        if got != want_s {
            o.failure = Some(format!("render of `{}`: engine `{got}`, reference `{want_s}`", t.name));
            return o;
        }
        // render_block of every block name
        let in_lineage: BTreeSet<&str> = BLOCKS.iter().copied().filter(|b| lineage_ref(tpls, &t.name, b).is_some()).collect();
        for b in BLOCKS {
            let got = class_of(&catch(std::panic::AssertUnwindSafe(|| tera.render_block(&t.name, b, &ctx()))));
            o.block_renders += 1;
            if got.starts_with("panic") {
                o.failure = Some(format!("render_block(`{}`, `{b}`) panicked: {got}", t.name));
                return o;
            }
            // the writer variant must answer the same (text, or the same kind of error)
            let got_to = class_of(&catch(std::panic::AssertUnwindSafe(|| {
                let mut buf: Vec<u8> = Vec::new();
                tera.render_block_to(&t.name, b, &ctx(), &mut buf).map(|()| String::from_utf8_lossy(&buf).to_string())
            })));
            if got_to != got {
                o.failure = Some(format!("render_block_to(`{}`, `{b}`) gives `{got_to}` but render_block gives `{got}`", t.name));
                return o;
            }
            if !in_lineage.contains(b) {
                if !got.starts_with("err:") {
                    o.failure = Some(format!("render_block(`{}`, `{b}`): no template of the chain defines the block, engine `{got}`", t.name));
                    return o;
                }
                continue;
            }
            if want.is_ok() {
                let text = r.written.get(b).cloned().unwrap_or_default();
                if got != format!("ok:{text}") {
                    o.failure = Some(format!("render_block(`{}`, `{b}`): engine `{got}`, the block wrote `{text}` in the full render", t.name));
                    return o;
                }
            }
        }
    }
    // re-register each template in turn (same blocks, new bodies: tag `v2`), without touching the
    // others: every template must then render as in a fresh instance given the updated set, and
    // the stored lineage (chunk ids included) must be the fresh one.  Then CHANGE the chain above
    // the descendants: a new root `layout.html` is added, the old root is re-registered as its
    // child (a level inserted, every descendant re-parented to another root), and re-registered
    // as a root again (the level removed).
    fn verify(tera: &tera::Tera, cur: &[TplS], what: &str, renders: &mut u32) -> Option<String> {
        let (fresh_imp, fresh) = register(cur, &(0..cur.len()).collect::<Vec<_>>());
        let Some(fresh) = fresh else {
            return Some(format!("a fresh instance rejects the set after {what}: {fresh_imp}"));
        };
        let (dh, df) = (real_derived(tera), real_derived(&fresh));
        if dh != df {
            // the first template whose derived data differs, in full
            let first = dh.tpls.iter().find(|(n, t)| df.tpls.get(*n) != Some(*t)).map(|(n, t)| format!("`{n}`: history {t:?} vs fresh {:?}", df.tpls.get(n)));
            return Some(format!(
                "after {what} the derived data differs from a fresh instance given the same set: {}",
                first.unwrap_or_else(|| format!("templates {:?} vs {:?}, components {:?} vs {:?}", dh.tpls.keys().collect::<Vec<_>>(), df.tpls.keys().collect::<Vec<_>>(), dh.comps, df.comps))
            ));
        }
        for t in cur {
            let mut r = Ref { tpls: cur, written: BTreeMap::new(), depth_exceeded: false };
            let want = r.render(&t.name);
            if r.depth_exceeded {
                continue;
            }
            let got = class_of(&catch(std::panic::AssertUnwindSafe(|| tera.render(&t.name, &ctx()))));
            *renders += 1;
            let want_s = match &want {
                Ok(s) => format!("ok:{s}"),
                Err(_) => "err:rendering".to_string(),
            };
            if got != want_s {
                return Some(format!("after {what}: render of `{}`: engine `{got}`, reference `{want_s}`", t.name));
            }
        }
        None
    }
    if tpls.len() >= 2 && !o.call_cycle {
        let mut tera = tera;
        let mut cur: Vec<TplS> = tpls.to_vec();
        let mut readd = |tera: &mut tera::Tera, t: &TplS| -> Option<String> {
            match catch(std::panic::AssertUnwindSafe(|| tera.add_raw_template(&t.name, &t.source()))) {
                Ok(Ok(())) => None,
                other => Some(format!("registering `{}` ({}) failed: {:?}", t.name, t.source(), other.map(|r| r.map_err(|e| canon_err(&e))))),
            }
        };
        for a in 0..tpls.len() {
            cur[a].tag = "v2".to_string();
            o.history_steps += 1;
            if let Some(f) = readd(&mut tera, &cur[a]) {
                o.failure = Some(f);
                return o;
            }
            if let Some(f) = verify(&tera, &cur, &format!("re-registering `{}` (same block names, new bodies)", cur[a].name), &mut o.renders) {
                o.failure = Some(f);
                return o;
            }
        }
        // a REJECTED re-registration of each template (it parses, has new block bodies, but uses an
        // unknown filter): the call must fail and leave every template, its lineage chunks included,
        // and every render as before
        for a in 0..tpls.len() {
            let mut rejected = cur[a].clone();
            rejected.tag = "rej".to_string();
            rejected.bad_ref = Some("filter".to_string());
            o.history_steps += 1;
            match catch(std::panic::AssertUnwindSafe(|| tera.add_raw_template(&rejected.name, &rejected.source()))) {
                Ok(Err(e)) if err_class(&canon_err(&e)) == "msg" => {}
                other => {
                    o.failure = Some(format!("re-registering `{}` with an unknown filter must fail with the collected message error, got {:?}", rejected.name, other.map(|r| r.map_err(|e| canon_err(&e)))));
                    return o;
                }
            }
            if let Some(f) = verify(&tera, &cur, &format!("a REJECTED re-registration of `{}` (new block bodies, unknown filter): the instance must be as before the call", rejected.name), &mut o.renders) {
                o.failure = Some(f);
                return o;
            }
        }
        // a new root that defines every block name of the chain at top level
        let names: BTreeSet<String> = cur.iter().flat_map(|t| t.blocks.iter().map(|b| b.name.clone())).collect();
        let mut layout = TplS::new("layout.html");
        layout.tag = "L".into();
        layout.blocks = names.iter().map(|n| BlockS { name: n.clone(), ..Default::default() }).collect();
        let root_name = cur[0].name.clone();
        o.history_steps += 1;
        if let Some(f) = readd(&mut tera, &layout) {
            o.failure = Some(f);
            return o;
        }
        cur.insert(0, layout);
        for (parent, tag, what) in [
            (Some("layout.html".to_string()), "v3", format!("re-registering the root `{root_name}` as a child of the new root `layout.html` (every descendant gets another root)")),
            (None, "v4", format!("re-registering `{root_name}` as a root again (a level removed from every chain)")),
        ] {
            cur[1].parent = parent;
            cur[1].tag = tag.to_string();
            o.history_steps += 1;
            if let Some(f) = readd(&mut tera, &cur[1]) {
                o.failure = Some(f);
                return o;
            }
            if let Some(f) = verify(&tera, &cur, &what, &mut o.renders) {
                o.failure = Some(f);
                return o;
            }
        }
    }
    // the chain seen from outside: a template `user.html` that has blocks of its own (one with the
    // same name as a block of the chain, one unknown to the chain) INCLUDES the root, resp. the
    // most derived template: the included template's blocks are its own (looked up in ITS chain)
    if !o.call_cycle {
        // (the most derived template always, the root for half of the longer chains)
        let mut targets = vec![tpls[tpls.len() - 1].name.clone()];
        if tpls.len() >= 2 && tpls.iter().map(|t| t.source().len()).sum::<usize>() % 2 == 0 {
            targets.push(tpls[0].name.clone());
        }
        for target in targets {
            let mut user = TplS::new("user.html");
            user.top_includes.push(target.clone());
            user.blocks.push(BlockS { name: "x".into(), ..Default::default() });
            user.blocks.push(BlockS { name: "w".into(), ..Default::default() });
            let mut set = tpls.to_vec();
            set.push(user.clone());
            let (imp2, t2) = register(&set, &(0..set.len()).collect::<Vec<_>>());
            let Some(t2) = t2 else {
                o.failure = Some(format!("the accepted chain plus a template including `{target}` is answered `{imp2}`"));
                return o;
            };
            let mut r = Ref { tpls: &set, written: BTreeMap::new(), depth_exceeded: false };
            let inner = r.render_own(&target);
            if r.depth_exceeded {
                continue;
            }
            let want_s = match inner {
                Ok(inner) => format!("ok:{{user_html:{inner}[x@user_html:][w@user_html:]}}"),
                Err(_) => "err:rendering".to_string(),
            };
            let got = class_of(&catch(std::panic::AssertUnwindSafe(|| t2.render("user.html", &ctx()))));
            o.renders += 1;
            if got != want_s {
                o.failure = Some(format!("`user.html` (own blocks `x`, `w`) includes `{target}`: engine `{got}`, reference (the included template renders its own body with its own blocks) `{want_s}`"));
                return o;
            }
        }
    }
    // the same chain loaded from FILES, descendants listed first (for a deterministic quarter of the
    // shapes): add_template_files must answer as add_raw_templates does
    if tpls.len() >= 2 && tpls.iter().map(|t| t.source().len()).sum::<usize>() % 4 == 0 {
        let r = catch(std::panic::AssertUnwindSafe(|| {
            let dir = std::env::temp_dir().join(format!("tera_verif_c04_{}", std::process::id()));
            let _ = std::fs::create_dir_all(&dir);
            let files: Vec<(std::path::PathBuf, Option<String>)> = tpls
                .iter()
                .rev()
                .enumerate()
                .map(|(i, t)| {
                    let path = dir.join(format!("t{i}.tpl"));
                    std::fs::write(&path, t.source()).expect("write template file");
                    (path, Some(t.name.clone()))
                })
                .collect();
            let mut tera = engine(&[]);
            let ans = match tera.add_template_files(files.clone()) {
                Ok(()) => format!("ok {}", real_derived(&tera).canon()),
                Err(e) => canon_err(&e),
            };
            for (p, _) in &files {
                let _ = std::fs::remove_file(p);
            }
            let _ = std::fs::remove_dir(&dir);
            ans
        }));
        let ans = r.unwrap_or_else(|p| format!("panic {p}"));
        let same = if ans.starts_with("ok") || o.imp.starts_with("ok") { ans == o.imp } else { err_class(&ans) == err_class(&o.imp) };
        if !same {
            o.failure = Some(format!("the chain loaded from files with add_template_files, most derived template listed first, is answered `{}` but add_raw_templates answers `{}`", ans.chars().take(160).collect::<String>(), o.imp.chars().take(160).collect::<String>()));
            return o;
        }
    }
    // an application function registered under the very name `super`: inside a block `super()` still
    // means the parent block
    if !o.call_cycle && tpls.iter().any(|t| t.blocks.iter().any(|b| b.calls_super)) {
        let reg = catch(std::panic::AssertUnwindSafe(|| {
            let mut t = engine(&[]);
            t.register_function("super", |_: Kwargs, _: &State| "CUSTOM".to_string());
            add_all(&mut t, tpls).map(|()| t).map_err(|e| canon_err(&e))
        }));
        match reg {
            Ok(Ok(t2)) => {
                for t in tpls {
                    let mut r = Ref { tpls, written: BTreeMap::new(), depth_exceeded: false };
                    let want = r.render(&t.name);
                    if r.depth_exceeded {
                        continue;
                    }
                    let got = class_of(&catch(std::panic::AssertUnwindSafe(|| t2.render(&t.name, &ctx()))));
                    o.renders += 1;
                    let want_s = match &want {
                        Ok(s) => format!("ok:{s}"),
                        Err(_) => "err:rendering".to_string(),
                    };
                    if got != want_s {
                        o.failure = Some(format!("with an application function registered under the name `super`: render of `{}`: engine `{got}`, reference (super() = the parent block) `{want_s}`", t.name));
                        return o;
                    }
                }
            }
            other => {
                o.failure = Some(format!("with a function named `super` registered the accepted chain is answered {:?}", other.map(|r| r.map(|_| "ok"))));
                return o;
            }
        }
    }
    // the same chain with the root living under the FIRST of two fallback prefixes and a decoy of
    // the same short name under the second: `extends "<short name>"` must link to the first
    if tpls.len() >= 2 && !o.call_cycle {
        let prefixes = vec!["th/".to_string(), "alt/".to_string()];
        let short = tpls[0].name.clone();
        let mut real: Vec<TplS> = tpls.to_vec();
        real[0].name = format!("th/{short}");
        let mut decoy = TplS::new(&format!("alt/{short}"));
        decoy.tag = "decoy".into();
        let names: BTreeSet<String> = tpls.iter().flat_map(|t| t.blocks.iter().map(|b| b.name.clone())).collect();
        decoy.blocks = names.iter().map(|n| BlockS { name: n.clone(), ..Default::default() }).collect();
        real.push(decoy);
        let mut refv = real.clone();
        refv[1].parent = Some(format!("th/{short}"));
        let reg = catch(std::panic::AssertUnwindSafe(|| {
            let mut t = engine(&prefixes);
            add_all(&mut t, &real).map(|()| t).map_err(|e| canon_err(&e))
        }));
        match reg {
            Ok(Ok(t2)) => {
                let d = real_derived(&t2);
                let got_parents = d.tpls.get(&real[1].name).map(|t| t.parents.clone()).unwrap_or_default();
                if got_parents.first() != Some(&format!("th/{short}")) {
                    o.failure = Some(format!("prefixes {prefixes:?}: `{}` extends \"{short}\", which exists as `th/{short}` and `alt/{short}`: the first prefix must win, engine parents {got_parents:?}", real[1].name));
                    return o;
                }
                for t in &real {
                    let mut r = Ref { tpls: &refv, written: BTreeMap::new(), depth_exceeded: false };
                    let want = r.render(&t.name);
                    if r.depth_exceeded {
                        continue;
                    }
                    let got = class_of(&catch(std::panic::AssertUnwindSafe(|| t2.render(&t.name, &ctx()))));
                    o.renders += 1;
                    let want_s = match &want {
                        Ok(s) => format!("ok:{s}"),
                        Err(_) => "err:rendering".to_string(),
                    };
                    if got != want_s {
                        o.failure = Some(format!("prefixes {prefixes:?}, root registered as `th/{short}` with a decoy `alt/{short}`: render of `{}`: engine `{got}`, reference `{want_s}`", t.name));
                        return o;
                    }
                }
            }
            other => {
                o.failure = Some(format!("prefixes {prefixes:?}, root registered as `th/{short}` with a decoy `alt/{short}`: the chain is answered {:?}", other.map(|r| r.map(|_| "ok"))));
                return o;
            }
        }
    }
    o
}

// ---------------------------------------------------------------- workers

fn start_watchdog(progress: std::sync::Arc<std::sync::atomic::AtomicU64>, secs: u64) {
    std::thread::spawn(move || {
        let t0 = Instant::now();
        loop {
            std::thread::sleep(Duration::from_millis(200));
            let last = progress.load(std::sync::atomic::Ordering::Relaxed);
            if t0.elapsed().as_millis() as u64 > last + secs * 1000 {
                std::process::exit(3);
            }
        }
    });
}

/// worker: the shapes `k, k + stride, …` of every part whose global index is greater than `after`
/// (a worker restarted after a culprit skips what was done); everything that touches the engine
/// happens in workers
fn child_exhaustive(quick: bool, seed: u64, k: u64, stride: u64, after: i64) {
    let p = plan(quick);
    let progress = std::sync::Arc::new(std::sync::atomic::AtomicU64::new(0));
    start_watchdog(progress.clone(), 30);
    let t_start = Instant::now();
    let stdout = std::io::stdout();
    let mut w = std::io::BufWriter::new(stdout.lock());
    let mut base = 0u64;
    for &(len, nb, sample) in &p.parts {
        let configs = level_configs(nb);
        let size = part_cases(len, nb, sample);
        let all_orders = perms(len);
        let mut idx = k;
        while idx < size {
            let tpls = shape(len, nb, &configs, part_shape_index(len, nb, sample, idx, seed), seed);
            // all orders up to 3 levels, a seeded sample of 4 beyond
            let orders: Vec<Vec<usize>> = if all_orders.len() <= 6 {
                all_orders.clone()
            } else {
                (0..4).map(|j| all_orders[(mix(seed, idx, j) % all_orders.len() as u64) as usize].clone()).collect()
            };
            if ((base + idx) as i64) <= after {
                idx += stride;
                continue;
            }
            progress.store(t_start.elapsed().as_millis() as u64, std::sync::atomic::Ordering::Relaxed);
            writeln!(w, "at {}", base + idx).unwrap();
            w.flush().unwrap();
            let o = run_shape(&tpls, &orders);
            writeln!(
                w,
                "{}\t{}\t{}\t{}\t{}\t{}\t{}\t{}\t{}\t{}",
                base + idx,
                o.imp,
                o.failure.clone().unwrap_or_default().replace(['\t', '\n'], " "),
                o.call_cycle as u8,
                o.renders,
                o.render_errors,
                o.block_renders,
                orders.len(),
                o.render_results.join("|"),
                o.history_steps
            )
            .unwrap();
            idx += stride;
        }
        base += size;
    }
    w.flush().unwrap();
}

fn locate(quick: bool, global: u64, seed: u64) -> Vec<TplS> {
    let p = plan(quick);
    let mut base = 0u64;
    for &(len, nb, sample) in &p.parts {
        let size = part_cases(len, nb, sample);
        if global < base + size {
            return shape(len, nb, &level_configs(nb), part_shape_index(len, nb, sample, global - base, seed), seed);
        }
        base += size;
    }
    panic!("index out of range")
}

fn run_child(args: &[String], timeout: Duration) -> (String, String) {
    let exe = std::env::current_exe().expect("own path");
    let mut child = Command::new(exe).args(args).stdin(Stdio::null()).stdout(Stdio::piped()).stderr(Stdio::null()).spawn().expect("spawn child");
    let mut stdout = child.stdout.take().unwrap();
    let reader = std::thread::spawn(move || {
        let mut s = String::new();
        let _ = stdout.read_to_string(&mut s);
        s
    });
    let t0 = Instant::now();
    let status = loop {
        match child.try_wait() {
            Ok(Some(st)) => break if st.success() { "exit0".to_string() } else { format!("died {st}") },
            Ok(None) => {
                if t0.elapsed() > timeout {
                    let _ = child.kill();
                    let _ = child.wait();
                    break "timeout".to_string();
                }
                std::thread::sleep(Duration::from_millis(5));
            }
            Err(e) => break format!("wait failed {e}"),
        }
    };
    (status, reader.join().unwrap_or_default())
}

/// worker: `run_shape` on the chain of a JSON file; prints `{"imp", "failure"}`
fn child_shape(path: &str) {
    let c: Case = serde_json::from_str(&std::fs::read_to_string(path).expect("case file")).expect("case json");
    let progress = std::sync::Arc::new(std::sync::atomic::AtomicU64::new(0));
    start_watchdog(progress, 30);
    let orders: Vec<Vec<usize>> = perms(c.tpls.len()).into_iter().take(6).collect();
    let o = run_shape(&c.tpls, &orders);
    println!("{}", serde_json::json!({"imp": o.imp, "failure": o.failure}));
}

/// `run_shape` in a worker process (the parent never calls the engine): (registration answer,
/// failed oracle); when the engine aborts or hangs the answer is `died <status>`
fn safe_shape(tpls: &[TplS]) -> (String, Option<String>) {
    let dir = std::env::temp_dir().join(format!("c04-{}", std::process::id()));
    let _ = std::fs::create_dir_all(&dir);
    let path = dir.join(format!("shape-{:?}.json", std::thread::current().id()).replace(['(', ')'], ""));
    std::fs::write(&path, serde_json::to_string(&Case { tpls: tpls.to_vec(), order: (0..tpls.len()).collect() }).unwrap()).unwrap();
    let (status, out) = run_child(&["--child".into(), "shape".into(), path.to_string_lossy().to_string()], Duration::from_secs(90));
    let _ = std::fs::remove_file(&path);
    let _ = std::fs::remove_dir(&dir);
    if status == "exit0" {
        if let Ok(j) = serde_json::from_str::<serde_json::Value>(out.trim()) {
            return (j["imp"].as_str().unwrap_or("").to_string(), j["failure"].as_str().map(|s| s.to_string()));
        }
    }
    let st = if status.contains("exit status: 3") { "timeout (no answer within 30 s)".to_string() } else { status };
    (format!("died {st}"), Some(format!("the engine did not return while this chain was registered / rendered (worker {st})")))
}

// ---------------------------------------------------------------- fixed families (literal sources)
//
// Chains the summary generator cannot express (they need a counter, a loop or a character of the
// source text); every expected text is computed here from the parameters of the family.

#[derive(Clone, Debug, serde::Serialize, serde::Deserialize)]
struct Fixed {
    label: String,
    /// (name, source), registered in one batch in this order and in the reverse order
    tpls: Vec<(String, String)>,
    /// the context, as a JSON object
    context: serde_json::Value,
    /// (template, block or "" for a whole render, expected answer)
    calls: Vec<(String, String, String)>,
}

fn fixed_family() -> Vec<Fixed> {
    let mut v = Vec::new();
    // (a) the same block active twice in one render: `a` is defined at the top level of the root
    // and again, nested in `c`, in the leaf; the leaf's definition calls super() while a counter is
    // below k, so the root's `a` runs b -> c -> a again, and the inner super() must read the inner
    // activation's level
    fn reentrant(i: u32, k: u32) -> String {
        if i < k { format!("a{i}[<{}>]", reentrant(i + 1, k)) } else { format!("a{i}") }
    }
    for k in [1u32, 2, 3, 5] {
        for wrap in [false, true] {
            let (o, c) = if wrap { ("{% filter upper %}", "{% endfilter %}") } else { ("", "") };
            let tpls = vec![
                ("base".to_string(), "{% block a %}[{% block b %}b{% endblock %}]{% endblock %}".to_string()),
                ("mid".to_string(), format!("{{% extends \"base\" %}}{{% block b %}}<{o}{{% block c %}}c{{% endblock %}}{c}>{{% endblock %}}")),
                (
                    "leaf".to_string(),
                    format!("{{% extends \"mid\" %}}{{% block c %}}{{% block a %}}{{% set_global n = n + 1 %}}a{{{{ n }}}}{{% if n < {k} %}}{{{{ super() }}}}{{% endif %}}{{% endblock %}}{{% endblock %}}"),
                ),
            ];
            // the first activation of `a` comes from the root's top level, outside the filter section
            let plain = reentrant(1, k);
            let want = if wrap { format!("a1{}", plain[2..].to_uppercase()) } else { plain };
            v.push(Fixed {
                label: format!("reentrant-block k={k} filter={wrap}"),
                tpls,
                context: serde_json::json!({"n": 0}),
                calls: vec![
                    ("leaf".into(), "".into(), format!("ok {want}")),
                    ("mid".into(), "".into(), format!("ok [<{}>]", if wrap { "C" } else { "c" })),
                    ("base".into(), "".into(), "ok [b]".into()),
                ],
            });
        }
    }
    // (b) super() inside a `for` of a child block; the ancestor's definition contains a nested
    // block whose (most derived) definition reads the loop variable
    for labels in [vec![], vec!["a"], vec!["a", "b"], vec!["x", "y", "z"]] {
        let tpls = vec![
            ("base".to_string(), "{% block list %}({% block item %}{{ label | default(value=\"none\") }}{% endblock %}){% endblock %}".to_string()),
            ("leaf".to_string(), "{% extends \"base\" %}{% block list %}{% for label in labels %}{{ super() }}{% endfor %}{% endblock %}".to_string()),
            ("leaf2".to_string(), "{% extends \"leaf\" %}{% block item %}item-{{ label }}{% endblock %}".to_string()),
            ("leaf3".to_string(), "{% extends \"leaf2\" %}{% block list %}{% for outer in labels %}<{{ outer }}:{{ super() }}>{% endfor %}{% endblock %}".to_string()),
        ];
        let leaf: String = labels.iter().map(|l| format!("({l})")).collect();
        let leaf2: String = labels.iter().map(|l| format!("(item-{l})")).collect();
        let leaf3: String = labels.iter().map(|o| format!("<{o}:{leaf2}>")).collect();
        let mut calls = vec![
            ("base".to_string(), "".to_string(), "ok (none)".to_string()),
            ("leaf".into(), "".into(), format!("ok {leaf}")),
            ("leaf2".into(), "".into(), format!("ok {leaf2}")),
            ("leaf3".into(), "".into(), format!("ok {leaf3}")),
            ("leaf".into(), "list".into(), format!("ok {leaf}")),
            ("leaf2".into(), "list".into(), format!("ok {leaf2}")),
            ("leaf3".into(), "list".into(), format!("ok {leaf3}")),
        ];
        if let Some(last) = labels.last() {
            // render_block renders the template and keeps the block's last text
            calls.push(("leaf".into(), "item".into(), format!("ok {last}")));
            calls.push(("leaf2".into(), "item".into(), format!("ok item-{last}")));
            calls.push(("leaf3".into(), "item".into(), format!("ok item-{last}")));
        }
        v.push(Fixed { label: format!("super-in-loop labels={labels:?}"), tpls, context: serde_json::json!({"labels": labels}), calls });
    }
    // (c) white space before `{% extends %}`: every character `char::is_whitespace` accepts must
    // behave like a plain space (the tag is still "the first tag")
    for ws in [' ', '\t', '\n', '\r', '\u{0B}', '\u{0C}', '\u{85}', '\u{A0}', '\u{1680}', '\u{2003}', '\u{2028}', '\u{2029}', '\u{202F}', '\u{205F}', '\u{3000}'] {
        for reps in [1usize, 3] {
            let lead: String = std::iter::repeat(ws).take(reps).collect();
            let tpls = vec![
                ("base".to_string(), "B{% block x %}b{% endblock %}{% block y %}y{% endblock %}".to_string()),
                ("mid".to_string(), format!("{lead}{{% extends \"base\" %}}{{% block x %}}m{{{{ super() }}}}{{% endblock %}}")),
                ("leaf".to_string(), format!(" {lead}\n{{% extends \"mid\" %}}{{% block x %}}l{{{{ super() }}}}{{% endblock %}}{{% block y %}}Y{{% endblock %}}")),
            ];
            v.push(Fixed {
                label: format!("space-before-extends U+{:04X} x{reps}", ws as u32),
                tpls,
                context: serde_json::json!({}),
                calls: vec![
                    ("leaf".into(), "".into(), "ok BlmbY".into()),
                    ("mid".into(), "".into(), "ok Bmby".into()),
                    ("leaf".into(), "x".into(), "ok lmb".into()),
                ],
            });
        }
    }
    // (d) super() captured by a set block (its text used twice) around an ancestor body with a
    // nested block, and super() under a condition in the nested block's override
    for flag in [false, true] {
        let tpls = vec![
            ("base".to_string(), "{% block x %}b{% block y %}y{% endblock %}{% endblock %}".to_string()),
            ("mid".to_string(), "{% extends \"base\" %}{% block x %}{% set s %}{{ super() }}{% endset %}<{{ s }}|{{ s }}>{% endblock %}".to_string()),
            ("leaf".to_string(), "{% extends \"mid\" %}{% block y %}Y{% if flag %}{{ super() }}{% endif %}{% endblock %}".to_string()),
        ];
        let y = if flag { "Yy" } else { "Y" };
        v.push(Fixed {
            label: format!("super-in-set-block flag={flag}"),
            tpls,
            context: serde_json::json!({"flag": flag}),
            calls: vec![
                ("base".into(), "".into(), "ok by".into()),
                ("mid".into(), "".into(), "ok <by|by>".into()),
                ("leaf".into(), "".into(), format!("ok <b{y}|b{y}>")),
                ("leaf".into(), "x".into(), format!("ok <b{y}|b{y}>")),
                ("leaf".into(), "y".into(), format!("ok {y}")),
                ("mid".into(), "y".into(), "ok y".into()),
            ],
        });
    }
    v
}

/// the answers of the engine to one fixed scenario: one line per (registration order, call)
fn run_fixed(f: &Fixed) -> Vec<(String, String, String)> {
    let mut out = Vec::new();
    let context = Context::from_serialize(&f.context).expect("context object");
    for rev in [false, true] {
        let mut list: Vec<(String, String)> = f.tpls.clone();
        if rev {
            list.reverse();
        }
        let order = if rev { "reverse order" } else { "given order" };
        let reg = catch(std::panic::AssertUnwindSafe(|| {
            let mut tera = engine(&[]);
            let r = tera.add_raw_templates(list.iter().map(|(n, s)| (n.as_str(), s.as_str())).collect::<Vec<_>>());
            (tera, r.map_err(|e| format!("err {}", err_class(&canon_err(&e)))))
        }));
        let tera = match reg {
            Err(_) => {
                out.push((format!("register ({order})"), "panic".into(), "ok".into()));
                continue;
            }
            Ok((_, Err(e))) => {
                out.push((format!("register ({order})"), e, "ok".into()));
                continue;
            }
            Ok((t, Ok(()))) => t,
        };
        out.push((format!("register ({order})"), "ok".into(), "ok".into()));
        for (tpl, block, want) in &f.calls {
            let got = catch(std::panic::AssertUnwindSafe(|| {
                if block.is_empty() { tera.render(tpl, &context) } else { tera.render_block(tpl, block, &context) }
            }));
            let got = match got {
                Err(_) => "panic".to_string(),
                Ok(Ok(s)) => format!("ok {s}"),
                Ok(Err(e)) => canon_err(&e),
            };
            let call = if block.is_empty() { format!("render({tpl:?}) ({order})") } else { format!("render_block({tpl:?}, {block:?}) ({order})") };
            out.push((call, got, want.clone()));
        }
    }
    out
}

/// worker: every fixed scenario from `from` on; announces `at <i>` before each, prints one JSON line
/// `[i, [[call, got, want]…]]` after each
fn child_fixed(from: usize) {
    let progress = std::sync::Arc::new(std::sync::atomic::AtomicU64::new(0));
    start_watchdog(progress.clone(), 20);
    let t0 = Instant::now();
    for (i, f) in fixed_family().iter().enumerate().skip(from) {
        println!("at {i}");
        let rows = run_fixed(f);
        progress.store(t0.elapsed().as_millis() as u64, std::sync::atomic::Ordering::Relaxed);
        println!("row {}", serde_json::json!([i, rows]));
    }
}

/// parent side: all fixed scenarios through workers; (index, call, got, want) of every wrong answer;
/// a scenario during which the worker died or hung counts as a wrong answer
fn fixed_in_workers(report: &mut Report) -> Vec<(usize, String, String, String)> {
    let fam = fixed_family();
    let mut wrong = Vec::new();
    let mut from = 0usize;
    while from < fam.len() {
        let (status, out) = run_child(&["--child".into(), "fixed".into(), from.to_string()], Duration::from_secs(120));
        let mut at = from;
        let mut done = from;
        for line in out.lines() {
            if let Some(i) = line.strip_prefix("at ") {
                at = i.trim().parse().unwrap_or(at);
            } else if let Some(j) = line.strip_prefix("row ") {
                if let Ok((i, rows)) = serde_json::from_str::<(usize, Vec<(String, String, String)>)>(j) {
                    done = i + 1;
                    report.evaluations += 1;
                    report.count("fixed-family.scenarios");
                    for (call, got, want) in rows {
                        report.oracle_checks += 1;
                        if got != want {
                            wrong.push((i, call, got, want));
                        }
                    }
                }
            }
        }
        if status == "exit0" && done >= fam.len() {
            break;
        }
        // the worker died in scenario `at`
        let st = if status.contains("exit status: 3") || status == "timeout" { "no answer within 20 s".to_string() } else { status.clone() };
        wrong.push((at, "the whole scenario".into(), format!("worker died: {st}"), "an answer".into()));
        from = at.max(done) + 1;
    }
    wrong
}

// ---------------------------------------------------------------- shrinking

fn shrink(mut tpls: Vec<TplS>, fails: &dyn Fn(&[TplS]) -> bool) -> Vec<TplS> {
    loop {
        let mut cands: Vec<Vec<TplS>> = Vec::new();
        if tpls.len() > 1 {
            // drop the most derived template
            cands.push(tpls[..tpls.len() - 1].to_vec());
        }
        for i in 0..tpls.len() {
            for bi in 0..tpls[i].blocks.len() {
                let mut d = tpls.clone();
                let name = d[i].blocks[bi].name.clone();
                let up = d[i].blocks[bi].nested_in.clone();
                d[i].blocks.remove(bi);
                for c in d[i].blocks.iter_mut() {
                    if c.nested_in.as_deref() == Some(name.as_str()) {
                        c.nested_in = up.clone();
                    }
                }
                cands.push(d);
                if tpls[i].blocks[bi].calls_super {
                    let mut d = tpls.clone();
                    d[i].blocks[bi].calls_super = false;
                    cands.push(d);
                }
                if tpls[i].blocks[bi].super_twice {
                    let mut d = tpls.clone();
                    d[i].blocks[bi].super_twice = false;
                    cands.push(d);
                }
                if tpls[i].blocks[bi].call_before_super {
                    let mut d = tpls.clone();
                    d[i].blocks[bi].call_before_super = false;
                    cands.push(d);
                }
                if tpls[i].blocks[bi].empty {
                    let mut d = tpls.clone();
                    d[i].blocks[bi].empty = false;
                    cands.push(d);
                }
                if tpls[i].blocks[bi].special {
                    let mut d = tpls.clone();
                    d[i].blocks[bi].special = false;
                    cands.push(d);
                }
                if tpls[i].blocks[bi].in_filter {
                    let mut d = tpls.clone();
                    d[i].blocks[bi].in_filter = false;
                    cands.push(d);
                }
                if tpls[i].blocks[bi].nested_in.is_some() {
                    let mut d = tpls.clone();
                    d[i].blocks[bi].nested_in = None;
                    cands.push(d);
                }
            }
        }
        match cands.into_iter().find(|c| fails(c)) {
            Some(c) => tpls = c,
            None => return tpls,
        }
    }
}

fn replay_json(tpls: &[TplS], imp: &str, detail: serde_json::Value) -> serde_json::Value {
    serde_json::json!({
        "case": Case { tpls: tpls.to_vec(), order: (0..tpls.len()).collect() },
        "sources": tpls.iter().map(|t| (t.name.clone(), t.source())).collect::<Vec<_>>(),
        "implementation": imp,
        "model_request": format!("fin 0 1 {}", set_wire(&[], tpls)),
        "detail": detail,
        "rerun": "harness/target/release/c04 --replay <this file>",
    })
}

fn main() {
    quiet_panics();
    let env = Env::from_env();
    let args: Vec<String> = std::env::args().collect();
    if let Some(i) = args.iter().position(|a| a == "--child") {
        if args[i + 1] == "exh" {
            child_exhaustive(args[i + 2] == "quick", args[i + 3].parse().unwrap(), args[i + 4].parse().unwrap(), args[i + 5].parse().unwrap(), args.get(i + 6).and_then(|a| a.parse().ok()).unwrap_or(-1));
        } else if args[i + 1] == "shape" {
            child_shape(&args[i + 2]);
        } else if args[i + 1] == "fixed" {
            child_fixed(args[i + 2].parse().unwrap());
        }
        return;
    }
    let exe = driver::driver_path(&env.verif_dir, "drv_c04");

    if let Some(path) = replay_path() {
        let j: serde_json::Value = serde_json::from_str(&std::fs::read_to_string(&path).expect("replay file")).expect("json");
        let j = if j.get("replay").is_some() { j["replay"].clone() } else { j };
        if let Some(label) = j.get("fixed").and_then(|l| l.as_str()) {
            let fam = fixed_family();
            let i = fam.iter().position(|f| f.label == label).expect("a scenario of this label");
            for (n, s) in &fam[i].tpls {
                println!("template {n:?}: {s}");
            }
            println!("context: {}", fam[i].context);
            let (status, out) = run_child(&["--child".into(), "fixed".into(), i.to_string()], Duration::from_secs(60));
            match out.lines().find_map(|l| l.strip_prefix("row ")).and_then(|l| serde_json::from_str::<(usize, Vec<(String, String, String)>)>(l).ok()) {
                Some((_, rows)) => {
                    for (call, got, want) in rows {
                        println!("{} {call}: engine `{got}` expected `{want}`", if got == want { "   " } else { "BAD" });
                    }
                }
                None => println!("the worker gave no answer ({status})"),
            }
            return;
        }
        let c: Case = serde_json::from_value(j["case"].clone()).expect("case");
        for t in &c.tpls {
            println!("template {:?}: {}", t.name, t.source());
        }
        let (pimp, pfail) = safe_shape(&c.tpls);
        if pimp.starts_with("died") {
            println!("implementation (in a worker process): {pimp}\ndirect oracles: {pfail:?}");
            println!("model (fin): {:?}", driver::run_batch(&exe, &[format!("fin 0 1 {}", set_wire(&[], &c.tpls))]));
            return;
        }
        let orders = perms(c.tpls.len());
        let o = run_shape(&c.tpls, &orders[..orders.len().min(6)]);
        println!("implementation: {}", o.imp);
        let reqs = vec![format!("fin 0 1 {}", set_wire(&[], &c.tpls)), format!("spec {}", set_wire(&[], &c.tpls))];
        println!("model (fin, spec): {:?}", driver::run_batch(&exe, &reqs));
        println!("direct oracles: {:?}", o.failure);
        if let (true, false) = (o.imp.starts_with("ok"), o.call_cycle) {
            let (_, tera) = register(&c.tpls, &orders[0]);
            let tera = tera.unwrap();
            for t in &c.tpls {
                let mut r = Ref { tpls: &c.tpls, written: BTreeMap::new(), depth_exceeded: false };
                println!("render {:?}: engine {:?} reference {:?}", t.name, tera.render(&t.name, &ctx()).map_err(|e| canon_err(&e)), r.render(&t.name));
            }
        }
        return;
    }

    let mut report = Report::new("C04");
    let threads = std::thread::available_parallelism().map(|n| n.get()).unwrap_or(8).min(16);
    let quick = env.quick();
    let p = plan(quick);
    let total: u64 = p.parts.iter().map(|&(l, n, s)| part_cases(l, n, s)).sum();

    let t0 = Instant::now();
    // every worker is restarted after a culprit (a shape on which it died or hung)
    let worker_out: Vec<(String, String)> = std::thread::scope(|s| {
        let hs: Vec<_> = (0..threads)
            .map(|k| {
                let seed = env.seed;
                s.spawn(move || {
                    let mut outs: Vec<(String, String)> = Vec::new();
                    let mut after: i64 = -1;
                    for _ in 0..6 {
                        let a: Vec<String> = vec!["--child".into(), "exh".into(), if quick { "quick".into() } else { "thorough".into() }, seed.to_string(), k.to_string(), threads.to_string(), after.to_string()];
                        let (status, text) = run_child(&a, Duration::from_secs(if quick { 300 } else { 6000 }));
                        let culprit = if status == "exit0" { None } else { text.lines().rev().find_map(|l| l.strip_prefix("at ").and_then(|x| x.parse::<i64>().ok())) };
                        outs.push((status, text));
                        match culprit {
                            Some(c) => after = c,
                            None => break,
                        }
                    }
                    outs
                })
            })
            .collect();
        hs.into_iter().flat_map(|h| h.join().unwrap()).collect()
    });
    report.notes.push(format!("{total} shapes (parts: (chain length, block names, 0 = exhaustive | sample size) {:?}) in {:.1} s", p.parts, t0.elapsed().as_secs_f64()));

    struct Row {
        idx: u64,
        imp: String,
        failure: String,
        renders: Vec<String>,
    }
    let mut rows: Vec<Row> = Vec::with_capacity(total as usize);
    for (status, out) in &worker_out {
        let mut last_at: Option<u64> = None;
        for line in out.lines() {
            if let Some(i) = line.strip_prefix("at ") {
                last_at = i.parse().ok();
                continue;
            }
            let f: Vec<&str> = line.split('\t').collect();
            if f.len() < 8 {
                continue;
            }
            let idx: u64 = f[0].parse().unwrap_or(u64::MAX);
            if Some(idx) == last_at {
                last_at = None;
            }
            if f[3] == "1" {
                report.count("skipped.render-call-cycle (F5a shape)");
            }
            report.count_n("renders", f[4].parse().unwrap_or(0));
            report.count_n("renders.super-without-parent-definition", f[5].parse().unwrap_or(0));
            report.count_n("render_block calls", f[6].parse().unwrap_or(0));
            report.count_n("registrations", f[7].parse().unwrap_or(0));
            report.count_n("history.re-registrations of one template (same blocks, new bodies)", f.get(9).and_then(|x| x.parse().ok()).unwrap_or(0));
            report.oracle_checks += f.get(9).and_then(|x| x.parse::<u64>().ok()).unwrap_or(0);
            report.oracle_checks += 1 + f[4].parse::<u64>().unwrap_or(0) + f[6].parse::<u64>().unwrap_or(0);
            let renders: Vec<String> = f.get(8).map(|r| r.split('|').filter(|x| !x.is_empty()).map(|x| x.to_string()).collect()).unwrap_or_default();
            rows.push(Row { idx, imp: f[1].to_string(), failure: f[2].to_string(), renders });
        }
        if status != "exit0" {
            match last_at {
                Some(idx) => {
                    let tpls = locate(quick, idx, env.seed);
                    report.oracle_failures += 1;
                    report.count("worker-death");
                    let st = if status.contains("exit status: 3") { "timeout (no answer within 30 s)".to_string() } else { status.clone() };
                    let small = if report.violations.len() < 2 && safe_shape(&tpls).0.starts_with("died") {
                        shrink(tpls.clone(), &|t: &[TplS]| safe_shape(t).0.starts_with("died"))
                    } else {
                        tpls.clone()
                    };
                    report.violation(
                        "property",
                        format!("registering and rendering this chain must end in text or an error: the engine did not return (worker {st}) on shape #{idx}"),
                        replay_json(&small, &format!("died {st}"), serde_json::json!({"worker": st})),
                    );
                }
                None => report.violation("model-mismatch", format!("worker ended abnormally ({status}) without naming a shape"), serde_json::json!({"stage": "worker", "status": status})),
            }
        }
    }
    rows.sort_by_key(|r| r.idx);
    report.exhaustive = rows.len() as u64 == total;

    // model: the two passes with three different HashMap orders, and lineageSpec
    let shapes: Vec<Vec<TplS>> = rows.iter().map(|r| locate_cached(quick, r.idx, env.seed)).collect();
    let mut reqs: Vec<String> = Vec::with_capacity(rows.len() * 2);
    // (row, template index) of every render request, which follow the fin / spec requests
    let mut render_reqs: Vec<(usize, usize)> = Vec::new();
    for (i, tpls) in shapes.iter().enumerate() {
        let w = set_wire(&[], tpls);
        reqs.push(format!("fin {} {} {w}", i % 3, (i / 3) % 3));
        reqs.push(format!("spec {w}"));
    }
    for (i, tpls) in shapes.iter().enumerate() {
        // the render skeleton of the model writes one super() per block
        let twice = tpls.iter().any(|t| t.blocks.iter().any(|b| b.super_twice || b.call_before_super || b.empty || b.special));
        if rows[i].renders.len() == tpls.len() && !twice {
            let w = set_wire(&[], tpls);
            for (k, t) in tpls.iter().enumerate() {
                render_reqs.push((i, k));
                reqs.push(format!("render 48 {} {w}", t.name));
            }
        }
    }
    let model = match driver::run_batch_parallel(&exe, &reqs, threads) {
        Ok(m) => m,
        Err(e) => {
            report.notes.push(format!("model driver unavailable: {e}"));
            report.violation("model-mismatch", format!("model driver could not be run: {e}"), serde_json::json!({"stage": "driver", "error": e}));
            Vec::new()
        }
    };

    let mut fails: Vec<usize> = Vec::new();
    let mut mismatches: Vec<(usize, &'static str)> = Vec::new();
    for (i, r) in rows.iter().enumerate() {
        report.evaluations += 1;
        let tpls = &shapes[i];
        report.count(&format!("chain.{}", tpls.len()));
        report.count(&format!("registration.{}", if r.imp.starts_with("ok") { "accepted".into() } else { format!("rejected.{}", err_class(&r.imp)) }));
        let overriding = tpls.iter().enumerate().any(|(k, t)| k > 0 && !t.blocks.is_empty());
        if tpls.len() >= 2 && overriding {
            report.distinct_nontrivial += 1;
        }
        if tpls.iter().any(|t| t.blocks.iter().any(|b| b.calls_super)) {
            report.count("shape.uses-super");
        }
        if tpls.iter().any(|t| t.blocks.iter().any(|b| b.nested_in.is_some())) {
            report.count("shape.nested-blocks");
        }
        if tpls.iter().any(|t| t.blocks.iter().any(|b| b.in_filter)) {
            report.count("shape.block-in-filter-section");
        }
        if tpls.iter().any(|t| t.blocks.iter().any(|b| b.super_twice)) {
            report.count("shape.super-called-twice-in-a-block");
        }
        if tpls.iter().any(|t| t.blocks.iter().any(|b| b.call_before_super)) {
            report.count("shape.other-function-called-before-super");
        }
        if tpls.iter().any(|t| t.blocks.iter().any(|b| b.empty)) {
            report.count("shape.empty-block-body");
        }
        if tpls.iter().any(|t| t.blocks.iter().any(|b| b.special)) {
            report.count("shape.html-special-characters-in-blocks");
        }
        if !r.failure.is_empty() {
            fails.push(i);
        }
        if !model.is_empty() {
            report.model_comparisons += 2;
            if model[2 * i] != r.imp {
                report.model_disagreements += 1;
                mismatches.push((i, "correspondence:lineage-passes"));
            }
            if model[2 * i + 1] != r.imp {
                report.model_disagreements += 1;
                mismatches.push((i, "correspondence:lineage-spec"));
            }
        }
    }
    // the render skeleton of the model against the real renders (text compared case-insensitively:
    // the generator wraps some blocks in `{% filter upper %}`, which the skeleton does not model)
    if !model.is_empty() {
        let base = 2 * rows.len();
        for (j, &(i, k)) in render_reqs.iter().enumerate() {
            report.model_comparisons += 1;
            let real = rows[i].renders[k].to_lowercase();
            let m = model[base + j].to_lowercase();
            let agree = if real == "skip" { m == "outoffuel" } else { real == m };
            if !agree {
                report.model_disagreements += 1;
                if mismatches.len() < 8 {
                    mismatches.push((i, "correspondence:render-skeleton"));
                }
            }
        }
    }
    report.oracle_failures += fails.len() as u64;
    for &i in fails.iter().take(4) {
        let small = shrink(shapes[i].clone(), &|t: &[TplS]| safe_shape(t).1.is_some());
        let (imp, failure) = safe_shape(&small);
        report.violation("property", failure.unwrap_or_else(|| rows[i].failure.clone()), replay_json(&small, &imp, serde_json::json!({"original_failure": rows[i].failure})));
    }
    if fails.is_empty() && !model.is_empty() {
        for &(i, stage) in mismatches.iter().take(4) {
            if stage.ends_with("render-skeleton") {
                let tpls = &shapes[i];
                let w = set_wire(&[], tpls);
                let rq: Vec<String> = tpls.iter().map(|t| format!("render 48 {} {w}", t.name)).collect();
                let m = driver::run_batch(&exe, &rq).unwrap_or_default();
                report.violation(
                    "model-mismatch",
                    format!("render skeleton of the model {:?} vs real renders {:?}", m, rows[i].renders),
                    replay_json(tpls, &rows[i].imp, serde_json::json!({"stage": stage, "model": m, "real": rows[i].renders})),
                );
                continue;
            }
            let op = if stage.ends_with("spec") { "spec".to_string() } else { format!("fin {} {}", i % 3, (i / 3) % 3) };
            let small = shrink(shapes[i].clone(), &|t: &[TplS]| {
                let (imp, _) = safe_shape(t);
                driver::run_batch(&exe, &[format!("{op} {}", set_wire(&[], t))]).map(|m| m[0] != imp).unwrap_or(false)
            });
            let (imp, _) = safe_shape(&small);
            let m = driver::run_batch(&exe, &[format!("{op} {}", set_wire(&[], &small))]).map(|m| m[0].clone()).unwrap_or_default();
            report.violation("model-mismatch", format!("model ({op}) `{m}` vs implementation `{imp}`"), replay_json(&small, &imp, serde_json::json!({"stage": stage, "model": m})));
        }
    }
    for i in [rows.len() / 5, rows.len() / 2, rows.len().saturating_sub(7)] {
        if let Some(r) = rows.get(i) {
            report.sample(serde_json::json!({
                "templates": shapes[i].iter().map(|t| (t.name.clone(), t.source())).collect::<Vec<_>>(),
                "implementation": r.imp, "model_fin": model.get(2 * i), "model_spec": model.get(2 * i + 1),
            }));
        }
    }
    // fixed families with literal sources (re-entrant blocks, super() in a loop, white space before
    // the extends tag)
    let wrong = fixed_in_workers(&mut report);
    report.oracle_failures += wrong.len() as u64;
    let fam = fixed_family();
    let mut seen = BTreeSet::new();
    for (i, call, got, want) in wrong.iter() {
        if !seen.insert(*i) || seen.len() > 4 {
            continue;
        }
        let f = &fam[*i];
        report.violation(
            "property",
            format!("fixed chain `{}`: {call} answered `{got}`, the inheritance rules give `{want}`", f.label),
            serde_json::json!({
                "fixed": f.label, "sources": f.tpls, "context": f.context, "call": call, "engine": got, "expected": want,
                "all_wrong_answers": wrong.iter().filter(|w| w.0 == *i).map(|w| (w.1.clone(), w.2.clone(), w.3.clone())).collect::<Vec<_>>(),
                "rerun": "harness/target/release/c04 --replay <this file>",
            }),
        );
    }
    report.rule = "an inheritance chain of at least two templates in which some non-root level defines a block (override, super() or a block introduced by a child); distinct by (chain length, per level and block: absent / defined / defined with super(), nesting forest, filter-section placement)".into();
    report.write(&out_path());
}

fn locate_cached(quick: bool, idx: u64, seed: u64) -> Vec<TplS> {
    locate(quick, idx, seed)
}
