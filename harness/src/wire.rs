//! Text encoding of `tera::Value` shared with the Lean drivers (see lean/TeraModel/Model/Wire.lean).
use tera::value::{Key, ValueKind};
use tera::Value;

pub fn hex(bytes: &[u8]) -> String {
    let mut s = String::with_capacity(bytes.len() * 2);
    for b in bytes {
        s.push_str(&format!("{b:02x}"));
    }
    s
}

pub fn unhex(s: &str) -> Option<Vec<u8>> {
    if s.len() % 2 != 0 {
        return None;
    }
    (0..s.len() / 2)
        .map(|i| u8::from_str_radix(&s[2 * i..2 * i + 2], 16).ok())
        .collect()
}

pub fn f64_bits_canon(f: f64) -> u64 {
    if f.is_nan() { 0x7ff8000000000000 } else { f.to_bits() }
}

fn key_to_value(k: &Key<'_>) -> Value {
    k.as_value()
}

/// Canonical encoding: map entries in `Key` order, NaN canonicalised.
pub fn encode(v: &Value) -> String {
    let mut out = String::new();
    enc(v, &mut out);
    out
}

fn enc(v: &Value, out: &mut String) {
    match v.kind() {
        ValueKind::Undefined => out.push('U'),
        ValueKind::None => out.push('N'),
        ValueKind::Bool => out.push_str(if v.as_bool().unwrap() { "B1" } else { "B0" }),
        ValueKind::U64 => out.push_str(&format!("u64:{}", v.as_u128().unwrap())),
        ValueKind::I64 => out.push_str(&format!("i64:{}", v.as_i128().unwrap())),
        ValueKind::U128 => out.push_str(&format!("u128:{}", v.as_u128().unwrap())),
        ValueKind::I128 => out.push_str(&format!("i128:{}", v.as_i128().unwrap())),
        ValueKind::F64 => out.push_str(&format!("f:{:016x}", f64_bits_canon(v.as_f64().unwrap()))),
        ValueKind::String => {
            out.push_str(if v.is_safe() { "S:" } else { "s:" });
            out.push_str(&hex(v.as_str().unwrap().as_bytes()));
        }
        ValueKind::Bytes => {
            out.push_str("y:");
            out.push_str(&hex(v.as_bytes().unwrap()));
        }
        ValueKind::Array => {
            let a = v.as_array().unwrap();
            out.push_str(&format!("A{}", a.len()));
            for x in a {
                out.push(' ');
                enc(x, out);
            }
        }
        ValueKind::Map => {
            let m = v.as_map().unwrap();
            let mut es: Vec<_> = m.iter().collect();
            es.sort_by(|a, b| a.0.cmp(b.0));
            out.push_str(&format!("M{}", es.len()));
            for (k, x) in es {
                out.push(' ');
                enc(&key_to_value(k), out);
                out.push(' ');
                enc(x, out);
            }
        }
        _ => out.push('?'),
    }
}

/// Decode (used for replay files and corpora).
pub fn decode(s: &str) -> Option<Value> {
    let toks: Vec<&str> = s.split_ascii_whitespace().collect();
    let mut pos = 0;
    let v = dec(&toks, &mut pos)?;
    if pos == toks.len() { Some(v) } else { None }
}

fn dec(toks: &[&str], pos: &mut usize) -> Option<Value> {
    let t = *toks.get(*pos)?;
    *pos += 1;
    Some(match t {
        "U" => Value::undefined(),
        "N" => Value::none(),
        "B0" => Value::from(false),
        "B1" => Value::from(true),
        _ => {
            if let Some(d) = t.strip_prefix("u64:") {
                Value::from(d.parse::<u64>().ok()?)
            } else if let Some(d) = t.strip_prefix("i64:") {
                Value::from(d.parse::<i64>().ok()?)
            } else if let Some(d) = t.strip_prefix("u128:") {
                Value::from(d.parse::<u128>().ok()?)
            } else if let Some(d) = t.strip_prefix("i128:") {
                Value::from(d.parse::<i128>().ok()?)
            } else if let Some(d) = t.strip_prefix("f:") {
                Value::from(f64::from_bits(u64::from_str_radix(d, 16).ok()?))
            } else if let Some(d) = t.strip_prefix("s:") {
                Value::normal_string(&String::from_utf8(unhex(d)?).ok()?)
            } else if let Some(d) = t.strip_prefix("S:") {
                Value::safe_string(&String::from_utf8(unhex(d)?).ok()?)
            } else if let Some(d) = t.strip_prefix("y:") {
                Value::bytes(unhex(d)?)
            } else if let Some(d) = t.strip_prefix('A') {
                let n: usize = d.parse().ok()?;
                let mut xs = Vec::with_capacity(n);
                for _ in 0..n {
                    xs.push(dec(toks, pos)?);
                }
                Value::from(xs)
            } else if let Some(d) = t.strip_prefix('M') {
                let n: usize = d.parse().ok()?;
                let mut m = tera::Map::new();
                for _ in 0..n {
                    let k = dec(toks, pos)?;
                    let v = dec(toks, pos)?;
                    m.insert(value_to_key(&k)?, v);
                }
                Value::from(m)
            } else {
                return None;
            }
        }
    })
}

pub fn value_to_key(v: &Value) -> Option<Key<'static>> {
    Some(match v.kind() {
        ValueKind::Bool => Key::Bool(v.as_bool()?),
        ValueKind::U64 => Key::U64(v.as_u64()?),
        ValueKind::I64 => Key::I64(v.as_i64()?),
        ValueKind::U128 => Key::U128(v.as_u128()?),
        ValueKind::I128 => Key::I128(v.as_i128()?),
        ValueKind::String => Key::from(v.as_str()?.to_string()),
        _ => return None,
    })
}
