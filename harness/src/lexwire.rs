//! Canonical text form of lexer tokens shared by the C06 / C08 / C12 harnesses and the Lean
//! drivers built on `lean/Driver/LexCommon.lean` (same grammar on both sides):
//!
//!   request   `lex <raw|filtered> <D> <S>`        D = six hex fields `bs,be,vs,ve,cs,ce`
//!             `skeleton <D> <S>`                  S = hex of the source bytes, `-` when empty
//!   answer    `T;T;…;END` | `…;ERR:<class>@<span>` | `…;PANIC:<site>` | `…;FUEL`
//!   token T   `<KIND>[:arg…]@<span>`   span = `sl:sc-el:ec/rs-re`
//!             CONTENT:<hex>  RAW:<0|1>:<hex>:<0|1>  VS:<b> VE:<b> TS:<b> TE:<b>  COMMENT:<b>:<b>
//!             IDENT:<hex>  STRING:<hex> (unescaped)  INT:<dec>  FLOAT:<hex of the lexeme>  BOOL:<b>
//!             operators by their `Debug` name (PLUS, FLOORDIV, QUESTION_MARK_DOT, …)
use crate::wire::hex;
use tera::Delimiters;

/// A delimiter configuration as six owned strings (block, variable, comment; start, end).
#[derive(Clone, Debug, PartialEq, Eq, Hash)]
pub struct D {
    pub bs: String,
    pub be: String,
    pub vs: String,
    pub ve: String,
    pub cs: String,
    pub ce: String,
}

impl Default for D {
    fn default() -> Self {
        D { bs: "{%".into(), be: "%}".into(), vs: "{{".into(), ve: "}}".into(), cs: "{#".into(), ce: "#}".into() }
    }
}

impl D {
    pub fn new(bs: &str, be: &str, vs: &str, ve: &str, cs: &str, ce: &str) -> Self {
        D { bs: bs.into(), be: be.into(), vs: vs.into(), ve: ve.into(), cs: cs.into(), ce: ce.into() }
    }
    pub fn to_delimiters(&self) -> Delimiters {
        Delimiters {
            block_start: self.bs.clone().into(),
            block_end: self.be.clone().into(),
            variable_start: self.vs.clone().into(),
            variable_end: self.ve.clone().into(),
            comment_start: self.cs.clone().into(),
            comment_end: self.ce.clone().into(),
        }
    }
    pub fn fields(&self) -> [&str; 6] {
        [&self.bs, &self.be, &self.vs, &self.ve, &self.cs, &self.ce]
    }
    /// `bs,be,vs,ve,cs,ce` in hex
    pub fn wire(&self) -> String {
        self.fields().iter().map(|f| hex(f.as_bytes())).collect::<Vec<_>>().join(",")
    }
    pub fn to_json(&self) -> serde_json::Value {
        serde_json::json!([self.bs, self.be, self.vs, self.ve, self.cs, self.ce])
    }
    pub fn from_json(v: &serde_json::Value) -> Option<D> {
        let a = v.as_array()?;
        if a.len() != 6 {
            return None;
        }
        let s = |i: usize| a[i].as_str().map(|s| s.to_string());
        Some(D { bs: s(0)?, be: s(1)?, vs: s(2)?, ve: s(3)?, cs: s(4)?, ce: s(5)? })
    }
    /// What `Delimiters::validate` accepts, re-stated independently (six 2-byte strings, the three
    /// start delimiters pairwise different)
    pub fn accepted(&self) -> bool {
        self.fields().iter().all(|f| f.len() == 2) && self.bs != self.vs && self.bs != self.cs && self.vs != self.cs
    }
}

pub fn hex_or_dash(bytes: &[u8]) -> String {
    if bytes.is_empty() { "-".into() } else { hex(bytes) }
}

pub fn lex_request(filtered: bool, d: &D, src: &str) -> String {
    format!("lex {} {} {}", if filtered { "filtered" } else { "raw" }, d.wire(), hex_or_dash(src.as_bytes()))
}

pub fn skeleton_request(d: &D, src: &str) -> String {
    format!("skeleton {} {}", d.wire(), hex_or_dash(src.as_bytes()))
}

pub fn span_wire(s: &tera::Span) -> String {
    format!("{}:{}-{}:{}/{}-{}", s.start_line, s.start_col, s.end_line, s.end_col, s.range.start, s.range.end)
}

/// class of a lexer error message (messages themselves are never compared)
pub fn lex_err_class(msg: &str) -> &'static str {
    if msg.starts_with("Invalid float") {
        "invalid_float"
    } else if msg.starts_with("Invalid Integer") {
        "invalid_integer"
    } else if msg.contains("is missing its closing") {
        "unclosed_string"
    } else if msg.starts_with("unexpected end of string") {
        "string_eos"
    } else if msg.starts_with("unexpected escape character") {
        "bad_escape"
    } else if msg.starts_with("unexpected end of raw block") {
        "raw_eof"
    } else if msg.starts_with("Closing comment tag") {
        "comment_unclosed"
    } else if msg.starts_with("Unexpected character") {
        "unexpected_char"
    } else {
        "other"
    }
}

fn b(x: bool) -> char {
    if x { '1' } else { '0' }
}

pub fn token_wire(t: &tera::verif_hooks::VerifToken) -> String {
    let text = || hex(t.text.as_deref().unwrap_or("").as_bytes());
    let f = |i: usize| b(t.flags.get(i).copied().unwrap_or(false));
    let head = match t.kind.as_str() {
        "CONTENT" => format!("CONTENT:{}", text()),
        "RAW_CONTENT" => format!("RAW:{}:{}:{}", f(0), text(), f(1)),
        "VARIABLE_START" => format!("VS:{}", f(0)),
        "VARIABLE_END" => format!("VE:{}", f(0)),
        "TAG_START" => format!("TS:{}", f(0)),
        "TAG_END" => format!("TE:{}", f(0)),
        "COMMENT" => format!("COMMENT:{}:{}", f(0), f(1)),
        "IDENT" => format!("IDENT:{}", text()),
        "STRING" => format!("STRING:{}", text()),
        "INTEGER" => format!("INT:{}", t.int.unwrap_or(0)),
        "FLOAT" => format!("FLOAT:{}", text()),
        "BOOL" => format!("BOOL:{}", b(t.boolean.unwrap_or(false))),
        other => other.to_string(),
    };
    format!("{head}@{}", span_wire(&t.span))
}

/// The implementation's token stream in the canonical form (a panic is the answer `PANIC:<msg>`).
pub fn canon_tokens(src: &str, d: &D, filtered: bool) -> String {
    let delims = d.to_delimiters();
    let r = crate::catch(std::panic::AssertUnwindSafe(|| tera::verif_hooks::tokens_structured(src, delims, filtered)));
    match r {
        Err(p) => format!("PANIC:{}", p.replace([';', '\n'], " ")),
        Ok(items) => {
            let mut parts: Vec<String> = Vec::with_capacity(items.len() + 1);
            let mut ended = false;
            for it in &items {
                match it {
                    Ok(t) => parts.push(token_wire(t)),
                    Err((msg, span)) => {
                        parts.push(format!("ERR:{}@{}", lex_err_class(msg), span_wire(span)));
                        ended = true;
                    }
                }
            }
            if !ended {
                parts.push("END".into());
            }
            parts.join(";")
        }
    }
}

/// Model and implementation answers agree (panic sites are not compared, only the fact).
pub fn same_answer(model: &str, imp: &str) -> bool {
    let mp = model.contains("PANIC:");
    let ip = imp.contains("PANIC:");
    if mp || ip {
        return mp && ip;
    }
    model == imp
}

/// One parsed token of a canonical answer: (kind, args, [sl, sc, el, ec, rs, re])
#[derive(Clone, Debug, PartialEq, Eq)]
pub struct WTok {
    pub kind: String,
    pub args: Vec<String>,
    pub span: [usize; 6],
}

/// Parse a canonical answer back: tokens and the ending (`END`, `ERR:<class>@span`, `PANIC:…`, `FUEL`).
pub fn parse_answer(ans: &str) -> (Vec<WTok>, String) {
    let mut toks = Vec::new();
    let mut ending = String::new();
    for part in ans.split(';') {
        if part == "END" || part == "FUEL" || part.starts_with("PANIC:") || part.starts_with("ERR:") {
            ending = part.to_string();
            break;
        }
        let (head, span) = match part.rsplit_once('@') {
            Some(x) => x,
            None => {
                ending = format!("UNPARSED:{part}");
                break;
            }
        };
        let mut it = head.split(':');
        let kind = it.next().unwrap_or("").to_string();
        let args: Vec<String> = it.map(|s| s.to_string()).collect();
        let nums: Vec<usize> = span
            .split(|c: char| !c.is_ascii_digit())
            .filter(|s| !s.is_empty())
            .filter_map(|s| s.parse().ok())
            .collect();
        let mut sp = [0usize; 6];
        for (i, n) in nums.iter().take(6).enumerate() {
            sp[i] = *n;
        }
        toks.push(WTok { kind, args, span: sp });
    }
    (toks, ending)
}
