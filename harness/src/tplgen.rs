//! Template *summaries* shared by the C04 / C10 / C11 harnesses: the harness generates real
//! template sources from summaries (so it knows exactly what each source contains), sends the
//! summaries to the Lean model (`Driver/RegWire.lean`) and canonicalises what the real engine
//! derived (`verif_hooks::dump_derived`) into the model's output format.
use serde::{Deserialize, Serialize};
use std::collections::BTreeMap;
use tera::{ErrorKind, Tera};

#[derive(Clone, Debug, Default, Serialize, Deserialize, PartialEq, Eq, Hash)]
pub struct BlockS {
    pub name: String,
    pub calls_super: bool,
    /// enclosing block of the same template
    pub nested_in: Option<String>,
    /// include targets written directly in this block
    pub includes: Vec<String>,
    /// the block sits inside `{% filter upper %}…{% endfilter %}`
    pub in_filter: bool,
    /// a second `{{ super() }}` at the end of the block body (only with `calls_super`)
    #[serde(default)]
    pub super_twice: bool,
    /// a call of another function (`range`) textually before `{{ super() }}`: the block writes `01`
    /// first (only with `calls_super`)
    #[serde(default)]
    pub call_before_super: bool,
    /// the block body is EMPTY (`{% block b %}{% endblock b %}`: a chunk without instructions); only
    /// for blocks without super(), includes and nested blocks
    #[serde(default)]
    pub empty: bool,
    /// the block also writes the literal text `<&>` and the data `{{ hv }}` (rendered with a context
    /// in which `hv` is a string with HTML-special characters)
    #[serde(default)]
    pub special: bool,
}

#[derive(Clone, Debug, Default, Serialize, Deserialize, PartialEq, Eq, Hash)]
pub struct CompS {
    pub name: String,
    pub includes: Vec<String>,
}

#[derive(Clone, Debug, Default, Serialize, Deserialize, PartialEq, Eq, Hash)]
pub struct TplS {
    pub name: String,
    pub parent: Option<String>,
    pub blocks: Vec<BlockS>,
    pub top_includes: Vec<String>,
    pub comps: Vec<CompS>,
    pub comp_calls: Vec<String>,
    /// "filter" | "test" | "function": the source uses one that is not registered
    pub bad_ref: Option<String>,
    /// the source does not parse
    pub syntax_error: bool,
    /// free text written at the start of the body (makes versions of a template distinguishable)
    pub tag: String,
    /// the body ends with `{{ hv }}`: with a hostile value for `hv` in the context the render shows
    /// whether the template is autoescaped
    #[serde(default)]
    pub probe: bool,
    /// (C10 histories) this template reaches the engine through a file and `add_template_file(s)`
    /// instead of `add_raw_template(s)`; source and summary are the same
    #[serde(default)]
    pub via_file: bool,
}

/// text that no escaper or `upper` filter leaves ambiguous: letters, digits, `_`
pub fn mark(s: &str) -> String {
    s.chars().map(|c| if c.is_ascii_alphanumeric() { c } else { '_' }).collect()
}

impl TplS {
    pub fn new(name: &str) -> Self {
        TplS { name: name.to_string(), ..Default::default() }
    }

    fn block_source(&self, b: &BlockS, out: &mut String) {
        if b.in_filter {
            out.push_str("{% filter upper %}");
        }
        if b.empty {
            out.push_str(&format!("{{% block {} %}}{{% endblock {} %}}", b.name, b.name));
            if b.in_filter {
                out.push_str("{% endfilter %}");
            }
            return;
        }
        // the marker carries the tag too, so that a re-registered version has different block bodies
        out.push_str(&format!("{{% block {} %}}[{}@{}{}:", b.name, b.name, mark(&self.name), mark(&self.tag)));
        if b.special {
            out.push_str("<&>{{ hv }}");
        }
        if b.calls_super {
            if b.call_before_super {
                out.push_str("{% for i in range(end=2) %}{{ i }}{% endfor %}");
            }
            out.push_str("{{ super() }}");
        }
        for i in &b.includes {
            out.push_str(&format!("{{% include \"{i}\" %}}"));
        }
        for c in self.blocks.iter().filter(|c| c.nested_in.as_deref() == Some(b.name.as_str())) {
            self.block_source(c, out);
        }
        if b.calls_super && b.super_twice {
            out.push_str("{{ super() }}");
        }
        out.push_str(&format!("]{{% endblock {} %}}", b.name));
        if b.in_filter {
            out.push_str("{% endfilter %}");
        }
    }

    /// The real template source this summary stands for.
    pub fn source(&self) -> String {
        let mut s = String::new();
        if let Some(p) = &self.parent {
            s.push_str(&format!("{{% extends \"{p}\" %}}"));
        }
        if self.syntax_error {
            s.push_str("{% if %}");
        }
        s.push_str(&format!("{{{}{}:", mark(&self.name), mark(&self.tag)));
        for i in &self.top_includes {
            s.push_str(&format!("{{% include \"{i}\" %}}"));
        }
        for b in self.blocks.iter().filter(|b| b.nested_in.is_none()) {
            self.block_source(b, &mut s);
        }
        for c in &self.comp_calls {
            s.push_str(&format!("{{{{<{c} />}}}}"));
        }
        match self.bad_ref.as_deref() {
            Some("filter") => s.push_str("{{ 1 | nosuchfilter }}"),
            Some("test") => s.push_str("{% if 1 is nosuchtest %}{% endif %}"),
            Some("function") => s.push_str("{{ nosuchfn() }}"),
            _ => {}
        }
        if self.probe {
            s.push_str("{{ hv }}");
        }
        s.push('}');
        for c in &self.comps {
            s.push_str(&format!("{{% component {}() %}}({}@{}", c.name, mark(&c.name), mark(&self.name)));
            for i in &c.includes {
                s.push_str(&format!("{{% include \"{i}\" %}}"));
            }
            s.push_str(&format!("){{% endcomponent {} %}}", c.name));
        }
        s
    }

    /// Wire form for the Lean drivers (see Driver/RegWire.lean).
    pub fn wire(&self) -> String {
        let mut t: Vec<String> = vec![
            self.name.clone(),
            self.parent.clone().unwrap_or_else(|| "-".into()),
            self.source().len().to_string(),
            if self.bad_ref.is_some() { "1".into() } else { "0".into() },
        ];
        // blocks in the order the source lists them does not matter to the model
        t.push(self.blocks.len().to_string());
        for b in &self.blocks {
            t.push(b.name.clone());
            t.push(if b.calls_super { "1".into() } else { "0".into() });
            t.push(b.nested_in.clone().unwrap_or_else(|| "-".into()));
            t.push(b.includes.len().to_string());
            t.extend(b.includes.iter().cloned());
        }
        t.push(self.top_includes.len().to_string());
        t.extend(self.top_includes.iter().cloned());
        t.push(self.comps.len().to_string());
        for c in &self.comps {
            t.push(c.name.clone());
            t.push(c.includes.len().to_string());
            t.extend(c.includes.iter().cloned());
        }
        t.push(self.comp_calls.len().to_string());
        t.extend(self.comp_calls.iter().cloned());
        t.join(" ")
    }

    /// every include target of the source (top level, blocks, component bodies)
    pub fn all_includes(&self) -> Vec<String> {
        let mut v = self.top_includes.clone();
        for b in &self.blocks {
            v.extend(b.includes.iter().cloned());
        }
        for c in &self.comps {
            v.extend(c.includes.iter().cloned());
        }
        v
    }
}

/// `P <n> prefixes T <k> templates` (templates whose source does not parse are not part of a set)
pub fn set_wire(prefixes: &[String], tpls: &[TplS]) -> String {
    let mut s = format!("P {}", prefixes.len());
    for p in prefixes {
        s.push(' ');
        s.push_str(p);
    }
    s.push_str(&format!(" T {}", tpls.len()));
    for t in tpls {
        s.push(' ');
        s.push_str(&t.wire());
    }
    s
}

pub fn csv(l: &[String]) -> String {
    if l.is_empty() { "-".into() } else { l.join(",") }
}

/// A fresh engine with the given fallback prefixes.
pub fn engine(prefixes: &[String]) -> Tera {
    let mut t = Tera::default();
    if !prefixes.is_empty() {
        t.set_fallback_prefixes(prefixes.to_vec()).expect("prefixes on an empty instance");
    }
    t
}

pub fn add_all(tera: &mut Tera, tpls: &[TplS]) -> Result<(), tera::Error> {
    tera.add_raw_templates(tpls.iter().map(|t| (t.name.clone(), t.source())).collect::<Vec<_>>())
}

/// error class (+ the structured details the engine exposes) in the model's format
pub fn canon_err(e: &tera::Error) -> String {
    match e.kind() {
        ErrorKind::MissingParent { current, parent } => format!("err missingparent {current} {parent}"),
        ErrorKind::CircularExtend { tpl, inheritance_chain } => {
            format!("err circularextend {tpl} {}", csv(inheritance_chain))
        }
        ErrorKind::CircularInclude { tpl, include_chain } => {
            format!("err circularinclude {tpl} {}", csv(include_chain))
        }
        ErrorKind::Msg(_) => "err msg".into(),
        ErrorKind::TemplateNotFound(_) => "err templatenotfound".into(),
        ErrorKind::SyntaxError(_) => "err syntax".into(),
        ErrorKind::RenderingError(_) => "err rendering".into(),
        other => format!("err other:{}", format!("{other:?}").split([' ', '(', '{']).next().unwrap_or("")),
    }
}

/// only the class of an error line produced by `canon_err` / the model
pub fn err_class(line: &str) -> &str {
    line.split(' ').nth(1).unwrap_or("")
}

fn parse_str_list(s: &str) -> Vec<String> {
    // `["a", "b"]` (Debug of Vec<String> / Vec<&str>; generated names need no escapes)
    let inner = s.trim().trim_start_matches('[').trim_end_matches(']');
    inner
        .split(',')
        .map(|x| x.trim().trim_matches('"').to_string())
        .filter(|x| !x.is_empty())
        .collect()
}

fn field<'a>(line: &'a str, key: &str) -> &'a str {
    // value of `key=` up to the next ` <word>=` or end of line
    let start = line.find(key).map(|i| i + key.len()).unwrap_or(line.len());
    let rest = &line[start..];
    let mut end = rest.len();
    let bytes = rest.as_bytes();
    let mut depth = 0i32;
    for (i, &c) in bytes.iter().enumerate() {
        match c {
            b'[' | b'(' => depth += 1,
            b']' | b')' => depth -= 1,
            b' ' if depth == 0 => {
                end = i;
                break;
            }
            _ => {}
        }
    }
    &rest[..end]
}

#[derive(Clone, Debug, Default, PartialEq, Eq)]
pub struct RealTpl {
    pub autoescape: bool,
    pub size: usize,
    pub parents: Vec<String>,
    /// block ↦ owners
    pub lineage: BTreeMap<String, Vec<String>>,
    /// block ↦ chunk ids
    pub lineage_ids: BTreeMap<String, Vec<String>>,
    pub own_blocks: Vec<String>,
}

#[derive(Clone, Debug, Default, PartialEq, Eq)]
pub struct RealDerived {
    pub tpls: BTreeMap<String, RealTpl>,
    /// component ↦ (defining template, chunk id)
    pub comps: BTreeMap<String, (String, String)>,
}

/// Parse `verif_hooks::dump_derived`.
pub fn real_derived(tera: &Tera) -> RealDerived {
    let mut d = RealDerived::default();
    for line in tera::verif_hooks::dump_derived(tera) {
        let mut it = line.splitn(3, ' ');
        let kind = it.next().unwrap_or("");
        match kind {
            "tpl" => {
                let name = it.next().unwrap_or("").trim_matches('"').to_string();
                let t = d.tpls.entry(name).or_default();
                t.autoescape = field(&line, "autoescape=") == "true";
                t.size = field(&line, "size=").parse().unwrap_or(usize::MAX);
                t.parents = parse_str_list(field(&line, "parents="));
            }
            "lineage" => {
                let name = it.next().unwrap_or("").trim_matches('"').to_string();
                let rest = it.next().unwrap_or("");
                let block = rest.split(' ').next().unwrap_or("").trim_matches('"').to_string();
                let t = d.tpls.entry(name).or_default();
                t.lineage.insert(block.clone(), parse_str_list(field(&line, "owners=")));
                t.lineage_ids.insert(block, parse_str_list(field(&line, "ids=")));
            }
            "blocks" => {
                let name = it.next().unwrap_or("").trim_matches('"').to_string();
                let rest = it.next().unwrap_or("");
                d.tpls.entry(name).or_default().own_blocks = parse_str_list(rest);
            }
            "component" => {
                let name = it.next().unwrap_or("").trim_matches('"').to_string();
                let from = field(&line, "from=").trim_matches('"').to_string();
                let id = field(&line, "id=").to_string();
                d.comps.insert(name, (from, id));
            }
            _ => {}
        }
    }
    d
}

impl RealDerived {
    /// the format of `RegWire.showDerived`
    pub fn canon(&self) -> String {
        let mut parts: Vec<String> = Vec::new();
        for (n, t) in &self.tpls {
            let mut s = format!("T {n} {} {} {}", t.size, csv(&t.parents), t.lineage.len());
            for (b, owners) in &t.lineage {
                s.push_str(&format!(" {b} {}", csv(owners)));
            }
            parts.push(s);
        }
        for (c, (from, _)) in &self.comps {
            parts.push(format!("C {c} {from}"));
        }
        parts.join(" ")
    }
    /// the format of the C10 driver's state dump (adds the autoescape flag)
    pub fn canon_state(&self) -> String {
        let mut parts: Vec<String> = Vec::new();
        for (n, t) in &self.tpls {
            let mut s = format!(
                "T {n} {} {} {} {}",
                if t.autoescape { 1 } else { 0 },
                t.size,
                csv(&t.parents),
                t.lineage.len()
            );
            for (b, owners) in &t.lineage {
                s.push_str(&format!(" {b} {}", csv(owners)));
            }
            parts.push(s);
        }
        for (c, (from, _)) in &self.comps {
            parts.push(format!("C {c} {from}"));
        }
        parts.join(" ")
    }
}

/// `resolve_template_name` re-implemented for the oracles: exact name first, then prefixes in order
pub fn resolve<'a>(names: &'a [String], prefixes: &[String], target: &str) -> Option<&'a str> {
    if let Some(n) = names.iter().find(|n| n.as_str() == target) {
        return Some(n.as_str());
    }
    for p in prefixes {
        let full = format!("{p}{target}");
        if let Some(n) = names.iter().find(|n| **n == full) {
            return Some(n.as_str());
        }
    }
    None
}
