//! Shared pieces of the correspondence harness: PRNG, wire format, Lean driver runner, report.
pub mod bcgen;
pub mod childrun;
pub mod driver;
pub mod evalh;
pub mod lexwire;
pub mod report;
pub mod rng;
pub mod tplgen;
pub mod wire;

/// Tier and seed as given by the check script (env `VERIF_TIER`, `VERIF_SEED`).
pub struct Env {
    pub tier: String,
    pub seed: u64,
    pub verif_dir: std::path::PathBuf,
}

impl Env {
    pub fn from_env() -> Self {
        let tier = std::env::var("VERIF_TIER").unwrap_or_else(|_| "quick".into());
        let seed = std::env::var("VERIF_SEED")
            .ok()
            .and_then(|s| s.parse::<u64>().ok())
            .unwrap_or(1);
        let verif_dir = std::env::var("VERIF_DIR")
            .map(std::path::PathBuf::from)
            .unwrap_or_else(|_| std::path::PathBuf::from("/verif"));
        Env { tier, seed, verif_dir }
    }
    pub fn quick(&self) -> bool {
        self.tier != "thorough"
    }
    /// `q` in the quick tier, `t` in the thorough tier
    pub fn budget(&self, q: usize, t: usize) -> usize {
        if self.quick() { q } else { t }
    }
}

/// Run `f`, turning a panic into `Err(message)`.
pub fn catch<T>(f: impl FnOnce() -> T + std::panic::UnwindSafe) -> Result<T, String> {
    std::panic::catch_unwind(f).map_err(|e| {
        if let Some(s) = e.downcast_ref::<&str>() {
            s.to_string()
        } else if let Some(s) = e.downcast_ref::<String>() {
            s.clone()
        } else {
            "panic".to_string()
        }
    })
}

/// Silence the default panic printer (panics are observations here, reported in the result).
pub fn quiet_panics() {
    std::panic::set_hook(Box::new(|_| {}));
}
