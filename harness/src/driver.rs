//! Runs a Lean model driver (a `lean_exe` speaking the line protocol) over a batch of requests.
use std::io::Write;
use std::path::{Path, PathBuf};
use std::process::{Command, Stdio};

pub fn driver_path(verif_dir: &Path, name: &str) -> PathBuf {
    match std::env::var("VERIF_LEAN_DIR") {
        Ok(d) if !d.is_empty() => PathBuf::from(d).join(".lake/build/bin").join(name),
        _ => verif_dir.join("lean/.lake/build/bin").join(name),
    }
}

/// One output line per request line, in order.
pub fn run_batch(exe: &Path, requests: &[String]) -> Result<Vec<String>, String> {
    let mut child = Command::new(exe)
        .stdin(Stdio::piped())
        .stdout(Stdio::piped())
        .stderr(Stdio::piped())
        .spawn()
        .map_err(|e| format!("cannot start model driver {}: {e}", exe.display()))?;
    let mut stdin = child.stdin.take().unwrap();
    let payload: String = requests.iter().map(|l| format!("{l}\n")).collect();
    let writer = std::thread::spawn(move || {
        let _ = stdin.write_all(payload.as_bytes());
    });
    let out = child
        .wait_with_output()
        .map_err(|e| format!("model driver failed: {e}"))?;
    let _ = writer.join();
    let text = String::from_utf8_lossy(&out.stdout);
    let lines: Vec<String> = text.lines().map(|s| s.to_string()).collect();
    if lines.len() != requests.len() {
        return Err(format!(
            "model driver answered {} lines for {} requests (status {:?}, stderr: {})",
            lines.len(),
            requests.len(),
            out.status.code(),
            String::from_utf8_lossy(&out.stderr).chars().take(400).collect::<String>()
        ));
    }
    Ok(lines)
}

/// Split a big batch over `threads` driver processes.
pub fn run_batch_parallel(exe: &Path, requests: &[String], threads: usize) -> Result<Vec<String>, String> {
    if requests.len() < 2000 || threads <= 1 {
        return run_batch(exe, requests);
    }
    let chunk = requests.len().div_ceil(threads);
    let results: Vec<Result<Vec<String>, String>> = std::thread::scope(|s| {
        let handles: Vec<_> = requests
            .chunks(chunk)
            .map(|c| s.spawn(move || run_batch(exe, c)))
            .collect();
        handles.into_iter().map(|h| h.join().unwrap()).collect()
    });
    let mut out = Vec::with_capacity(requests.len());
    for r in results {
        out.extend(r?);
    }
    Ok(out)
}
