#!/usr/bin/env python3
"""Driver of every check:  ./check <property id> [quick|thorough] [--replay <file>]

Steps (identical for all properties, see DESIGN.md §1):
  1. regenerate lean/TeraModel/Generated/*.lean from /repo's working tree (translator)
  2. lake build the property's theorem module(s) and model driver; audit axioms / sorry
  3. cargo build the correspondence harness against /repo (feature verif_hooks)
  4. run the harness (implementation vs Lean model, plus direct oracles); it searches for a
     failing input whenever something disagrees
  5. write evidence/<id>.json, print VIOLATION / KNOWN-FINDING lines, exit 0 or 1
"""
import hashlib
import json
import os
import re
import subprocess
import sys
import time

VERIF = os.path.dirname(os.path.abspath(__file__))
LEAN = os.path.join(VERIF, "lean")
HARNESS = os.path.join(VERIF, "harness")
WORK = os.path.join(VERIF, "work")
REPO = os.environ.get("VERIF_REPO", "/repo")
ALT = REPO != "/repo"          # development aid: run the same check against a scratch copy of the repository
if ALT:
    # the alternative repository gets its own copy of the Lean project (Generated tables, build
    # products), so a run against a modified tree never touches what the registered checks use
    ALT_TAG = os.environ.get("VERIF_ALT_TAG", "")
    _alt_lean = os.path.join(WORK, "alt-lean" + ("-" + ALT_TAG if ALT_TAG else ""))
    os.makedirs(_alt_lean, exist_ok=True)
    subprocess.run(["rsync", "-a", "--delete", "--exclude", "TeraModel/Generated", LEAN + "/", _alt_lean + "/"], check=True)
    LEAN = _alt_lean

ALLOWED_AXIOMS = {"propext", "Classical.choice", "Quot.sound"}
FORBIDDEN = re.compile(r"\b(sorry|admit|native_decide|bv_decide|implemented_by|unsafe)\b|^axiom\s|maxHeartbeats 0")

sys.path.insert(0, VERIF)
from props import PROPS  # noqa: E402


def run(cmd, cwd=None, env=None, timeout=None):
    e = dict(os.environ)
    e["CARGO_NET_OFFLINE"] = "true"
    if env:
        e.update(env)
    t0 = time.time()
    try:
        p = subprocess.run(cmd, cwd=cwd, env=e, stdout=subprocess.PIPE, stderr=subprocess.STDOUT,
                           timeout=timeout, text=True, errors="replace")
        return p.returncode, p.stdout, time.time() - t0
    except subprocess.TimeoutExpired as ex:
        out = ex.stdout if isinstance(ex.stdout, str) else (ex.stdout or b"").decode("utf8", "replace")
        return 124, out + "\n[timeout]", time.time() - t0


def strip_comments(text):
    """remove Lean block and line comments (nested block comments handled)"""
    out, i, depth = [], 0, 0
    while i < len(text):
        if text.startswith("/-", i):
            depth += 1
            i += 2
        elif depth and text.startswith("-/", i):
            depth -= 1
            i += 2
        elif depth:
            i += 1
        elif text.startswith("--", i):
            j = text.find("\n", i)
            i = len(text) if j < 0 else j
        else:
            out.append(text[i])
            i += 1
    return "".join(out)


def lean_sources_of(module, seen=None):
    """transitive closure of project-local imports of a module (files under lean/)"""
    seen = seen if seen is not None else {}
    path = os.path.join(LEAN, module.replace(".", "/") + ".lean")
    if module in seen or not os.path.exists(path):
        return seen
    text = open(path).read()
    seen[module] = path
    for m in re.findall(r"^import\s+(TeraModel\.[\w.]+)", text, re.M):
        lean_sources_of(m, seen)
    return seen


def lean_sources_of_generated(module, seen=None, acc=None):
    """names of TeraModel.Generated.* modules a module imports (transitively through project files)"""
    seen = seen if seen is not None else set()
    acc = acc if acc is not None else set()
    path = os.path.join(LEAN, module.replace(".", "/") + ".lean")
    if module in seen:
        return acc
    seen.add(module)
    if module.startswith("TeraModel.Generated."):
        acc.add(module)
        return acc
    if not os.path.exists(path):
        return acc
    for m in re.findall(r"^import\s+(TeraModel\.[\w.]+)", open(path).read(), re.M):
        lean_sources_of_generated(m, seen, acc)
    return acc


def theorems_of(module):
    path = os.path.join(LEAN, module.replace(".", "/") + ".lean")
    text = strip_comments(open(path).read())
    ns = re.search(r"^namespace\s+([\w.]+)", text, re.M)
    ns = ns.group(1) + "." if ns else ""
    names = re.findall(r"^\s*(?:protected\s+|private\s+)?theorem\s+([\w.']+)", text, re.M)
    return [ns + n for n in names]


def translate(pid, result):
    """step 1: regenerate the Generated tables (only rewritten when content changes)"""
    tr = os.path.join(VERIF, "translator", "extract.py")
    if not os.path.exists(tr):
        return
    tr_env = {"VERIF_REPO": REPO, "VERIF_GENERATED_OUT": os.path.join(LEAN, "TeraModel", "Generated")}
    rc, out, dt = run([sys.executable, tr], cwd=VERIF, env=tr_env, timeout=600)
    if "[timeout]" in out:      # a stalled machine, not the source: the extractors take a second; try once more
        rc, out, dt = run([sys.executable, tr], cwd=VERIF, env=tr_env, timeout=1200)
    result["translator_s"] = round(dt, 2)
    if rc != 0:
        # an extractor failed: this property is affected only if it imports one of that table's outputs
        failed = re.findall(r"^TRANSLATOR-FAILED table=(\w+)", out, re.M)
        mine = set()
        for m in PROPS.get(pid, {}).get("lean_modules", []):
            mine |= set(lean_sources_of_generated(m))
        hit = []
        for t in failed:
            outs = []
            try:
                txt = open(os.path.join(VERIF, "translator", "tables", t + ".py")).read()
                mo = re.search(r"^OUTPUTS\s*=\s*\[([^\]]*)\]", txt, re.M)
                outs = re.findall(r"[\"']([\w.]+)\.lean[\"']", mo.group(1)) if mo else []
            except Exception:  # noqa: BLE001
                pass
            if not outs or any(("TeraModel.Generated." + o) in mine for o in outs):
                hit.append(t)
        if hit or not failed or pid == "setup":
            result["broken"].append({"what": "translator", "name": "translator/tables/" + ",".join(hit or ["?"]) + ".py",
                                     "detail": out[-1500:]})


def build_lean(pid, cfg, result):
    modules = cfg.get("lean_modules", [])
    targets = list(modules) + cfg.get("lean_exes", [])
    if not targets:
        return
    rc, out, dt = run(["lake", "build"] + targets, cwd=LEAN, timeout=3000)
    result["lake_build_s"] = round(dt, 2)
    if rc != 0:
        # find which module failed
        failed = re.findall(r"^✖ \[\d+/\d+\] Building ([\w.]+)", out, re.M) or re.findall(r"^- ([\w.:]+)$", out, re.M)
        errs = re.findall(r"^error: (.*)$", out, re.M)[:6]
        result["broken"].append({"what": "proof", "name": ",".join(failed) or "lake build",
                                 "detail": "\n".join(errs)[:1500]})
    # source audit
    for m in modules:
        for mod, path in lean_sources_of(m).items():
            code = strip_comments(open(path).read())
            hit = FORBIDDEN.search(code)
            if hit:
                result["broken"].append({"what": "proof", "name": mod,
                                         "detail": f"forbidden construct `{hit.group(0).strip()}` in {path}"})


def audit(pid, cfg, result):
    """#print axioms for every theorem of the property modules"""
    thms = []
    for m in cfg.get("lean_modules", []):
        if ".Props." in m:
            thms += [(m, t) for t in theorems_of(m)]
    result["obligations"] = len(thms)
    result["discharged"] = 0
    result["theorems"] = []
    if not thms or any(b["what"] == "proof" and "lake build" in b["name"] for b in result["broken"]):
        pass
    os.makedirs(os.path.join(LEAN, "Audit"), exist_ok=True)
    audit_file = os.path.join(LEAN, "Audit", f"{pid}.lean")
    imports = sorted({m for m, _ in thms})
    text = "".join(f"import {m}\n" for m in imports) + "".join(f"#print axioms {t}\n" for _, t in thms)
    open(audit_file, "w").write(text)
    rc, out, dt = run(["lake", "env", "lean", audit_file], cwd=LEAN, timeout=900)
    result["audit_s"] = round(dt, 2)
    seen = {}
    for mt in re.finditer(r"'([\w.']+)' (does not depend on any axioms|depends on axioms: \[([^\]]*)\])", out, re.S):
        axioms = [a.strip() for a in (mt.group(3) or "").replace("\n", " ").split(",") if a.strip()]
        seen[mt.group(1)] = axioms
    for _, t in thms:
        if t in seen:
            bad = [a for a in seen[t] if a not in ALLOWED_AXIOMS]
            result["theorems"].append({"name": t, "axioms": seen[t], "ok": not bad})
            if bad:
                result["broken"].append({"what": "proof", "name": t, "detail": f"depends on axioms {bad}"})
            else:
                result["discharged"] += 1
        else:
            result["theorems"].append({"name": t, "axioms": None, "ok": False})
            if not any(b["what"] == "proof" for b in result["broken"]):
                result["broken"].append({"what": "proof", "name": t, "detail": "theorem did not check: " + out[-600:]})


def build_harness(pid, cfg, result):
    binname = cfg.get("harness_bin")
    if not binname:
        return None
    global HARNESS
    if ALT and "alt-harness" not in os.path.basename(HARNESS):
        # same sources, path dependencies pointed at the scratch repository, own target dir
        alt = os.path.join(WORK, "alt-harness" + ("-" + os.environ.get("VERIF_ALT_TAG", "") if os.environ.get("VERIF_ALT_TAG") else ""))
        os.makedirs(alt, exist_ok=True)
        run(["rsync", "-a", "--delete", "--exclude", "target", "--exclude", "Cargo.lock*", HARNESS + "/", alt + "/"])
        ct = open(os.path.join(alt, "Cargo.toml")).read().replace('"/repo/', '"' + REPO + "/")
        open(os.path.join(alt, "Cargo.toml"), "w").write(ct)
        HARNESS = alt
    lock_src = os.path.join(REPO, "Cargo.lock")
    lock_dst = os.path.join(HARNESS, "Cargo.lock")
    if os.path.exists(lock_src):
        s = open(lock_src, "rb").read()
        if not os.path.exists(lock_dst) or hashlib.sha1(open(lock_dst, "rb").read()).digest() != hashlib.sha1(s).digest():
            # keep entries the harness itself resolved earlier if the repo lock did not change
            if not os.path.exists(lock_dst + ".repo") or open(lock_dst + ".repo", "rb").read() != s:
                open(lock_dst, "wb").write(s)
                open(lock_dst + ".repo", "wb").write(s)
    rc, out, dt = run(["cargo", "build", "--release", "--offline", "--bin", binname], cwd=HARNESS, timeout=3000)
    result["cargo_build_s"] = round(result.get("cargo_build_s", 0) + dt, 2)
    if rc != 0:
        errs = [l for l in out.splitlines() if l.startswith("error")][:6]
        result["broken"].append({"what": "harness-build", "name": f"harness/src/bin/{binname}.rs",
                                 "detail": ("\n".join(errs) or out[-800:])[:1500]})
        return None
    return os.path.join(HARNESS, "target", "release", binname)


def merge_reports(a, b, tag):
    """sum the counters of two harness reports, concatenate lists"""
    if b is None:
        return a
    if a is None:
        return b
    out = dict(a)
    for k in ("evaluations", "distinct_nontrivial", "model_comparisons", "model_disagreements",
              "oracle_checks", "oracle_failures"):
        out[k] = a.get(k, 0) + b.get(k, 0)
    out["rule"] = (a.get("rule", "") + " || " + tag + ": " + b.get("rule", "")).strip(" |")
    out["samples"] = (a.get("samples", []) + b.get("samples", []))[:16]
    out["violations"] = a.get("violations", []) + b.get("violations", [])
    out["notes"] = a.get("notes", []) + b.get("notes", [])
    out["known_findings_seen"] = a.get("known_findings_seen", []) + b.get("known_findings_seen", [])
    h = dict(a.get("histogram", {}))
    for k, v in b.get("histogram", {}).items():
        h[f"{tag}.{k}"] = v
    out["histogram"] = h
    out["exhaustive"] = bool(a.get("exhaustive")) and bool(b.get("exhaustive"))
    return out


def run_harness(pid, cfg, exe, tier, seed, result, extra_args=(), tag=""):
    os.makedirs(WORK, exist_ok=True)
    out_dir = os.path.join(WORK, "alt-out-" + (os.environ.get("VERIF_ALT_TAG") or "0")) if ALT else WORK
    os.makedirs(out_dir, exist_ok=True)
    out_file = os.path.join(out_dir, f"{pid}.{tag + '.' if tag else ''}{tier}.result.json")
    if os.path.exists(out_file):
        os.remove(out_file)
    env = {"VERIF_TIER": tier, "VERIF_SEED": str(seed), "VERIF_DIR": VERIF, "VERIF_LEAN_DIR": LEAN}
    timeout = cfg.get("timeout_s", {}).get(tier, 1500 if tier == "quick" else 7200)
    rc, out, dt = run([exe, "--out", out_file] + list(extra_args), cwd=VERIF, env=env, timeout=timeout)
    result["harness_s"] = round(result.get("harness_s", 0) + dt, 2)
    if not os.path.exists(out_file):
        result["broken"].append({"what": "harness-run", "name": os.path.basename(exe),
                                 "detail": f"exit {rc}: " + out[-1200:]})
        return None
    try:
        return json.load(open(out_file))
    except Exception as ex:  # noqa: BLE001
        result["broken"].append({"what": "harness-run", "name": os.path.basename(exe), "detail": f"bad result json: {ex}"})
        return None


def load_known():
    p = os.path.join(VERIF, "known_findings.json")
    if not os.path.exists(p):
        return []
    return json.load(open(p)).get("findings", [])


def setup():
    """MANIFEST.setup_cmd: build every Lean target and every harness binary once"""
    ok = True
    mods, exes, bins = [], [], []
    try:
        claimed = {c["property_id"] for c in json.load(open(os.path.join(VERIF, "MANIFEST.json")))["checks"]}
    except Exception:  # noqa: BLE001
        claimed = set(PROPS)
    for pid, cfg in PROPS.items():
        if pid not in claimed:
            continue
        mods += [m for m in cfg.get("lean_modules", []) if m not in mods]
        exes += [e for e in cfg.get("lean_exes", []) if e not in exes]
        for hb in (cfg.get("harness_bins") or ([cfg["harness_bin"]] if cfg.get("harness_bin") else [])):
            if hb not in bins:
                bins.append(hb)
    r = {"broken": []}
    translate("setup", r)
    rc, out, dt = run(["lake", "build"] + mods + exes, cwd=LEAN, timeout=7200)
    print(f"lake build: rc={rc} {dt:.0f}s")
    if rc != 0:
        print(out[-3000:])
        ok = False
    for b in bins:
        exe = build_harness("setup", {"harness_bin": b}, r)
        print(f"cargo build {b}: {'ok' if exe else 'FAILED'}")
        ok = ok and exe is not None
    for b in r["broken"]:
        print(json.dumps(b)[:2000])
    sys.exit(0 if ok else 1)


def main():
    args = sys.argv[1:]
    if args and args[0] == "--setup":
        setup()
    if not args or args[0] not in PROPS:
        print("usage: check <property id> [quick|thorough] [--replay <file>]\nknown ids: " + " ".join(sorted(PROPS)))
        sys.exit(2)
    pid = args[0]
    tier = os.environ.get("VERIF_TIER") or "quick"
    if len(args) > 1 and args[1] in ("quick", "thorough"):
        tier = args[1]
    seed = int(os.environ.get("VERIF_SEED", "1") or 1)
    cfg = PROPS[pid]
    t0 = time.time()

    if "--replay" in args:
        path = args[args.index("--replay") + 1]
        r = {"broken": []}
        rb = cfg.get("harness_bin") or (cfg.get("harness_bins") or [None])[0]
        try:
            rj = json.load(open(path))
            rb = (rj.get("replay") or {}).get("harness_bin") or rj.get("harness_bin") or rb
        except Exception:  # noqa: BLE001
            pass
        exe = build_harness(pid, dict(cfg, harness_bin=rb), r)
        if exe is None:
            print(json.dumps(r["broken"], indent=1))
            sys.exit(2)
        os.execv(exe, [exe, "--replay", path])

    result = {"broken": []}
    translate(pid, result)
    build_lean(pid, cfg, result)
    audit(pid, cfg, result)
    if tier == "thorough" and not result["broken"]:
        # independent re-check of the compiled theorem modules
        for m in cfg.get("lean_modules", []):
            rc, out, dt = run(["lake", "env", "leanchecker", m], cwd=LEAN, timeout=1800)
            result["leanchecker_s"] = round(result.get("leanchecker_s", 0) + dt, 2)
            if rc != 0:
                result["broken"].append({"what": "proof", "name": m, "detail": "leanchecker: " + out[-800:]})
    # one harness binary, or several whose reports are merged (e.g. C02: syntax half + evaluation half)
    bins = cfg.get("harness_bins") or ([cfg["harness_bin"]] if cfg.get("harness_bin") else [])
    report = None
    for b in bins:
        exe = build_harness(pid, dict(cfg, harness_bin=b), result)
        r = run_harness(pid, dict(cfg, harness_bin=b), exe, tier, seed, result, tag=b) if exe else None
        report = merge_reports(report, r, b)

    # ---------------------------------------------------------------- verdict
    os.makedirs(os.path.join(VERIF, "replay"), exist_ok=True)
    known = [k for k in load_known() if k.get("property") == pid and k.get("status") == "known"]
    violations = []          # (replay path, suffix)
    known_lines = []
    prop_viol = [v for v in (report or {}).get("violations", []) if v["kind"] == "property"]
    mismatch = [v for v in (report or {}).get("violations", []) if v["kind"] != "property"]
    for v in prop_viol:
        if v.get("known"):
            k = next((k for k in known if k["id"] == v["known"]), None)
            if k:
                line = f"KNOWN-FINDING: property={pid} {k['id']}: {k['what']}"
                if line not in known_lines:
                    known_lines.append(line)
                continue
        h = hashlib.sha1(json.dumps(v["replay"], sort_keys=True).encode()).hexdigest()[:10]
        path = os.path.join(VERIF, "replay", f"{pid}-{h}.json")
        json.dump({"property": pid, "summary": v["summary"], "replay": v["replay"],
                   "rerun": f"./check {pid} --replay {path}"}, open(path, "w"), indent=1)
        violations.append((path, ""))
    # known findings the harness reproduced as such (reported through notes)
    for kf in (report or {}).get("known_findings_seen", []) if report else []:
        k = next((k for k in known if k["id"] == kf), None)
        if k:
            line = f"KNOWN-FINDING: property={pid} {k['id']}: {k['what']}"
            if line not in known_lines:
                known_lines.append(line)
    if not violations and (result["broken"] or mismatch):
        # something no longer checks, and the search found no input on which the property fails
        what = result["broken"] + [{"what": "correspondence", "name": v["replay"].get("detail", {}).get("stage", "model-vs-implementation") if isinstance(v["replay"], dict) else "model-vs-implementation",
                                     "detail": v["summary"], "case": v["replay"]} for v in mismatch]
        h = hashlib.sha1(json.dumps(what, sort_keys=True, default=str).encode()).hexdigest()[:10]
        path = os.path.join(VERIF, "replay", f"{pid}-unchecked-{h}.json")
        json.dump({"property": pid,
                   "no_longer_checks": what,
                   "note": "a proof obligation, the translator or the model/implementation correspondence broke; "
                           "the search over the model and the implementation found no input on which the property itself fails",
                   }, open(path, "w"), indent=1, default=str)
        violations.append((path, " no-failing-input-found"))

    # ---------------------------------------------------------------- evidence
    trusted = ["Lean 4.33.0 kernel", "axioms: propext, Classical.choice, Quot.sound only (audited with #print axioms)",
               "translator/extract.py and the correspondence harness (harness/) with its canonicalisation"] + cfg.get("trusted", [])
    coverage = {
        "obligations": max(result.get("obligations", 0), 0),
        "discharged": result.get("discharged", 0),
        "checker_cmd": "cd lean && lake build " + " ".join(cfg.get("lean_modules", [])) + f" && lake env lean Audit/{pid}.lean   (#print axioms per theorem)",
        "trusted_base": trusted,
        "theorems": result.get("theorems", []),
        "evaluations": (report or {}).get("evaluations", 0),
        "distinct_nontrivial": (report or {}).get("distinct_nontrivial", 0),
        "rule": (report or {}).get("rule", ""),
        "samples": (report or {}).get("samples", []) or [{"note": "no harness samples"}],
        "histogram": (report or {}).get("histogram", {}),
        "model_comparisons": (report or {}).get("model_comparisons", 0),
        "model_disagreements": (report or {}).get("model_disagreements", 0),
        "oracle_checks": (report or {}).get("oracle_checks", 0),
        "oracle_failures": (report or {}).get("oracle_failures", 0),
        "disagreements_checked": (report or {}).get("model_disagreements", 0),
        "exhaustive": bool((report or {}).get("exhaustive", False)),
        "notes": (report or {}).get("notes", []),
        "no_longer_checks": result["broken"],
        "known_findings_reported": known_lines,
        "timings_s": {k: v for k, v in result.items() if k.endswith("_s")},
    }
    evidence = {
        "property_id": pid,
        "tier": tier,
        "seed": seed,
        "level": cfg.get("level", "proof"),
        "coverage": coverage,
        "assumptions": cfg.get("assumptions", []),
        "wall_s": round(time.time() - t0, 2),
        "violations": len(violations),
    }
    ev_dir = os.path.join(WORK, "alt-evidence" + ("-" + os.environ.get("VERIF_ALT_TAG", "") if os.environ.get("VERIF_ALT_TAG") else "")) if ALT else os.path.join(VERIF, "evidence")
    os.makedirs(ev_dir, exist_ok=True)
    json.dump(evidence, open(os.path.join(ev_dir, f"{pid}.json"), "w"), indent=1, default=str)

    for line in known_lines:
        print(line)
    print(f"{pid} {tier}: theorems {coverage['discharged']}/{coverage['obligations']} checked, "
          f"{coverage['evaluations']} cases, model disagreements {coverage['model_disagreements']}, "
          f"oracle failures {coverage['oracle_failures']}, {evidence['wall_s']} s")
    printed = set()
    for path, suffix in violations:
        if path not in printed:
            print(f"VIOLATION property={pid} replay={path}{suffix}")
            printed.add(path)
    sys.exit(1 if violations else 0)


if __name__ == "__main__":
    main()
