"""Per-property configuration of the check driver (check.py): one JSON file per property in
props.d/ (so that properties can be worked on independently)."""
import json
import os

_D = os.path.join(os.path.dirname(os.path.abspath(__file__)), "props.d")
PROPS = {}
for _f in sorted(os.listdir(_D)):
    if _f.endswith(".json"):
        _c = json.load(open(os.path.join(_D, _f)))
        PROPS[_f[:-5]] = _c
