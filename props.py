"""Per-property configuration of the check driver (check.py)."""

PROPS = {
    "C13": {
        "lean_modules": ["TeraModel.Props.C13"],
        "lean_exes": ["drv_c13"],
        "harness_bin": "c13",
        "level": "proof",
        "trusted": [
            "modelled, not verified: Rust std i128 checked_* / div_euclid / rem_euclid / checked_pow (taken as exact-or-none), f64 hardware arithmetic and libm pow (executed natively on both sides), `as f64` rounding (model: round-to-nearest-even)",
        ],
        "assumptions": [
            "default cargo features of tera (no fast_*, no preserve_order)",
            "float arithmetic results are only required to be IEEE operations on the converted operands; powf is compared bit-for-bit but not specified",
        ],
    },
}
