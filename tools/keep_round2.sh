#!/bin/sh
# tools/keep_round2.sh Cnn : store round-2 mutants (numbered 6..10) from /tmp/mut2_cnn/out
p=$1; low=$(echo $p | tr 'A-Z' 'a-z'); src=/tmp/mut2_$low/out; tmp=/tmp/lead/r2_$low; rm -rf $tmp; mkdir -p $tmp
for n in $(ls $src); do m=$((n+5)); cp -r $src/$n $tmp/$m; done
python3 /verif/tools/keep_mutants.py $p $tmp | grep -E "^$p-"
