#!/bin/sh
# Run every claimed check's quick (or given) tier in sequence; print one line each + total time.
tier=${1:-quick}
cd "$(dirname "$0")/.."
start=$(date +%s)
for id in $(python3 -c "import json;print(' '.join(c['property_id'] for c in json.load(open('MANIFEST.json'))['checks']))"); do
  s=$(date +%s)
  out=$(./check $id $tier); rc=$?
  echo "$out" | grep -E "^(VIOLATION|KNOWN-FINDING|$id )"
  echo "   [$id exit=$rc $(( $(date +%s) - s )) s]"
done
echo "total $(( $(date +%s) - start )) s"
