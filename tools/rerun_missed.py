#!/usr/bin/env python3
"""Re-run only the seeded changes whose last recorded run did not catch them (or caught them without
a failing input), refreshing meta.json["our_checks"].   tools/rerun_missed.py [-j N]"""
import json, os, subprocess, sys
from concurrent.futures import ThreadPoolExecutor
V = os.path.dirname(os.path.dirname(os.path.abspath(__file__)))
jobs = int(sys.argv[sys.argv.index("-j") + 1]) if "-j" in sys.argv else 3
todo = []
for d in sorted(os.listdir(os.path.join(V, "seeded"))):
    mp = os.path.join(V, "seeded", d, "meta.json")
    if not os.path.exists(mp):
        continue
    m = json.load(open(mp))
    oc = m.get("our_checks", {})
    if not oc.get("caught") or not oc.get("with_failing_input"):
        todo.append(d)
print("to re-run:", todo, flush=True)


def one(d):
    dd = os.path.join(V, "seeded", d)
    meta = json.load(open(os.path.join(dd, "meta.json")))
    checks = meta.get("checks", d.split("-")[0])
    r = subprocess.run([sys.executable, os.path.join(V, "tools/try_mutant.py"), checks, os.path.join(dd, "patch.diff")],
                       text=True, stdout=subprocess.PIPE, stderr=subprocess.STDOUT)
    lines = [l for l in r.stdout.splitlines() if l.strip()]
    caught = any(l.startswith("VIOLATION") for l in lines)
    real = any(l.startswith("VIOLATION") and "no-failing-input-found" not in l for l in lines)
    applies = not any("patch does not apply" in l for l in lines)
    meta["our_checks"] = {"ran": f"tools/try_mutant.py {checks} patch.diff (scratch worktree of /repo HEAD + patch; same as git -C /repo apply, ./check, git checkout)",
                          "caught": caught, "with_failing_input": real, "patch_applies_to_head": applies,
                          "output": [l for l in lines if l.startswith(("VIOLATION", "---", "KNOWN"))][:12]}
    json.dump(meta, open(os.path.join(dd, "meta.json"), "w"), indent=1)
    print(f"{d}: caught={caught} failing_input={real} applies={applies}", flush=True)


with ThreadPoolExecutor(max_workers=jobs) as ex:
    list(ex.map(one, todo))
