#!/bin/sh
# tools/keep_round6.sh Cnn : confirm (lead side) and store round-6 mutants from /tmp/mut6_cnn/out,
# numbered after the ones already kept; only confirmed changes are kept
p=$1; low=$(echo $p | tr 'A-Z' 'a-z'); src=/tmp/mut6_$low/out; tmp=/tmp/lead/r6_$low; rm -rf $tmp; mkdir -p $tmp
python3 /verif/tools/confirm_seeded.py -j 2 --tag $low --src $src --prop $p
last=$(ls -d /verif/seeded/$p-* | sed "s/.*$p-//" | sort -n | tail -1)
for n in $(ls $src | grep -E '^[0-9]+$'); do
  if python3 -c "import json,sys; sys.exit(0 if json.load(open('$src/$n/meta.json')).get('lead_confirmed',{}).get('confirmed') else 1)"; then
    m=$((n+last)); cp -r $src/$n $tmp/$m
  else echo "$p round6 #$n NOT confirmed: skipped"; fi
done
python3 /verif/tools/keep_mutants.py $p $tmp | grep -E "^$p-"
