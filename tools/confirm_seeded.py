#!/usr/bin/env python3
"""Lead-side confirmation of seeded changes, independent of what the adversary agent reported.

For each seeded/<id>/ (or each numbered directory under --src DIR) in a scratch worktree of /repo HEAD:
  1. `git apply patch.diff`                                   must apply
  2. `cargo test --workspace --no-fail-fast --offline`         must pass   (the pinned suite's fallback form)
  3. demo_test.rs placed as tera/tests/demo_mut.rs (tera-contrib/tests/ for contrib demos) must FAIL
     at run time (a compile error does not count)
  4. patch reverted, same demo                                 must PASS
and records meta.json["lead_confirmed"] = {...}.  Worktrees live under /tmp/lead/confirm-<k> and are
removed at the end.

    tools/confirm_seeded.py [-j N] [--tag T] [--src DIR --prop Cnn | ids… | Cnn…]
"""
import json
import os
import re
import shutil
import subprocess
import sys
from concurrent.futures import ThreadPoolExecutor

V = os.path.dirname(os.path.dirname(os.path.abspath(__file__)))
ENV = dict(os.environ, CARGO_NET_OFFLINE="true")


def sh(cmd, cwd, timeout=1800):
    try:
        r = subprocess.run(cmd, cwd=cwd, shell=True, text=True, stdout=subprocess.PIPE, stderr=subprocess.STDOUT,
                           env=ENV, timeout=timeout)
        return r.returncode, r.stdout
    except subprocess.TimeoutExpired as e:
        return 124, (e.stdout or "") + "\nTIMEOUT"


def demo_cmd(text, prop):
    contrib = "tera_contrib" in text
    feats = []
    if contrib:
        for f in ["base64", "urlencode", "json", "slug", "date", "filesize_format", "format", "rand", "regex"]:
            if re.search(rf"\b{f}\b", text):
                feats.append(f)
        if not feats:
            feats = ["base64", "urlencode", "json", "slug"]
        return "tera-contrib/tests/demo_mut.rs", f"cargo test -p tera-contrib --features {','.join(feats)} --test demo_mut --offline"
    if "verif_hooks" in text:
        feats.append("verif_hooks")
    if "glob_fs" in text or "load_from_glob" in text:
        feats.append("glob_fs")
    f = f" --features {','.join(feats)}" if feats else ""
    return "tera/tests/demo_mut.rs", f"cargo test -p tera{f} --test demo_mut --offline"


def runtime_failure(rc, out):
    if rc == 0:
        return False
    if re.search(r"error(\[E\d+\])?: |could not compile", out) and "test result:" not in out and "running " not in out:
        return False
    return bool(re.search(r"test result: FAILED|panicked|signal|SIGSEGV|SIGABRT|overflowed its stack|process didn't exit successfully", out))


def confirm(wt, d, prop):
    res = {"head": subprocess.check_output(["git", "-C", "/repo", "rev-parse", "--short", "HEAD"], text=True).strip()}
    patch = os.path.join(d, "patch.diff")
    demos = [f for f in os.listdir(d) if f.startswith("demo") and f.endswith(".rs")]
    sh("git checkout -q -- . && git clean -fdq tera/tests tera-contrib/tests", wt)
    rc, out = sh(f"git apply {patch}", wt)
    res["applies"] = rc == 0
    if rc != 0:
        res["confirmed"] = False
        res["why"] = "patch does not apply: " + out.strip()[:200]
        return res
    rc, out = sh("cargo test --workspace --no-fail-fast --offline", wt, 2400)
    res["suite_with_change"] = "pass" if rc == 0 else "FAIL"
    if rc != 0:
        res["suite_tail"] = [l for l in out.splitlines() if re.search(r"FAILED|failed|panicked|^error", l)][:8]
    if not demos:
        res["confirmed"] = False
        res["why"] = "no demo"
        sh("git checkout -q -- .", wt)
        return res
    text = open(os.path.join(d, demos[0])).read()
    dst, cmd = demo_cmd(text, prop)
    os.makedirs(os.path.dirname(os.path.join(wt, dst)), exist_ok=True)
    shutil.copy(os.path.join(d, demos[0]), os.path.join(wt, dst))
    rc1, out1 = sh(cmd, wt, 1200)
    res["demo_with_change"] = "fails" if runtime_failure(rc1, out1) else ("passes" if rc1 == 0 else "does-not-build-or-other")
    if res["demo_with_change"] != "fails":
        res["demo_with_change_tail"] = out1.splitlines()[-6:]
    sh("git checkout -q -- .", wt)
    rc2, out2 = sh(cmd, wt, 1200)
    res["demo_clean"] = "passes" if rc2 == 0 else "FAILS"
    if rc2 != 0:
        res["demo_clean_tail"] = out2.splitlines()[-6:]
    os.remove(os.path.join(wt, dst))
    sh("git checkout -q -- . && git clean -fdq tera/tests tera-contrib/tests", wt)
    res["demo_cmd"] = cmd
    res["confirmed"] = (res["suite_with_change"] == "pass" and res["demo_with_change"] == "fails"
                        and res["demo_clean"] == "passes")
    return res


def main():
    args = sys.argv[1:]
    jobs = 4
    src = prop = None
    tag = "a"
    ids = []
    i = 0
    while i < len(args):
        if args[i] == "-j":
            jobs = int(args[i + 1]); i += 2
        elif args[i] == "--src":
            src = args[i + 1]; i += 2
        elif args[i] == "--prop":
            prop = args[i + 1]; i += 2
        elif args[i] == "--tag":
            tag = args[i + 1]; i += 2
        else:
            ids.append(args[i]); i += 1
    work = []
    if src:
        for n in sorted(os.listdir(src)):
            d = os.path.join(src, n)
            if os.path.exists(os.path.join(d, "patch.diff")):
                work.append((f"{prop}:{n}", d, prop))
    else:
        for n in sorted(os.listdir(os.path.join(V, "seeded"))):
            p = n.split("-")[0]
            if ids and n not in ids and p not in ids:
                continue
            d = os.path.join(V, "seeded", n)
            if os.path.exists(os.path.join(d, "patch.diff")):
                work.append((n, d, p))
    os.makedirs("/tmp/lead", exist_ok=True)
    wts = []
    for k in range(min(jobs, len(work))):
        wt = f"/tmp/lead/confirm-{tag}-{k}"
        subprocess.run(["git", "-C", "/repo", "worktree", "remove", "--force", wt], stdout=subprocess.DEVNULL, stderr=subprocess.DEVNULL)
        subprocess.check_call(["git", "-C", "/repo", "worktree", "add", "-q", "--detach", wt, "HEAD"])
        wts.append(wt)
    import queue
    free = queue.Queue()
    for w in wts:
        free.put(w)

    def one(item):
        name, d, p = item
        wt = free.get()
        try:
            res = confirm(wt, d, p)
        except Exception as e:  # noqa: BLE001
            res = {"confirmed": False, "why": f"exception {e!r}"}
        finally:
            free.put(wt)
        mp = os.path.join(d, "meta.json")
        try:
            meta = json.load(open(mp))
        except Exception:  # noqa: BLE001
            meta = {}
        meta["lead_confirmed"] = res
        json.dump(meta, open(mp, "w"), indent=1)
        print(f"{name}: confirmed={res.get('confirmed')} suite={res.get('suite_with_change')} "
              f"demo_with={res.get('demo_with_change')} demo_clean={res.get('demo_clean')} {res.get('why', '')}", flush=True)

    with ThreadPoolExecutor(max_workers=len(wts) or 1) as ex:
        list(ex.map(one, work))
    for wt in wts:
        subprocess.run(["git", "-C", "/repo", "worktree", "remove", "--force", wt], stdout=subprocess.DEVNULL, stderr=subprocess.DEVNULL)
    subprocess.run(["git", "-C", "/repo", "worktree", "prune"])


if __name__ == "__main__":
    main()
