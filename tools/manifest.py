#!/usr/bin/env python3
"""Regenerates MANIFEST.json from claims.json (what is claimed, in the lead's words) and props.d/.
A property is claimed iff it has an entry in claims.json with "claimed": true and a props.d file."""
import json, os
V = os.path.dirname(os.path.dirname(os.path.abspath(__file__)))
claims = json.load(open(os.path.join(V, "claims.json")))
props = [json.loads(l) for l in open(os.path.join(V, "properties.jsonl"))]
hooks_commits = os.popen("git -C /repo log --format=%h --grep='^verif hooks'").read().split()
m = {
    "version": 1,
    "setup_cmd": "./check --setup",
    "hooks": {
        "guard": "cargo feature tera/verif_hooks",
        "enable": "the harness crate depends on tera with features=[\"verif_hooks\"] (path dependency on /repo/tera, rebuilt from the working tree by every check)",
        "baseline_off_cmd": "cd /repo && cargo test --workspace --no-fail-fast --offline",
        "source_commits": hooks_commits,
        "add_only": True,
    },
    "engines": [
        {"name": "lean-model", "path": "lean/", "serves_properties": [], "kind_free_text": "Lean 4 executable models + kernel-checked property theorems (lake project; model and driver files import-free, helper lemmas import single Mathlib modules)"},
        {"name": "harness", "path": "harness/", "serves_properties": [], "kind_free_text": "Rust correspondence harness: the real tera in-process (feature verif_hooks) vs the Lean model drivers over a line protocol, plus direct property oracles on the implementation and failing-input search"},
        {"name": "translator", "path": "translator/", "serves_properties": [], "kind_free_text": "extracts tables and constants from /repo's working tree into lean/TeraModel/Generated on every run, so table theorems are re-proved against the current source"},
    ],
    "checks": [],
    "notes": "See DESIGN.md (§10 for the state as built). Every check = translator + lake build of the property's theorem module(s) + #print axioms audit + harness build against /repo + correspondence/oracle run; ./check <id> quick|thorough [--replay <file>].",
    "not_applicable": [],
}
for p in props:
    pid = p["id"]
    c = claims.get(pid)
    if c and c.get("claimed") and os.path.exists(os.path.join(V, "props.d", pid + ".json")):
        m["checks"].append({
            "property_id": pid,
            "quick_cmd": f"./check {pid} quick",
            "thorough_cmd": f"./check {pid} thorough",
            "evidence_file": f"evidence/{pid}.json",
            "replay_cmd_template": f"./check {pid} --replay {{path}}",
            "engine": "lean-model+harness" + ("+translator" if c.get("translator") else ""),
            "level_claimed": {"category": c.get("category", "proof"), "text": c["text"], "design_ref": f"DESIGN.md §4 {pid}, §10"},
            "level_note": c["note"],
            "technique": c["technique"],
        })
        for e in m["engines"]:
            if e["name"] != "translator" or c.get("translator"):
                e["serves_properties"].append(pid)
    else:
        m["not_applicable"].append({"property_id": pid, "reason": (c or {}).get("reason", "check not built yet (work in progress; it will be claimed once its model, theorems and correspondence run exist)")})
json.dump(m, open(os.path.join(V, "MANIFEST.json"), "w"), indent=1)
print("claimed:", [c["property_id"] for c in m["checks"]])
