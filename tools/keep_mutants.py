#!/usr/bin/env python3
"""tools/keep_mutants.py <Cnn> <dir-with-numbered-subdirs> [checks=Cnn[,Cmm]]
For each confirmed seeded change: run the named checks against it (alt repo), and store
patch.diff, the demonstration and meta.json (+ what our checks reported) under seeded/<Cnn>-<n>/."""
import json, os, shutil, subprocess, sys
VERIF = os.path.dirname(os.path.dirname(os.path.abspath(__file__)))
prop, src = sys.argv[1], sys.argv[2]
checks = (sys.argv[3] if len(sys.argv) > 3 else prop)
for n in sorted(os.listdir(src)):
    d = os.path.join(src, n)
    if not os.path.exists(os.path.join(d, "patch.diff")):
        continue
    r = subprocess.run([sys.executable, os.path.join(VERIF, "tools/try_mutant.py"), checks, os.path.join(d, "patch.diff")],
                       text=True, stdout=subprocess.PIPE, stderr=subprocess.STDOUT)
    lines = [l for l in r.stdout.splitlines() if l.strip()]
    caught = any(l.startswith("VIOLATION") for l in lines)
    real_input = any(l.startswith("VIOLATION") and "no-failing-input-found" not in l for l in lines)
    dst = os.path.join(VERIF, "seeded", f"{prop}-{n}")
    os.makedirs(dst, exist_ok=True)
    for f in os.listdir(d):
        if f in ("patch.diff", "meta.json") or f.startswith("demo"):
            if not f.endswith(".log"):
                shutil.copy(os.path.join(d, f), os.path.join(dst, f))
    try:
        meta = json.load(open(os.path.join(dst, "meta.json")))
    except Exception:
        meta = {}
    meta["property"] = prop
    meta["our_checks"] = {"ran": f"tools/try_mutant.py {checks} patch.diff (scratch worktree of /repo HEAD + patch; same as git -C /repo apply, ./check, git checkout)",
                          "caught": caught, "with_failing_input": real_input,
                          "output": [l for l in lines if l.startswith(("VIOLATION", "---", "KNOWN"))][:12]}
    json.dump(meta, open(os.path.join(dst, "meta.json"), "w"), indent=1)
    print(f"{prop}-{n}: caught={caught} failing_input={real_input}")
