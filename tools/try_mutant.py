#!/usr/bin/env python3
"""Development aid: run a property check against a scratch copy of /repo with a patch applied.

    tools/try_mutant.py <Cnn>[,<Cmm>…] <patch.diff> [quick|thorough]

Creates /tmp/lead/mut-repo as a detached worktree of /repo's HEAD (hooks must be committed),
applies the patch, runs `VERIF_REPO=<worktree> ./check Cnn <tier>` for each property, prints the
outcome, and restores the worktree. The official route (apply to /repo itself, run, revert) gives
the same result; this one does not disturb /repo while other work is going on.
"""
import os
import subprocess
import sys

VERIF = os.path.dirname(os.path.dirname(os.path.abspath(__file__)))
WT = "/tmp/lead/mut-repo"


def sh(cmd, **kw):
    return subprocess.run(cmd, shell=True, text=True, stdout=subprocess.PIPE, stderr=subprocess.STDOUT, **kw)


def main():
    # a few runs side by side: each takes the first free SLOT (own scratch worktree, own copies of
    # the harness crate, the Lean project and the evidence directory under work/alt-*-<slot>)
    import fcntl, time
    os.makedirs("/tmp/lead", exist_ok=True)
    global WT
    slot = None
    while slot is None:
        for k in range(int(os.environ.get("MUTANT_SLOTS", "4"))):
            lock = open(f"/tmp/lead/mutant-{k}.lock", "w")
            try:
                fcntl.flock(lock, fcntl.LOCK_EX | fcntl.LOCK_NB)
                slot = k
                break
            except OSError:
                lock.close()
        if slot is None:
            time.sleep(5)
    WT = f"/tmp/lead/mut-repo-{slot}"
    os.environ["VERIF_ALT_TAG"] = str(slot)
    props = sys.argv[1].split(",")
    patch = os.path.abspath(sys.argv[2])
    tier = sys.argv[3] if len(sys.argv) > 3 else "quick"
    if not os.path.isdir(WT):
        os.makedirs(os.path.dirname(WT), exist_ok=True)
        r = sh(f"git -C /repo worktree add --detach {WT}")
        if r.returncode != 0:
            print(r.stdout)
            sys.exit(2)
    head = sh("git -C /repo rev-parse HEAD").stdout.strip()
    sh(f"git -C {WT} checkout -q --detach {head} && git -C {WT} checkout -- . && git -C {WT} clean -fdq -e target")
    r = sh(f"git -C {WT} apply {patch}")
    if r.returncode != 0:
        print("patch does not apply:", r.stdout)
        sys.exit(2)
    rc_all = 0
    for p in props:
        env = dict(os.environ, VERIF_REPO=WT)
        r = sh(f"./check {p} {tier}", cwd=VERIF, env=env)
        lines = [l for l in r.stdout.splitlines() if l.startswith(("VIOLATION", "KNOWN-FINDING", p))]
        print(f"--- {p}: exit {r.returncode}")
        print("\n".join(lines[-8:]))
        rc_all |= r.returncode
    sh(f"git -C {WT} checkout -- . && git -C {WT} clean -fdq -e target")
    sys.exit(rc_all)


if __name__ == "__main__":
    main()
