#!/usr/bin/env python3
"""Regenerates DESIGN.md §10.6 (which checks catch which seeded changes) from
seeded/*/meta.json["our_checks"] (written by tools/rerun_seeded.py / try_mutant.py).

    python3 tools/catch_table.py            # prints the section
    python3 tools/catch_table.py --write    # replaces the section in DESIGN.md (between the markers)
"""
import json
import os
import re
import sys

VERIF = os.path.dirname(os.path.dirname(os.path.abspath(__file__)))
BEGIN = "<!-- BEGIN seeded-table -->"
END = "<!-- END seeded-table -->"


def short(s, n=150):
    s = " ".join(str(s).split())
    return s if len(s) <= n else s[: n - 1] + "…"


def rows():
    out = []
    sd = os.path.join(VERIF, "seeded")
    def key(d):
        m = re.fullmatch(r"(C\d\d)-(\d+)", d)
        return (m.group(1), int(m.group(2))) if m else ("Z", 0)
    for d in sorted(os.listdir(sd), key=key):
        mp = os.path.join(sd, d, "meta.json")
        if not os.path.exists(mp):
            continue
        m = json.load(open(mp))
        oc = m.get("our_checks", {})
        where = m.get("file") or m.get("site") or m.get("where") or ""
        what = m.get("change") or m.get("breaks") or m.get("what") or ""
        if isinstance(where, list):
            where = ", ".join(where)
        checks = m.get("checks") or m.get("property") or d.split("-")[0]
        exits = {}
        cur = None
        for line in oc.get("output", []):
            k = re.match(r"--- (C\d\d): exit (\d+)", line)
            if k:
                cur = k.group(1)
                exits[cur] = {"exit": int(k.group(2)), "input": False, "nofail": False}
            elif cur and line.startswith("VIOLATION"):
                if line.rstrip().endswith("no-failing-input-found"):
                    exits[cur]["nofail"] = True
                else:
                    exits[cur]["input"] = True
        caught_by = []
        for c, e in exits.items():
            if e["exit"] != 0:
                caught_by.append(c + (" (failing input)" if e["input"] else " (tie broken, no failing input)"))
        out.append({
            "id": d, "where": short(re.sub(r"^tera/src/", "", str(where)), 70), "what": short(what, 170),
            "checks": checks, "caught": bool(oc.get("caught")), "with_input": bool(oc.get("with_failing_input")),
            "caught_by": ", ".join(caught_by) if caught_by else "—", "applies": oc.get("patch_applies_to_head", True),
        })
    return out


def section():
    rs = rows()
    total = len(rs)
    caught = sum(r["caught"] for r in rs)
    with_input = sum(r["caught"] and r["with_input"] for r in rs)
    lines = [BEGIN, "",
             f"{total} seeded changes kept; {caught} are caught by the checks registered for their property "
             f"(or the sibling checks named in `meta.json[\"checks\"]`), {with_input} of them with a concrete "
             "failing input as replay. Per property:", ""]
    props = sorted({r["id"].split("-")[0] for r in rs})
    lines.append("| property | changes | caught | with failing input | not caught |")
    lines.append("|---|---|---|---|---|")
    for p in props:
        pr = [r for r in rs if r["id"].startswith(p + "-")]
        miss = [r["id"] for r in pr if not r["caught"]]
        lines.append(f"| {p} | {len(pr)} | {sum(r['caught'] for r in pr)} | "
                     f"{sum(r['caught'] and r['with_input'] for r in pr)} | {', '.join(miss) if miss else '—'} |")
    lines += ["", "| change | where | what it does | run against | caught by |", "|---|---|---|---|---|"]
    for r in rs:
        esc = lambda s: s.replace("|", "\\|")
        lines.append(f"| {r['id']} | {esc(r['where'])} | {esc(r['what'])} | {r['checks']} | "
                     f"{r['caught_by']}{'' if r['applies'] else ' (patch no longer applies to HEAD)'} |")
    lines += ["", END]
    return "\n".join(lines)


def main():
    sec = section()
    if "--write" in sys.argv:
        p = os.path.join(VERIF, "DESIGN.md")
        s = open(p).read()
        if BEGIN in s and END in s:
            s = s[: s.index(BEGIN)] + sec + s[s.index(END) + len(END):]
        else:
            raise SystemExit("markers not found in DESIGN.md")
        open(p, "w").write(s)
    else:
        print(sec)


if __name__ == "__main__":
    main()
