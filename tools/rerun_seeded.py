#!/usr/bin/env python3
"""Re-run every seeded change against its property's check (scratch worktree of /repo HEAD + patch)
and refresh meta.json["our_checks"].  tools/rerun_seeded.py [Cnn …]   (default: all)"""
import json, os, subprocess, sys
V = os.path.dirname(os.path.dirname(os.path.abspath(__file__)))
only = set(sys.argv[1:])
for d in sorted(os.listdir(os.path.join(V, "seeded"))):
    prop = d.split("-")[0]
    if only and prop not in only:
        continue
    dd = os.path.join(V, "seeded", d)
    patch = os.path.join(dd, "patch.diff")
    if not os.path.exists(patch):
        continue
    meta = json.load(open(os.path.join(dd, "meta.json")))
    checks = meta.get("checks", prop)
    r = subprocess.run([sys.executable, os.path.join(V, "tools/try_mutant.py"), checks, patch],
                       text=True, stdout=subprocess.PIPE, stderr=subprocess.STDOUT)
    lines = [l for l in r.stdout.splitlines() if l.strip()]
    caught = any(l.startswith("VIOLATION") for l in lines)
    real = any(l.startswith("VIOLATION") and "no-failing-input-found" not in l for l in lines)
    applies = not any("patch does not apply" in l for l in lines)
    meta["our_checks"] = {"ran": f"tools/try_mutant.py {checks} patch.diff (scratch worktree of /repo HEAD + patch; same as git -C /repo apply, ./check, git checkout)",
                          "caught": caught, "with_failing_input": real, "patch_applies_to_head": applies,
                          "output": [l for l in lines if l.startswith(("VIOLATION", "---", "KNOWN"))][:12]}
    json.dump(meta, open(os.path.join(dd, "meta.json"), "w"), indent=1)
    print(f"{d}: caught={caught} failing_input={real} applies={applies}", flush=True)
