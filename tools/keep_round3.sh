#!/bin/sh
# tools/keep_round3.sh Cnn : store round-3 mutants from /tmp/mut3_cnn/out, numbered after the ones already kept
p=$1; low=$(echo $p | tr 'A-Z' 'a-z'); src=/tmp/mut3_$low/out; tmp=/tmp/lead/r3_$low; rm -rf $tmp; mkdir -p $tmp
last=$(ls -d /verif/seeded/$p-* | sed "s/.*$p-//" | sort -n | tail -1)
for n in $(ls $src | grep -E '^[0-9]+$'); do m=$((n+last)); cp -r $src/$n $tmp/$m; done
python3 /verif/tools/keep_mutants.py $p $tmp | grep -E "^$p-"
