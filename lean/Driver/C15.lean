/-
Line-protocol driver for the C15 model (equality, ordering, keys, map lookup).  Requests:

  cmp <a> <b>              → "<cmp> <partial_cmp> <eq>"      cmp ∈ lt eq gt; partial ∈ lt eq gt none; eq ∈ 0 1
  key <ka> <kb>            → "<eq> <cmp> <hash bytes of ka, hex> <hash bytes of kb, hex>"
                             key tokens: kb:0 kb:1 ku64:<n> ki64:<n> ku128:<n> ki128:<n>
                             kS:<hex> (owned String) ks:<hex> (borrowed Str)
  item <map> <v>           → "ok <value>" | "err badkey" | "notmap"       (`m[v]`)
  attr <map> s:<hex>       → "some <value>" | "none"                      (`get_attr`)
  in <container> <needle>  → "ok 0" | "ok 1" | "err container"            (`needle in container`)
  containing <val> <pat>   → "ok 0" | "ok 1" | "err pat" | "err container"
  getf <map> s:<hex>       → "some <value>" | "none"                      (`get` filter without default)

Values use the shared wire encoding (Model/Wire.lean).
-/
import TeraModel.Model.Lookup
import TeraModel.Model.Wire
open Tera

def showOrd : Ordering → String
  | .lt => "lt" | .eq => "eq" | .gt => "gt"

def showOrdOpt : Option Ordering → String
  | some o => showOrd o | none => "none"

def le16 (n : Nat) : List Nat := (List.range 16).map fun i => (n / 256^i) % 256

/-- The byte stream a `Hasher` receives. -/
def hashBytes : List HashTok → List Nat
  | [] => []
  | .u8 n :: r => n :: hashBytes r
  | .w128 n :: r => le16 n ++ hashBytes r
  | .str s :: r => Wire.utf8Encode s ++ [255] ++ hashBytes r

/-- The driver's hasher (FNV-1a over the byte stream); any function would do. -/
def H (t : List HashTok) : Nat :=
  (hashBytes t).foldl (fun h b => ((h ^^^ b) * 1099511628211) % 18446744073709551616) 14695981039346656037

def parseKey (t : String) : Option KeyRepr :=
  if t == "kb:0" then some (.bool false)
  else if t == "kb:1" then some (.bool true)
  else if let some d := Wire.afterPrefix "ku64:" t then d.toNat?.map .u64
  else if let some d := Wire.afterPrefix "ki64:" t then d.toInt?.map .i64
  else if let some d := Wire.afterPrefix "ku128:" t then d.toNat?.map .u128
  else if let some d := Wire.afterPrefix "ki128:" t then d.toInt?.map .i128
  else if let some d := Wire.afterPrefix "kS:" t then (Wire.strOfHex d).map .string
  else if let some d := Wire.afterPrefix "ks:" t then (Wire.strOfHex d).map .str
  else none

def two (rest : List String) : Option (Value × Value) :=
  match Wire.parseValue rest with
  | some (a, rest') =>
    match Wire.parseValue rest' with
    | some (b, []) => some (a, b)
    | _ => none
  | none => none

def b01 (b : Bool) : String := if b then "1" else "0"

def handle (line : String) : String :=
  match Wire.tokens line with
  | "cmp" :: rest =>
    match two rest with
    | some (a, b) =>
      showOrd (Value.cmp a b) ++ " " ++ showOrdOpt (Value.partialCmp a b) ++ " " ++ b01 (Value.eqV a b)
    | none => "bad-args"
  | ["key", ta, tb] =>
    match parseKey ta, parseKey tb with
    | some a, some b =>
      b01 (KeyRepr.eq a b) ++ " " ++ showOrd (KeyRepr.cmp a b) ++ " "
        ++ Wire.bytesHex (hashBytes a.hashInput) ++ " " ++ Wire.bytesHex (hashBytes b.hashInput)
    | _, _ => "bad-args"
  | "item" :: rest =>
    match two rest with
    | some (.map m, v) =>
      match Value.getItemMap H m v with
      | .ok r => "ok " ++ Wire.showValue r
      | .badKey => "err badkey"
    | some _ => "notmap"
    | none => "bad-args"
  | "attr" :: rest =>
    match two rest with
    | some (m, .str _ s) =>
      match Value.getAttrH H m s with
      | some r => "some " ++ Wire.showValue r
      | none => "none"
    | _ => "bad-args"
  | "in" :: rest =>
    match two rest with
    | some (c, n) =>
      match Value.containsH H c n with
      | some b => "ok " ++ b01 b
      | none => "err container"
    | none => "bad-args"
  | "containing" :: rest =>
    match two rest with
    | some (c, n) =>
      match Value.isContaining H c n with
      | .ok b => "ok " ++ b01 b
      | .badPat => "err pat"
      | .notContainer => "err container"
    | none => "bad-args"
  | "getf" :: rest =>
    match two rest with
    | some (.map m, .str _ s) =>
      match Value.getFilter H m s none with
      | some r => "some " ++ Wire.showValue r
      | none => "none"
    | _ => "bad-args"
  | _ => "bad-request"

partial def loop (h : IO.FS.Stream) (out : IO.FS.Stream) : IO Unit := do
  let line ← h.getLine
  if line.isEmpty then return ()
  out.putStrLn (handle line)
  loop h out

def main : IO Unit := do
  let stdin ← IO.getStdin
  let stdout ← IO.getStdout
  loop stdin stdout
