/-
Line-protocol driver for the C07 model (bytecode checker).  Requests:
  wf <tok> <tok> …    the wire listing of one chunk (as stored, i.e. after the optimisation pass)
     → "ok"                       `wellFormed` accepts it
     | "reject infer"             the forward pass already fails (stack underflow, unknown instruction …)
     | "reject verify <pc>"       the inferred table does not pass `verifyAt` at <pc>
     | "reject entry"             the entry state / an empty chunk is not covered
     | "bad-request"
-/
import TeraModel.Model.WellFormed
import TeraModel.Model.InstrWire
open Tera Tera.WellFormed Tera.InstrWire

def diagnose (c : List Entry) : String :=
  match infer c with
  | none => "reject infer"
  | some table =>
    if verify c table then "ok"
    else if !(covered table c.length (0, St.empty)) then "reject entry"
    else
      match (List.range c.length).find? (fun pc => !(verifyAt c table pc)) with
      | some pc => s!"reject verify {pc}"
      | none => "reject entry"

/-- diagnosis only: where does the forward pass stop, and in which abstract state -/
def traceGo (c : List Entry) : Nat → Nat → List (Option St) → String
  | 0, _, _ => "fuel"
  | fuel + 1, pc, table =>
    match c[pc]? with
    | none => "end"
    | some e =>
      match table[pc]? with
      | some (some a) =>
        match opOf e.1 with
        | none => s!"unknown instruction at {pc}"
        | some op =>
          match step op pc a with
          | none => s!"step fails at {pc}: stack {a.stack.length} loops {repr a.loops} caps {a.caps}"
          | some succs =>
            match succs.foldlM merge table with
            | none => s!"merge fails from {pc} into {succs.map (·.1)}: stack {a.stack.length} loops {repr a.loops} caps {a.caps}"
            | some table' => traceGo c fuel (pc + 1) table'
      | _ => traceGo c fuel (pc + 1) table

def handle (line : String) : String :=
  match Wire.tokens line with
  | "wf" :: toks =>
    match parseChunk toks with
    | none => "bad-request"
    | some c => if wellFormed c then "ok" else diagnose c
  | "trace" :: toks =>
    match parseChunk toks with
    | none => "bad-request"
    | some c => traceGo c c.length 0 ((List.replicate c.length none).set 0 (some St.empty))
  | _ => "bad-request"

partial def loop (h : IO.FS.Stream) (out : IO.FS.Stream) : IO Unit := do
  let line ← h.getLine
  if line.isEmpty then return ()
  out.putStrLn (handle line)
  loop h out

def main : IO Unit := do
  let stdin ← IO.getStdin
  let stdout ← IO.getStdout
  loop stdin stdout
