/-
Line-protocol driver for the C16 model (collection filters).  Requests (values in the shared wire
encoding, Model/Wire.lean):

  sort <arr>                 → "ok <arr>" | "err comparable" | "err arg"
  sortattr <arr> s:<path>    → "ok <arr>" | "err attr" | "err comparable" | "err arg"
  unique <arr>               → "ok <arr>" | "err arg"
  groupby <arr> s:<path>     → "ok <map>" (entries by key) | "err attr" | "err key" | "err arg"
  first <arr> | last <arr>   → "ok <v>" | "err arg"
  nth <arr> <n>              → "ok <v>" | "err arg"         (n a decimal natural number)
  length <v>                 → "ok <n>" | "err kind"
  reverse <v>                → "ok <v>" | "err kind"
  keys|values|pairs <map>    → "ok <arr>" | "err arg"
  join <arr> s:<sep>         → "ok s:<hex>" | "skip" (an element whose Display is not modelled) | "err arg"
  split s:<s> s:<pat>        → "ok <arr>" | "err arg"
-/
import TeraModel.Model.CollFilters
import TeraModel.Model.Wire
open Tera Tera.Coll

def le16 (n : Nat) : List Nat := (List.range 16).map fun i => (n / 256^i) % 256

def hashBytes : List HashTok → List Nat
  | [] => []
  | .u8 n :: r => n :: hashBytes r
  | .w128 n :: r => le16 n ++ hashBytes r
  | .str s :: r => Wire.utf8Encode s ++ [255] ++ hashBytes r

def H (t : List HashTok) : Nat :=
  (hashBytes t).foldl (fun h b => ((h ^^^ b) * 1099511628211) % 18446744073709551616) 14695981039346656037

def okArr (xs : List Value) : String := "ok " ++ Wire.showValue (.arr xs)

def showSort : SortRes → String
  | .ok out => okArr out
  | .missingAttr => "err attr"
  | .notComparable => "err comparable"

def optAll {α β : Type} (f : α → Option β) : List α → Option (List β)
  | [] => some []
  | x :: xs => match f x, optAll f xs with
    | some y, some ys => some (y :: ys)
    | _, _ => none

def handle (line : String) : String :=
  match Wire.tokens line with
  | op :: rest =>
    match Wire.parseValue rest with
    | none => "bad-args"
    | some (v, rest') =>
      match op, v, rest' with
      | "sort", .arr xs, [] => showSort (sort H xs none)
      | "sort", _, [] => "err arg"
      | "sortattr", .arr xs, r =>
        match Wire.parseValue r with
        | some (.str _ p, []) => showSort (sort H xs (some p))
        | _ => "bad-args"
      | "sortattr", _, _ => "err arg"
      | "unique", .arr xs, [] => okArr (unique xs)
      | "unique", _, [] => "err arg"
      | "groupby", .arr xs, r =>
        match Wire.parseValue r with
        | some (.str _ p, []) =>
          match groupBy H xs p with
          | .ok g => "ok " ++ Wire.showValue (.map (sortEntriesK (g.map fun e => (e.1, Value.arr e.2))))
          | .missingAttr => "err attr"
          | .badKey => "err key"
        | _ => "bad-args"
      | "groupby", _, _ => "err arg"
      | "first", .arr xs, [] => "ok " ++ Wire.showValue (first xs)
      | "first", _, [] => "err arg"
      | "last", .arr xs, [] => "ok " ++ Wire.showValue (last xs)
      | "last", _, [] => "err arg"
      | "nth", .arr xs, [n] =>
        match n.toNat? with
        | some n => "ok " ++ Wire.showValue (nth xs n)
        | none => "bad-args"
      | "nth", _, [_] => "err arg"
      | "length", v, [] =>
        match len v with
        | some n => s!"ok {n}"
        | none => "err kind"
      | "reverse", v, [] =>
        match reverse v with
        | some r => "ok " ++ Wire.showValue r
        | none => "err kind"
      | "keys", .map m, [] => okArr (keys m)
      | "keys", _, [] => "err arg"
      | "values", .map m, [] => okArr (values m)
      | "values", _, [] => "err arg"
      | "pairs", .map m, [] => okArr (pairs m)
      | "pairs", _, [] => "err arg"
      | "join", .arr xs, r =>
        match Wire.parseValue r with
        | some (.str _ sep, []) =>
          match optAll fmtSimple xs with
          | some strs => "ok s:" ++ Wire.hexOfStr (joinStrs sep strs)
          | none => "skip"
        | _ => "bad-args"
      | "join", _, _ => "err arg"
      | "split", .str _ s, r =>
        match Wire.parseValue r with
        | some (.str _ pat, []) => okArr (split s pat)
        | _ => "bad-args"
      | "split", _, _ => "err arg"
      | _, _, _ => "bad-request"
  | [] => "bad-request"

partial def loop (h : IO.FS.Stream) (out : IO.FS.Stream) : IO Unit := do
  let line ← h.getLine
  if line.isEmpty then return ()
  out.putStrLn (handle line)
  loop h out

def main : IO Unit := do
  let stdin ← IO.getStdin
  let stdout ← IO.getStdout
  loop stdin stdout
