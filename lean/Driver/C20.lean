/-
Line-protocol driver for the C20 models (tera-contrib codecs).  Requests (hex = bytes in hex,
`-` stands for the empty byte string):
  b64e <url 0|1> <padded 0|1> <hex utf8 of the string>   → "ok <hex of the output>"
  b64d <url 0|1> <hex of the input>                       → "ok <hex utf8>" | "err <class>"
  url <strict 0|1> <hex utf8>                             → "ok <hex>"
  pctd <hex>                                              → "ok <hex>"   (percent-decode)
  slug <hex utf8> <n> <cp>=<hex|!> …                      → "ok <hex>"   transliterations per char
  json <n> <bits16>=<hex text> … <value>                  → "ok <hex utf8 of the JSON text>"
  jread <n> <hex token>=<bits16> … <hex utf8 of a text>   → "ok <tree>" | "none"   (model reader)
-/
import TeraModel.Model.Contrib
import TeraModel.Model.ContribJsonRead
import TeraModel.Generated.ContribSets
open Tera Tera.Contrib

def unhex (t : String) : Option (List Nat) :=
  if t == "-" then some [] else Wire.hexBytes t.toList

def showHex (bs : List Nat) : String := if bs.isEmpty then "-" else Wire.bytesHex bs

def flag (t : String) : Option Bool :=
  if t == "0" then some false else if t == "1" then some true else none

def showB64Err : B64Err → String
  | .invalidByte => "invalidbyte" | .invalidLength => "invalidlength"
  | .invalidLastSymbol => "invalidlastsymbol" | .invalidUtf8 => "utf8"

/-- `cp=hex` pairs -/
def parsePairs (n : Nat) (ts : List String) : Option (List (Nat × Option (List Nat)) × List String) :=
  match n, ts with
  | 0, ts => some ([], ts)
  | n+1, t :: rest =>
    match t.splitOn "=" with
    | [k, v] =>
      match Wire.hexNat k.toList, (if v == "!" then some none else (unhex v).map some) with
      | some kn, some vv =>
        match parsePairs n rest with
        | some (ps, r) => some ((kn, vv) :: ps, r)
        | none => none
      | _, _ => none
    | _ => none
  | _, [] => none

def lookup (ps : List (Nat × Option (List Nat))) (k : Nat) : Option (Option (List Nat)) :=
  (ps.find? (·.1 == k)).map (·.2)


partial def showJson : Json → String
  | .null => "null"
  | .bool b => if b then "true" else "false"
  | .int n => s!"i:{n}"
  | .float x => "f:" ++ Wire.natHex16 x.toBits
  | .str s => "s:" ++ showHex (utf8Encode s)
  | .arr xs => s!"[ {xs.length}" ++ String.join (xs.map fun x => " " ++ showJson x)
  | .obj es => "{ " ++ s!"{es.length}" ++ String.join (es.map fun (k, x) => " " ++ showHex (utf8Encode k) ++ " " ++ showJson x)

/-- `token=bits` pairs -/
def parseTokPairs (n : Nat) (ts : List String) : Option (List (List Char × Nat) × List String) :=
  match n, ts with
  | 0, ts => some ([], ts)
  | n+1, t :: rest =>
    match t.splitOn "=" with
    | [k, v] =>
      match (unhex k).bind utf8Decode, Wire.hexNat v.toList, parseTokPairs n rest with
      | some kk, some b, some (ps, r) => some ((kk, b) :: ps, r)
      | _, _, _ => none
    | _ => none
  | _, [] => none

def handle (line : String) : String :=
  match Wire.tokens line with
  | ["b64e", u, p, h] =>
    match flag u, flag p, unhex h with
    | some u, some p, some bs =>
      match utf8Decode bs with
      | some cs => "ok " ++ showHex (b64EncodeFilter u p cs)
      | none => "bad-utf8"
    | _, _, _ => "bad-args"
  | ["b64d", u, h] =>
    match flag u, unhex h with
    | some u, some bs =>
      match b64DecodeFilter u bs with
      | .ok cs => "ok " ++ showHex (utf8Encode cs)
      | .error e => "err " ++ showB64Err e
    | _, _ => "bad-args"
  | ["url", s, h] =>
    match flag s, unhex h with
    | some s, some bs =>
      "ok " ++ showHex (percentEncode (if s then Generated.urlencodeStrictSet else Generated.urlencodeSet) bs)
    | _, _ => "bad-args"
  | ["pctd", h] =>
    match unhex h with
    | some bs => "ok " ++ showHex (percentDecode bs)
    | none => "bad-args"
  | "slug" :: h :: n :: rest =>
    match unhex h, n.toNat? with
    | some bs, some n =>
      match utf8Decode bs, parsePairs n rest with
      | some cs, some (ps, []) =>
        -- every non-ASCII char of the input must have been given a transliteration
        if cs.all (fun c => c.toNat < 128 || (lookup ps c.toNat).isSome) then
          "ok " ++ showHex (slugify (fun c => (lookup ps c.toNat).getD none) cs)
        else "bad-translit"
      | _, _ => "bad-args"
    | _, _ => "bad-args"
  | "json" :: n :: rest =>
    match n.toNat? with
    | some n =>
      match parsePairs n rest with
      | some (ps, rest') =>
        match Wire.parseValue rest' with
        | some (v, []) =>
          let fmt : F64 → List Char := fun x =>
            match lookup ps x.toBits with
            | some (some bs) => (utf8Decode bs).getD "?".toList
            | _ => "?".toList
          "ok " ++ showHex (utf8Encode (jsonWrite fmt v))
        | _ => "bad-value"
      | none => "bad-args"
    | none => "bad-args"
  | "jread" :: n :: rest =>
    match n.toNat? with
    | some n =>
      match parseTokPairs n rest with
      | some (ps, [h]) =>
        match (unhex h).bind utf8Decode with
        | some text =>
          let parseF : List Char → Option F64 := fun tok => (ps.find? (·.1 == tok)).map fun p => F64.ofBits p.2
          match jsonRead parseF text with
          | some j => "ok " ++ showJson j
          | none => "none"
        | none => "bad-utf8"
      | _ => "bad-args"
    | none => "bad-args"
  | _ => "bad-request"

partial def loop (h : IO.FS.Stream) (out : IO.FS.Stream) : IO Unit := do
  let line ← h.getLine
  if line.isEmpty then return ()
  out.putStrLn (handle line)
  loop h out

def main : IO Unit := do
  let stdin ← IO.getStdin
  let stdout ← IO.getStdout
  loop stdin stdout
