/-
Line-protocol driver for the C13 model (numbers).  Requests:
  arith <op> <a> <b>     op ∈ add sub mul div floordiv mod pow   → "ok <value>" | "err <class>"
  neg <a>                                                         → same
  cmp <a> <b>            → "<partial_cmp> <eq>"  partial_cmp ∈ lt eq gt none ; eq ∈ 0 1
Float arithmetic is executed with the hardware (`Float`), everything else by the model.
-/
import TeraModel.Model.Number
import TeraModel.Model.Wire
open Tera

def toNative (x : F64) : Float := Float.ofBits (UInt64.ofNat x.toBits)
def ofNative (f : Float) : F64 := if f.isNaN then .nan else F64.ofBits f.toBits.toNat

/-- C `fmod` computed exactly on dyadics (Lean's `Float` has no fmod). -/
def fmodExact (a b : F64) : F64 :=
  match a, b with
  | .fin an _ ae, .fin _ bm be =>
    if bm == 0 then .nan
    else
      -- common exponent
      let e := min ae be
      -- uniform scale: a = X * 2^e, b = ±Y * 2^e
      let X : Int := (if an then -1 else 1) * ((match a with | .fin _ m _ => m | _ => 0 : Nat) : Int) * (2:Int)^((ae - e).toNat)
      let Y : Int := (bm : Int) * (2:Int)^((be - e).toNat)
      let r := Int.tmod X Y
      .fin an r.natAbs e
  | .fin .., .inf _ => a
  | _, _ => .nan

def nativeOps : FloatOps where
  add a b := ofNative (toNative a + toNative b)
  sub a b := ofNative (toNative a - toNative b)
  mul a b := ofNative (toNative a * toNative b)
  div a b := ofNative (toNative a / toNative b)
  neg a := ofNative (-(toNative a))
  powf a b := ofNative (Float.pow (toNative a) (toNative b))
  remEuclid a b :=
    -- std: let r = self % rhs; if r < 0.0 { r + rhs.abs() } else { r }
    let r := fmodExact a b
    if F64.lt r ZERO_F then ofNative (toNative r + (toNative b).abs) else r
  divEuclid a b :=
    -- std: let q = (self / rhs).trunc(); if self % rhs < 0.0 { if rhs > 0.0 {q - 1.0} else {q + 1.0} } else q
    let qf := toNative a / toNative b
    let q := if qf.isNaN || qf.isInf then qf else (if qf < 0 then qf.ceil else qf.floor)
    let r := fmodExact a b
    if F64.lt r ZERO_F then
      (if F64.gt b ZERO_F then ofNative (q - 1.0) else ofNative (q + 1.0))
    else ofNative q

def showErr : NumErr → String
  | .notNumber => "notnumber" | .operandRange => "operandrange" | .overflow => "overflow"
  | .divZero => "divzero" | .expRange => "exprange"

def showRes : Except NumErr Value → String
  | .ok v => "ok " ++ Wire.showValue v
  | .error e => "err " ++ showErr e

def showOrd : Option Ordering → String
  | some .lt => "lt" | some .eq => "eq" | some .gt => "gt" | none => "none"

def handle (line : String) : String :=
  match Wire.tokens line with
  | "arith" :: op :: rest =>
    match Wire.parseValue rest with
    | some (a, rest') =>
      match Wire.parseValue rest' with
      | some (b, []) =>
        match op with
        | "add" => showRes (add nativeOps a b)
        | "sub" => showRes (sub nativeOps a b)
        | "mul" => showRes (mul nativeOps a b)
        | "div" => showRes (div nativeOps a b)
        | "floordiv" => showRes (floorDiv nativeOps a b)
        | "mod" => showRes (rem nativeOps a b)
        | "pow" => showRes (pow nativeOps a b)
        | _ => "bad-op"
      | _ => "bad-args"
    | none => "bad-args"
  | "neg" :: rest =>
    match Wire.parseValue rest with
    | some (a, []) => showRes (negate nativeOps a)
    | _ => "bad-args"
  | "cmp" :: rest =>
    match Wire.parseValue rest with
    | some (a, rest') =>
      match Wire.parseValue rest' with
      | some (b, []) => showOrd (numPartialCmp a b) ++ " " ++ (if numEq a b then "1" else "0")
      | _ => "bad-args"
    | none => "bad-args"
  | _ => "bad-request"

partial def loop (h : IO.FS.Stream) (out : IO.FS.Stream) : IO Unit := do
  let line ← h.getLine
  if line.isEmpty then return ()
  out.putStrLn (handle line)
  loop h out

def main : IO Unit := do
  let stdin ← IO.getStdin
  let stdout ← IO.getStdout
  loop stdin stdout
