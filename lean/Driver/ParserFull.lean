/-
Line-protocol driver for the whole-template parser model (Model/TemplateParser.lean).  Requests:
  parse <tok>…     the token stream of a template after the whitespace filter (wire form of
                   Model/Tok.lean, from `tera::verif_hooks::tokens_wire`)
                   → "ok <template wire>" (AstWire `T ostr(parent) nodes components`) | "err" |
                     "panic <site>" | "fuel" | "bad-args"
  shape <tok>…     → "1" when the stream has the shape the totality theorem assumes of lexer output
                     (`TParser.shaped .tpl`), else "0"
-/
import TeraModel.Model.AstWire
import TeraModel.Model.Tok
import TeraModel.Model.TemplateParser
open Tera

def handle (line : String) : String :=
  match Wire.tokens line with
  | "parse" :: rest =>
    match Tok.ofWireList rest with
    | some toks =>
      match TParser.parse Gen.MAX_RECURSION_DEPTH toks with
      | .ok t _ => "ok " ++ AstWire.showTemplate t
      | .err => "err"
      | .panic m => "panic " ++ m
      | .fuel => "fuel"
    | none => "bad-args"
  | "shape" :: rest =>
    match Tok.ofWireList rest with
    | some toks => if TParser.shaped .tpl toks then "1" else "0"
    | none => "bad-args"
  | _ => "bad-request"

partial def loop (h : IO.FS.Stream) (out : IO.FS.Stream) : IO Unit := do
  let line ← h.getLine
  if line.isEmpty then return ()
  out.putStrLn (handle line)
  loop h out

def main : IO Unit := do
  let stdin ← IO.getStdin
  let stdout ← IO.getStdout
  loop stdin stdout
