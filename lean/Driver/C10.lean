/-
Line-protocol driver for the C10 model (registration histories).  One request = one history:

  hist <perm2> <perm3> P <n> <prefix>*n S <k> <step>*k
  <step> ::= A <m> <item>*m          add_raw_templates with a batch of m items
           | E <m> <suffix>*m        autoescape_on
  <item> ::= bad <name>              a source Template::new rejects (syntax error)
           | good <tpl>              (see Driver/RegWire.lean for <tpl>)

Answer: for every step `R <ok | err …> S <state dump>`, joined by " | ", where the state dump is
  T <name> <autoescape 0|1> <size> <parents csv|-> <nl> (<block> <owners csv>)*nl …  C <comp> <tpl> …
(sorted by name).
-/
import Driver.RegWire
open RegWire Tera.Reg

inductive Step where
  | add (items : List Item)
  | esc (suffixes : List String)

def pItem : OptionT P Item := do
  let k ← pTok
  if k == "bad" then
    let n ← pTok
    pure (.bad n)
  else if k == "good" then
    let t ← pTpl
    pure (.good t)
  else failure

def pStep : OptionT P Step := do
  let k ← pTok
  if k == "A" then
    let items ← pList pItem
    pure (.add items)
  else if k == "E" then
    let s ← pList pTok
    pure (.esc s)
  else failure

def showState (st : State) : String :=
  let es := sortBy (fun e => e.tpl.name) st.templates
  let tpls := es.map fun e =>
    s!"T {e.tpl.name} {if e.autoescape then 1 else 0} {e.size} {csv e.parents} {showBlockMap e.lineage}"
  let comps := (sortBy (·.1) st.comps).map fun (c, t) => s!"C {c} {t}"
  String.intercalate " " (tpls ++ comps)

def runSteps (p2 p3 : Nat) : State → List Step → List String
  | _, [] => []
  | st, .add items :: rest =>
    let (st', err) := addBatch st items (order p2) (order p3)
    let r := match err with
      | none => "ok"
      | some e => showErr e
    s!"R {r} S {showState st'}" :: runSteps p2 p3 st' rest
  | st, .esc s :: rest =>
    let st' := autoescapeOn st s
    s!"R ok S {showState st'}" :: runSteps p2 p3 st' rest

/-- `histr <perm2> <perm3> <reg> P … S <k> <stepr>*k` with `good <tplr>` items: histories over
summaries with call tables (Model/FinalizeRefs.lean); same answer format as `hist` -/
def pItemR : OptionT P ItemR := do
  let k ← pTok
  if k == "bad" then
    let n ← pTok
    pure (.bad n)
  else if k == "good" then
    let t ← pTplR
    pure (.good t)
  else failure

def pStepR (reg : Registered) : OptionT P Step := do
  let k ← pTok
  if k == "A" then
    let items ← pList pItemR
    pure (.add (items.map (ItemR.toItem reg)))
  else if k == "E" then
    let s ← pList pTok
    pure (.esc s)
  else failure

def handleHistR (rest : List String) : String :=
  match (do
      let a ← pNat
      let b ← pNat
      let reg ← pReg
      pExpect "P"
      let ps ← pList pTok
      pExpect "S"
      let steps ← pList (pStepR reg)
      pure (a, b, ps, steps) : OptionT P _).run rest with
  | (some (p2, p3, ps, steps), []) =>
    String.intercalate " | " (runSteps p2 p3 (State.init ps) steps)
  | _ => "bad-request"

def handle (line : String) : String :=
  match tokens line with
  | "finr" :: rest => handleFinR rest
  | "histr" :: rest => handleHistR rest
  | "hist" :: rest =>
    match (do
        let a ← pNat
        let b ← pNat
        pExpect "P"
        let ps ← pList pTok
        pExpect "S"
        let steps ← pList pStep
        pure (a, b, ps, steps) : OptionT P _).run rest with
    | (some (p2, p3, ps, steps), []) =>
      String.intercalate " | " (runSteps p2 p3 (State.init ps) steps)
    | _ => "bad-request"
  | _ => "bad-request"

partial def loop (h : IO.FS.Stream) (out : IO.FS.Stream) : IO Unit := do
  let line ← h.getLine
  if line.isEmpty then return ()
  out.putStrLn (handle line)
  loop h out

def main : IO Unit := do
  let stdin ← IO.getStdin
  let stdout ← IO.getStdout
  loop stdin stdout
