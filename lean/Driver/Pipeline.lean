/-
Line-protocol driver for the whole-engine model (Model/Pipeline.lean): source texts in, rendered
text or error class out.

Requests (one per line, whitespace separated words; names are `n:<hex of UTF-8>`):

  pipe <cfg> S<k> (n:<name> h:<hex source>)*k E<k> (n:<template> B0 | n:<template> B1 n:<block>)*k
       R<r> (X<k> (n:<name> <value>)*k G<k> (n:<name> <value>)*k)*r
    cfg := D h:<block_start> h:<block_end> h:<variable_start> h:<variable_end> h:<comment_start>
             h:<comment_end>  AE<k> n:<suffix>*  PF<k> n:<prefix>*  F<k> n:<filter>*  TS<k> n:<test>*
             FN<k> n:<function>*
    → "A <add outcome> | ENV <env wire or -> | O <outcome>;<outcome>;…"   (entries × runs, entry-major)
      add outcome: ok | syntax <n:template> | registry <class> | panic <site> | fuel | internal <what>
                   | unchecked <chunk>
      env wire: the token stream of `tera::verif_hooks::vm_env_wire` for the model's environment
                (every span printed as `s`)
      outcome: "ok <hex of the UTF-8 text>" | "err <class>" | "panic <site>" | "unmodelled <what>" | "fuel"

  stages <cfg-delims: D h:… ×6> h:<hex source>
    → "TOK <tok>* | AST ok <template wire> / err / panic <site> / fuel | SCOPED <0|1|-> |
       RAW <listing as drv_c07c: main … | block:… | component:… | filter … > | SHAPED <0|1>"
      (what each stage of the model makes of ONE source: for localising a disagreement)

Anything malformed: "bad-request <where>".
-/
import Driver.PipeBuiltins
import TeraModel.Model.Pipeline
import TeraModel.Model.PipelineWire
import TeraModel.Model.InstrWire
open Tera Tera.Pipeline PipeDrv

abbrev P (α : Type) := List String → Option (α × List String)

def pCount (tag : String) : P Nat
  | t :: r => (AstWire.counted tag t).map (·, r)
  | [] => none

def pMany {α : Type} (p : P α) : Nat → P (List α)
  | 0, ts => some ([], ts)
  | n + 1, ts => do
    let (a, r) ← p ts
    let (as, r) ← pMany p n r
    pure (a :: as, r)

def pCounted {α : Type} (tag : String) (p : P α) : P (List α) := fun ts => do
  let (n, r) ← pCount tag ts
  pMany p n r

def pHexBytes : P Bytes
  | t :: r => do
    let h ← Wire.afterPrefix "h:" t
    let b ← Wire.hexBytes h.toList
    pure (b, r)
  | [] => none

def pDelims : P Delims
  | "D" :: r => do
    let (bs, r) ← pHexBytes r
    let (be, r) ← pHexBytes r
    let (vs, r) ← pHexBytes r
    let (ve, r) ← pHexBytes r
    let (cs, r) ← pHexBytes r
    let (ce, r) ← pHexBytes r
    pure ({ blockStart := bs, blockEnd := be, variableStart := vs, variableEnd := ve,
            commentStart := cs, commentEnd := ce }, r)
  | _ => none

/-- the built-in instance `engine_never_panics_concrete` (Props/Pipeline.lean) is about, with the
driver's float printer and the hardware float arithmetic -/
def builtins : Builtins := Tera.Pipeline.BuiltinsM.model fmtF64 nativeOps

def pConfig : P Config := fun ts => do
  let (d, r) ← pDelims ts
  let (sfx, r) ← pCounted "AE" AstWire.parseName r
  let (pfx, r) ← pCounted "PF" AstWire.parseName r
  let (fs, r) ← pCounted "F" AstWire.parseName r
  let (tsn, r) ← pCounted "TS" AstWire.parseName r
  let (fns, r) ← pCounted "FN" AstWire.parseName r
  pure ({ delims := d, prefixes := pfx, suffixes := sfx,
          reg := { filters := fs, tests := tsn, functions := fns }, builtins := builtins }, r)

def pSource : P (String × Bytes) := fun ts => do
  let (n, r) ← AstWire.parseName ts
  let (b, r) ← pHexBytes r
  pure ((n, b), r)

def pEntry : P (String × Option String) := fun ts => do
  let (n, r) ← AstWire.parseName ts
  match r with
  | "B0" :: r => pure ((n, none), r)
  | "B1" :: r => do
    let (b, r) ← AstWire.parseName r
    pure ((n, some b), r)
  | _ => none

def pBinding : P (String × Value) := fun ts => do
  let (name, r) ← AstWire.parseName ts
  let (v, r) ← Wire.parseValue r
  pure ((name, v), r)

/-- `Context::insert` in list order (a later insert of a name replaces) -/
def ctxOf (l : List (String × Value)) : Ctx := l.foldl (fun c kv => c.insert kv.1 kv.2) []

/-! ### printing -/

def showNumErr : NumErr → String
  | .notNumber => "notnumber" | .operandRange => "operandrange" | .overflow => "overflow"
  | .divZero => "divzero" | .expRange => "exprange"

def showRErr : Vm.RErr → String
  | .undefinedVariable => "undefvar"
  | .undefinedField => "undeffield"
  | .undefinedRender => "undefrender"
  | .index => "index"
  | .slice => "slice"
  | .math e => showNumErr e
  | .notComparable => "notcomparable"
  | .iteration => "iteration"
  | .inContainer => "incontainer"
  | .spread => "spread"
  | .mapKey => "mapkey"
  | .call => "call"
  | .superOutsideBlock => "superoutside"
  | .superTopLevel => "supertop"
  | .componentBinding => "binding"
  | .recursionLimit => "recursion"
  | .noLineage => "nolineage"
  | .templateNotFound => "notfound"
  | .blockNotFound => "blocknotfound"

def showOutcome : Vm.Outcome → String
  | .ok text => "ok " ++ Wire.hexOfStr text
  | .err e => "err " ++ showRErr e
  | .panic s => "panic " ++ s.replace " " "_"
  | .unmodelled w => "unmodelled " ++ w.replace " " "_"
  | .outOfFuel => "fuel"

def showRegErr : Reg.Err → String
  | .missingParent _ _ => "missingparent"
  | .circularExtend _ _ => "circularextend"
  | .circularInclude _ _ => "circularinclude"
  | .msg => "msg"
  | .templateNotFound => "notfound"
  | .syntax => "syntax"
  | .outOfFuel => "fuel"
  | .panic => "panic"

def showAddErr : AddErr → String
  | .syntax n => "syntax " ++ AstWire.showName n
  | .registry e => "registry " ++ showRegErr e
  | .panic s => "panic " ++ s.replace " " "_"
  | .outOfFuel => "fuel"
  | .internal w => "internal " ++ w.replace " " "_"
  | .unchecked w => "unchecked " ++ w.replace " " "_"

def hexName (s : String) : String := InstrWire.hexOfName s



def enc : Compiler.Enc where
  name := InstrWire.hexOfName
  value := fun v => Wire.hexOfStr (Wire.showValue v).toList

/-- a typed instruction in the wire form of `verif_hooks::vm_env_wire`: `Pipeline.wireV` (the
printer `stored_chunks_wellformed` of Props/Pipeline.lean is about) with the real payload encoders -/
def wireOf (v : Vm.VInstr) : Instr := wireV enc v

def showChunk (c : Vm.Chunk) : String :=
  " CH " ++ AstWire.showName c.name ++ s!" I{c.code.length}" ++
    String.join (c.code.map fun e => " " ++ InstrWire.showEntry (wireOf e.1, e.2))

def showDef (d : Component.Def) : String :=
  s!" D A{d.params.length}" ++
    String.join (d.params.map fun p =>
      " " ++ AstWire.showName p.name ++
      (match p.declared with
       | none => " O0"
       | some t => " O1 T:" ++ (match Tera.Generated.componentTypeNames.find? (fun e => e.2 == t) with
                                 | some e => e.1
                                 | none => t)) ++
      (match p.dflt with
       | none => " O0"
       | some v => " O1 " ++ Wire.showValue v)) ++
    " " ++ AstWire.showOptName d.rest

/-- insertion sort by name; a later entry of a name replaces an earlier one -/
def insertNamed {α} (n : String) (x : α) : List (String × α) → List (String × α)
  | [] => [(n, x)]
  | (m, y) :: rest =>
    if n < m then (n, x) :: (m, y) :: rest
    else if n = m then (m, y) :: rest   -- the lists handed in have the winning entry first
    else (m, y) :: insertNamed n x rest

def sortNamed {α} (l : List (String × α)) : List (String × α) :=
  l.foldl (fun acc (n, x) => insertNamed n x acc) []

def showComponents (tag : String) (cs : List (String × (Component.Def × Vm.Chunk))) : String :=
  let cs := sortNamed cs
  s!" {tag}{cs.length}" ++
    String.join (cs.map fun (n, (d, ch)) => " " ++ AstWire.showName n ++ showDef d ++ showChunk ch)

def showNames (tag : String) (l : List String) : String :=
  s!" {tag}{l.length}" ++ String.join (l.map fun n => " " ++ AstWire.showName n)

def showEnv (cfg : Config) (env : Vm.Env) : String :=
  let tpls := sortNamed (env.templates.filter fun (n, t) => n == t.name)
  let body := s!"T{tpls.length}" ++
    String.join (tpls.map fun (n, t) =>
      " " ++ AstWire.showName n ++ " " ++ AstWire.flag t.autoescape ++
      showNames "P" t.parents ++ showChunk t.chunk ++
      (let lin := sortNamed t.blockLineage
       s!" L{lin.length}" ++ String.join (lin.map fun (b, l) =>
         " " ++ AstWire.showName b ++ s!" K{l.length}" ++ String.join (l.map showChunk))) ++
      showComponents "C" t.components) ++
    showComponents "GC" env.components ++
    showNames "F" cfg.reg.filters ++ showNames "TS" cfg.reg.tests ++ showNames "FN" cfg.reg.functions
  -- single spaces only
  String.intercalate " " (Wire.tokens body)

def FUEL : Vm.Fuel := { depth := 400, steps := 2000000 }

def handlePipe (ts : List String) : Except String String := do
  let some (cfg, r) := pConfig ts | throw "config"
  let some (sources, r) := pCounted "S" pSource r | throw "sources"
  let some (entries, r) := pCounted "E" pEntry r | throw "entries"
  let some (runs, r) := pCounted "R" (fun ts => do
      let (ctx, r) ← pCounted "X" pBinding ts
      let (glob, r) ← pCounted "G" pBinding r
      pure ((ctx, glob), r)) r | throw "contexts"
  if !r.isEmpty then throw "trailing"
  match addTemplates cfg sources with
  | .error e => pure ("A " ++ showAddErr e ++ " | ENV - | O")
  | .ok env =>
    let outs := entries.flatMap fun (name, block) =>
      runs.map fun (cg : List (String × Value) × List (String × Value)) =>
        showOutcome (match block with
          | none => render FUEL env name (ctxOf cg.1) (ctxOf cg.2)
          | some b => renderBlock FUEL env name b (ctxOf cg.1) (ctxOf cg.2))
    pure ("A ok | ENV " ++ showEnv cfg env ++ " | O " ++ String.intercalate ";" outs)

/-! ### stage dumps -/

def punctName (t : Tok) : Option String := (Tok.punct.find? (fun p => p.2 == t)).map (·.1)

def showTok : Tok → String
  | .content s => "content:" ++ AstWire.hexOfString s
  | .variableStart ws => "vs" ++ AstWire.flag ws
  | .variableEnd ws => "ve" ++ AstWire.flag ws
  | .tagStart ws => "ts" ++ AstWire.flag ws
  | .tagEnd ws => "te" ++ AstWire.flag ws
  | .ident s => "id:" ++ AstWire.hexOfString s
  | .str s => "str:" ++ AstWire.hexOfString s
  | .integer n => s!"int:{n}"
  | .float x => "float:" ++ Wire.natHex16 x.toBits
  | .bool b => "bool" ++ AstWire.flag b
  | t => (punctName t).getD "?"

def showCode (c : Compiler.Code) : List String :=
  (Compiler.toEntries enc c).map fun e => InstrWire.showInstr e.1 ++ "@" ++ String.intercalate ";" e.2

def insertLast {α} (n : String) (x : α) : List (String × α) → List (String × α)
  | [] => [(n, x)]
  | (m, y) :: rest =>
    if n < m then (n, x) :: (m, y) :: rest
    else if n = m then (n, x) :: rest
    else (m, y) :: insertLast n x rest

def sortLast {α} (l : List (String × α)) : List (String × α) :=
  l.foldl (fun acc (n, x) => insertLast n x acc) []

def sortNames (l : List String) : List String := (sortLast (l.map fun n => (n, ()))).map (·.1)

def section_ (label : String) (toks : List String) : String := String.intercalate " " (label :: toks)

def showCompiled (c : Compiler.Compiled) : String :=
  let hex := InstrWire.hexOfName
  String.intercalate " ; "
    ([section_ "main" (showCode c.main)]
      ++ (sortLast c.blocks).map (fun (n, ch) => section_ ("block:" ++ hex n) (showCode ch))
      ++ (sortLast c.components).map (fun (n, ch) => section_ ("component:" ++ hex n) (showCode ch))
      ++ [section_ "filter" ((sortNames c.filterCalls).map hex),
          section_ "test" ((sortNames c.testCalls).map hex),
          section_ "function" ((sortNames c.functionCalls).map hex),
          section_ "include" ((sortNames c.includeCalls).map hex),
          section_ "component_calls" ((sortNames c.componentCalls).map hex),
          section_ "topblock" ((sortNames c.blockNames).map hex)])

def handleStages (ts : List String) : Except String String := do
  let some (d, r) := pDelims ts | throw "delims"
  let some (src, r) := pHexBytes r | throw "source"
  if !r.isEmpty then throw "trailing"
  let lr := WsFilter.tokenize d src
  let lexEnd : String := match lr.ending with
    | .eof => "eof" | .error _ _ => "error" | .panic s => "panic_" ++ s.replace " " "_"
    | .outOfFuel => "fuel"
  let errored := match lr.ending with | .error _ _ => true | _ => false
  let toks := toksOf lr.tokens errored
  let tokTxt := String.intercalate " " (toks.map showTok)
  let shaped := if TParser.shaped .tpl toks then "1" else "0"
  let (astTxt, scopedTxt, rawTxt) : String × String × String :=
    match TParser.parse Gen.MAX_RECURSION_DEPTH toks with
    | .err => ("err", "-", "-")
    | .panic m => ("panic " ++ m.replace " " "_", "-", "-")
    | .fuel => ("fuel", "-", "-")
    | .ok t _ =>
      ("ok " ++ AstWire.showTemplate t, (if Compiler.templateScoped t then "1" else "0"),
        match Compiler.compileTemplate t with
        | .error site => "panic " ++ site.replace " " "_"
        | .ok c => showCompiled c)
  pure (s!"LEX {lexEnd} | TOK {tokTxt} | SHAPED {shaped} | AST {astTxt} | SCOPED {scopedTxt} | RAW {rawTxt}")

def handle (line : String) : String :=
  match Wire.tokens line with
  | "pipe" :: rest =>
    match handlePipe rest with
    | .ok s => s
    | .error w => "bad-request " ++ w
  | "stages" :: rest =>
    match handleStages rest with
    | .ok s => s
    | .error w => "bad-request " ++ w
  | _ => "bad-request op"

partial def loop (h : IO.FS.Stream) (out : IO.FS.Stream) : IO Unit := do
  let line ← h.getLine
  if line.isEmpty then return ()
  out.putStrLn (handle line)
  out.flush
  loop h out

def main : IO Unit := do
  let stdin ← IO.getStdin
  let stdout ← IO.getStdout
  loop stdin stdout
