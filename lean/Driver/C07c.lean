/-
Line-protocol driver for the compiler model (Model/Compiler.lean), stage diff of harness bin c07c.
Request:
  compile <template in AstWire form: T ostr(parent) nodes components>   (kwargs in compile order)
Response (one line):
  bad-request
  panic <site>
  panic imperative-model-disagrees      (self-check of the two compiler models failed)
  ok scoped=<0|1> | main <tok>* | block:<hexname> <tok>* | … | component:<hexname> <tok>* | …
     | filter <hex>* | test <hex>* | function <hex>* | include <hex>* | component_calls <hex>*
     | topblock <hex>*
blocks sorted by name (a later definition of a name replaces an earlier one), then components
sorted by name (same); tables sorted, without repetitions; a chunk token is `Kind:arg@s` (added with
a span) or `Kind:arg@` (added without).
-/
import TeraModel.Model.Compiler
import TeraModel.Model.CompilerImp
import TeraModel.Model.AstWire
import TeraModel.Model.InstrWire
open Tera Tera.Compiler

def enc : Enc where
  name := InstrWire.hexOfName
  value := fun v => Wire.hexOfStr (Wire.showValue v).toList

def showCode (c : Code) : List String :=
  (toEntries enc c).map fun e => InstrWire.showInstr e.1 ++ "@" ++ String.intercalate ";" e.2

/-- insertion sort by name; an equal name replaces (later `HashMap::insert` wins) -/
def insertNamed {α} (n : String) (x : α) : List (String × α) → List (String × α)
  | [] => [(n, x)]
  | (m, y) :: rest =>
    if n < m then (n, x) :: (m, y) :: rest
    else if n = m then (n, x) :: rest
    else (m, y) :: insertNamed n x rest

def sortNamed {α} (l : List (String × α)) : List (String × α) :=
  l.foldl (fun acc (n, x) => insertNamed n x acc) []

def sortNames (l : List String) : List String :=
  (sortNamed (l.map fun n => (n, ()))).map (·.1)

def section_ (label : String) (toks : List String) : String :=
  String.intercalate " " (label :: toks)

/-- self-check: the mutable-pass model (Model/CompilerImp.lean) must give the same chunk (T6 proves
it for scoped ASTs; here it is run on every case, scoped or not) -/
def impAgrees (ns : List Node) (expected : Code) : Bool :=
  match Imp.compileNodes ns Imp.Comp.new with
  | .ok r => showCode r.chunk == showCode expected && r.bodies.isEmpty && r.depth == 0
  | .error _ => false

def respond (t : Template) : String :=
  match compileTemplate t with
  | .error site => "panic " ++ site
  | .ok c =>
    if !(impAgrees t.nodes c.main
          && t.componentDefinitions.all fun cd => impAgrees cd.body (nodesCode 0 none cd.body)) then
      "panic imperative-model-disagrees"
    else
    let hex := InstrWire.hexOfName
    let secs :=
      [s!"ok scoped={if templateScoped t then 1 else 0}", section_ "main" (showCode c.main)]
      ++ (sortNamed c.blocks).map (fun (n, ch) => section_ ("block:" ++ hex n) (showCode ch))
      ++ (sortNamed c.components).map (fun (n, ch) => section_ ("component:" ++ hex n) (showCode ch))
      ++ [section_ "filter" ((sortNames c.filterCalls).map hex),
          section_ "test" ((sortNames c.testCalls).map hex),
          section_ "function" ((sortNames c.functionCalls).map hex),
          section_ "include" ((sortNames c.includeCalls).map hex),
          section_ "component_calls" ((sortNames c.componentCalls).map hex),
          section_ "topblock" ((sortNames c.blockNames).map hex)]
    String.intercalate " | " secs

def handle (line : String) : String :=
  match Wire.tokens line with
  | "compile" :: toks =>
    match AstWire.parseTemplate toks with
    | some (t, []) => respond t
    | _ => "bad-request"
  | _ => "bad-request"

partial def loop (h : IO.FS.Stream) (out : IO.FS.Stream) : IO Unit := do
  let line ← h.getLine
  if line.isEmpty then return ()
  out.putStrLn (handle line)
  loop h out

def main : IO Unit := do
  let stdin ← IO.getStdin
  let stdout ← IO.getStdout
  loop stdin stdout
