/-
Line-protocol driver for the C05 model (components).  Requests:

  bind D<n> {<name> <type name | _> (_ | = <value>)}×n (R_ | R:<rest name>) <kwargs> (- | <body value>)
        kwargs = <map value> | A<n> {kv <name> <value> | sp <map value>}×n   (the call's attributes, left to right)
        → "ok <map value: the built context, keys sorted>" | "err unknown|missing|mismatch" | "bad-…"
  prio <np> p:<prefix>×np <nd> {<component> <template>}×nd
        → "ok <component>=<template>@<priority> …" (sorted by component) | "err duplicate"
  rec <fuel> <nc> {<name> <k> <node>×k}×nc <nt> {<name> <k> <node>×k}×nt <k> <node>×k
        node = t | c:<component> | i:<template>
        → "ok <max depth>" | "err recursion <max depth>" | "err unknown" | "err fuel"

Values use the shared wire format (`Model/Wire.lean`).
-/
import TeraModel.Model.Component
import TeraModel.Model.Wire
open Tera Tera.Component

def insertSorted {α : Type} (e : String × α) : List (String × α) → List (String × α)
  | [] => [e]
  | x :: xs => if e.1 < x.1 then e :: x :: xs else x :: insertSorted e xs

def sortByKey {α : Type} (l : List (String × α)) : List (String × α) := l.foldl (fun acc e => insertSorted e acc) []

def sortMapValue : Value → Value
  | .map es =>
    let named := es.map (fun (k, v) => (match k with | .str s => String.ofList s | _ => "", (k, v)))
    .map ((sortByKey named).map (fun e => e.2))
  | v => v

partial def parseParams : Nat → List String → Option (List Param × List String)
  | 0, ts => some ([], ts)
  | n+1, name :: ty :: d :: rest => do
    let declared ← (if ty == "_" then some none else (tyOfName ty).map some)
    let (dflt, r) ← (if d == "_" then some (none, rest)
                     else if d == "=" then (Wire.parseValue rest).map (fun (v, r) => (some v, r))
                     else none)
    let (ps, r') ← parseParams n r
    pure ({ name := name, declared := declared, dflt := dflt } :: ps, r')
  | _, _ => none

def showBindErr : BindErr → String
  | .unknown => "unknown" | .missing => "missing" | .mismatch => "mismatch"

partial def parseAttrs : Nat → List String → Option (List Attr × List String)
  | 0, ts => some ([], ts)
  | n+1, "kv" :: name :: rest => do
    let (v, r) ← Wire.parseValue rest
    let (as, r') ← parseAttrs n r
    pure (.kv name v :: as, r')
  | n+1, "sp" :: rest => do
    let (v, r) ← Wire.parseValue rest
    match v with
    | .map es =>
      let (as, r') ← parseAttrs n r
      pure (.spread es :: as, r')
    | _ => none
  | _, _ => none

/-- the kwargs part of a request: a map value, or `A<n>` followed by n attributes
(`kv <name> <value>` | `sp <map value>`) which `kwargsOf` turns into the map -/
def parseKwargs (ts : List String) : Option (List (Key × Value) × List String) :=
  match ts with
  | t :: rest =>
    match (Wire.afterPrefix "A" t).bind (·.toNat?) with
    | some n =>
      if t.startsWith "A" && rest.head? ∈ [some "kv", some "sp"] || n == 0 && t == "A0" then
        (parseAttrs n rest).map (fun (as, r) => (kwargsOf as, r))
      else none
    | none =>
      match Wire.parseValue ts with
      | some (.map kwargs, r) => some (kwargs, r)
      | _ => none
  | [] => none

def handleBind (ts : List String) : String :=
  match ts with
  | dh :: rest =>
    match (Wire.afterPrefix "D" dh).bind (·.toNat?) with
    | some n =>
      match parseParams n rest with
      | some (ps, rt :: r1) =>
        let restName : Option (Option String) :=
          if rt == "R_" then some none else (Wire.afterPrefix "R:" rt).map some
        match restName with
        | some rn =>
          match parseKwargs r1 with
          | some (kwargs, r2) =>
            let body : Option (Option Value) :=
              match r2 with
              | ["-"] => some none
              | _ => match Wire.parseValue r2 with
                     | some (b, []) => some (some b)
                     | _ => none
            match body with
            | some b =>
              let d : Def := { params := (sortByKey (ps.map fun p => (p.name, p))).map (·.2), rest := rn }
              match buildContext d kwargs b with
              | .ok ctx =>
                let entries := (sortByKey ctx).map (fun (k, v) => (Key.str k.toList, sortMapValue v))
                "ok " ++ Wire.showValue (.map entries)
              | .error e => "err " ++ showBindErr e
            | none => "bad-body"
          | _ => "bad-kwargs"
        | none => "bad-rest"
      | _ => "bad-params"
    | none => "bad-def"
  | [] => "bad-request"

def takeN : Nat → List String → Option (List String × List String)
  | 0, ts => some ([], ts)
  | n+1, t :: ts => (takeN n ts).map (fun (a, r) => (t :: a, r))
  | _, [] => none

def parsePairs : Nat → List String → Option (List (String × String) × List String)
  | 0, ts => some ([], ts)
  | n+1, a :: b :: ts => (parsePairs n ts).map (fun (l, r) => ((a, b) :: l, r))
  | _, _ => none

def handlePrio (ts : List String) : String :=
  match ts with
  | np :: rest =>
    match np.toNat? with
    | some np =>
      match (takeN np rest).bind (fun (ps, r) => (ps.mapM (Wire.afterPrefix "p:")).map (fun ps => (ps, r))) with
      | some (prefixes, nd :: r1) =>
        match nd.toNat? with
        | some nd =>
          match parsePairs nd r1 with
          | some (defs, []) =>
            match buildTable (priority prefixes) [] defs with
            | some t =>
              "ok" ++ String.join ((sortByKey t).map (fun (c, (tpl, p)) => s!" {c}={tpl}@{p}"))
            | none => "err duplicate"
          | _ => "bad-defs"
        | none => "bad-defs"
      | _ => "bad-prefixes"
    | none => "bad-request"
  | [] => "bad-request"

def parseNode (t : String) : Option Node :=
  if t == "t" then some .text
  else if let some c := Wire.afterPrefix "c:" t then some (.comp c)
  else if let some c := Wire.afterPrefix "i:" t then some (.incl c)
  else none

def parseNodes (ts : List String) : Option (List Node × List String) :=
  match ts with
  | k :: rest => do
    let k ← k.toNat?
    let (toks, r) ← takeN k rest
    let nodes ← toks.mapM parseNode
    pure (nodes, r)
  | [] => none

def parseChunks : Nat → List String → Option (List (String × List Node) × List String)
  | 0, ts => some ([], ts)
  | n+1, name :: rest => do
    let (nodes, r) ← parseNodes rest
    let (cs, r') ← parseChunks n r
    pure ((name, nodes) :: cs, r')
  | _, [] => none

def handleRec (ts : List String) : String :=
  match ts with
  | fuel :: nc :: rest =>
    match fuel.toNat?, nc.toNat? with
    | some fuel, some nc =>
      match parseChunks nc rest with
      | some (comps, nt :: r1) =>
        match nt.toNat? with
        | some nt =>
          match parseChunks nt r1 with
          | some (tpls, r2) =>
            match parseNodes r2 with
            | some (root, []) =>
              let w : World := { comp := fun n => lookupStr n comps, tpl := fun n => lookupStr n tpls }
              match runNodes w fuel 0 root with
              | (m, .ok ()) => s!"ok {m}"
              | (m, .error .recursionLimit) => s!"err recursion {m}"
              | (_, .error .unknownName) => "err unknown"
              | (_, .error .outOfFuel) => "err fuel"
            | _ => "bad-root"
          | none => "bad-tpls"
        | none => "bad-tpls"
      | _ => "bad-comps"
    | _, _ => "bad-request"
  | _ => "bad-request"

def handle (line : String) : String :=
  match Wire.tokens line with
  | "bind" :: rest => handleBind rest
  | "prio" :: rest => handlePrio rest
  | "rec" :: rest => handleRec rest
  | _ => "bad-request"

partial def loop (h : IO.FS.Stream) (out : IO.FS.Stream) : IO Unit := do
  let line ← h.getLine
  if line.isEmpty then return ()
  out.putStrLn (handle line)
  loop h out

def main : IO Unit := do
  let stdin ← IO.getStdin
  let stdout ← IO.getStdout
  loop stdin stdout
