/-
Line-protocol driver for the C04 model (block inheritance).  Requests:
  fin <perm2> <perm3> <set>   → "ok <derived dump>" | "err <class> …"   (the model of finalize_templates)
  spec <set>                  → the same dump with every lineage computed by `lineageSpec`
                                (Spec/Inherit.lean) instead of the two passes; "err" when the model rejects
See Driver/RegWire.lean for <set> and the dump format.
-/
import Driver.RegWire
import TeraModel.Spec.Inherit
open RegWire Tera.Reg

def dedup (l : List String) : List String := sortDedup l

/-- every block name some template of the chain defines -/
def chainBlocks (S : List Tpl) (chain : List String) : List String :=
  dedup (chain.flatMap fun n => match get S n with | some t => t.blocks.map (·.name) | none => [])

def specLineage (S : List Tpl) (d : Derived) : TplBlocks :=
  d.parents.map fun (n, ps) =>
    let chain := chainOf n ps
    (n, (chainBlocks S chain).filterMap fun b => (lineageSpec S chain b).map fun l => (b, l))

def handleSpec (rest : List String) : String :=
  match (pSet : OptionT P _).run rest with
  | (some (prefixes, S), []) =>
    match derive prefixes S (order 0 (keys S)) (order 0 (keys S)) with
    | .ok d => "ok " ++ showDerived { d with lineage := specLineage S d }
    | .error e => showErr e
  | _ => "bad-request"

def handle (line : String) : String :=
  match tokens line with
  | "fin" :: rest => handleFin rest
  | "render" :: rest => handleRender rest
  | "spec" :: rest => handleSpec rest
  | _ => "bad-request"

partial def loop (h : IO.FS.Stream) (out : IO.FS.Stream) : IO Unit := do
  let line ← h.getLine
  if line.isEmpty then return ()
  out.putStrLn (handle line)
  loop h out

def main : IO Unit := do
  let stdin ← IO.getStdin
  let stdout ← IO.getStdout
  loop stdin stdout
