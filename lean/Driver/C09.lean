/-
Line-protocol driver for the C09 model (`Chunk::optimize`).  Requests:
  opt <tok> <tok> …     the wire listing of one chunk before the pass
     → "ok <tok> …"     the model's listing after the pass
     | "panic"          the Rust would panic (jump operand beyond the one-past-the-end index)
     | "bad-request"
  imap <tok> …          → "imap <n> <n> …"  (the model's index_map, for diagnosis)
  pv <f|u> <l|w> <a|n> <path> <root value | ->
                        the fused (f) or unfused (u) load (l) / write (w) of a variable path on the
                        PathVm model, autoescape on (a) or off (n), the root variable bound to the value
                        → load: "ok <value>" | "err" | "panic"
                        → write: "ok E <value>" (written through the escape function) | "ok R <value>" (raw) | "err" | "panic"
-/
import TeraModel.Model.Optimize
import TeraModel.Model.InstrWire
import TeraModel.Model.PathVm
open Tera Tera.Optimize Tera.InstrWire

/-! The path instructions of Model/PathVm.lean instantiated on `Tera.Value` (what the harness
compares with the real VM): `Value::get_attr` looks a string key up in a map. -/
def valGetAttr (v : Value) (a : String) : Option Value :=
  match v with
  | .map es => (es.find? (fun kv => kv.1 == Key.str a.toList)).map (·.2)
  | _ => none

def valIsUndef : Value → Bool
  | .undef => true
  | _ => false

/-- `Value::is_safe` (value/mod.rs:696): a safe string; arrays, maps and bytes are not; every
other kind is -/
def valIsSafe : Value → Bool
  | .str safe _ => safe
  | .arr _ | .map _ | .bytes _ => false
  | _ => true

/-- state: the values written so far, each with the escape decision -/
def concreteEnv (autoescape : Bool) (ctx : List (String × Value)) :
    PathVm.Env Value (List (Bool × Value)) where
  undef := .undef
  isUndef := valIsUndef
  getValue _ n := ((ctx.find? (fun kv => kv.1 == n)).map (·.2)).getD .undef
  dumpContext _ := .map (ctx.map fun kv => (Key.str kv.1.toList, kv.2))
  getAttr := valGetAttr
  isSafe := valIsSafe
  autoescape := autoescape
  emit esc v s := some (s ++ [(esc, v)])

def showPathRes (kind : String) : Option (PathVm.Res Value (List (Bool × Value))) → String
  | some (.ok stack s) =>
    if kind = "l" then
      match stack with
      | (v, _) :: _ => "ok " ++ Wire.showValue v
      | [] => "ok-empty-stack"
    else
      match s.getLast? with
      | some (esc, v) => "ok " ++ (if esc then "E " else "R ") ++ Wire.showValue v
      | none => "ok-nothing-written"
  | some .err => "err"
  | some (.panic _) => "panic"
  | none => "not-a-path-instruction"

/-- `pv <f|u> <l|w> <a|n> <path as comma separated hex> <root value | ->` -/
def handlePv (mode kind auto pathArg : String) (root : List String) : String :=
  match pathOfArg pathArg with
  | some (n :: attrs) =>
    let ctx : Option (List (String × Value)) :=
      if root = ["-"] then some []
      else match Wire.parseValue root with
        | some (v, []) => some [(n, v)]
        | _ => none
    match ctx with
    | none => "bad-request"
    | some ctx =>
      let env := concreteEnv (auto == "a") ctx
      let sp (i : Nat) : List Span := [s!"s{i}"]
      if mode = "f" then
        let spans := (List.range (attrs.length + 1)).map fun i => s!"s{i}"
        if kind = "l" then
          -- the optimiser only emits LoadPath for at least one attribute
          if attrs.isEmpty then showPathRes kind (some (PathVm.loadName env n (sp 0) [] []))
          else showPathRes kind (some (PathVm.loadPath env (n :: attrs) spans [] []))
        else showPathRes kind (some (PathVm.writePath env (n :: attrs) spans [] []))
      else
        let seq : List Entry :=
          (Instr.loadName n, sp 0) :: ((attrs.zipIdx.map fun (a, i) => (Instr.loadAttr a, sp (i + 1))) ++
            (if kind = "w" then [(Instr.writeTop, [])] else []))
        showPathRes kind (PathVm.runSeq env seq [] [])
  | _ => "bad-request"

def handle (line : String) : String :=
  match Wire.tokens line with
  | "opt" :: toks =>
    match parseChunk toks with
    | none => "bad-request"
    | some c =>
      match optimize c with
      | .ok r => if r.isEmpty then "ok" else "ok " ++ showChunk r
      | .panic _ => "panic"
  | "pv" :: mode :: kind :: auto :: pathArg :: root => handlePv mode kind auto pathArg root
  | "imap" :: toks =>
    match parseChunk toks with
    | none => "bad-request"
    | some c => "imap" ++ String.join ((indexMap c).map fun n => s!" {n}")
  | _ => "bad-request"

partial def loop (h : IO.FS.Stream) (out : IO.FS.Stream) : IO Unit := do
  let line ← h.getLine
  if line.isEmpty then return ()
  out.putStrLn (handle line)
  loop h out

def main : IO Unit := do
  let stdin ← IO.getStdin
  let stdout ← IO.getStdout
  loop stdin stdout
