/-
Wire format shared by the C11 / C04 / C10 model drivers: template summaries in, derived data out.

  <set>  ::= P <n> <prefix>*n  T <k> <tpl>*k
  <tpl>  ::= <name> <parent|-> <srcLen> <badRefs 0|1>
             <nb> ( <bname> <super 0|1> <nestedIn|-> <ni> <inc>*ni )*nb
             <nti> <inc>*nti
             <nc> ( <cname> <ni> <inc>*ni )*nc
             <ncc> <compcall>*ncc
Names contain no white space and are never "-".
-/
import TeraModel.Model.Registry
import TeraModel.Model.RenderSkel
import TeraModel.Model.FinalizeRefs
open Tera.Reg

namespace RegWire

abbrev P := StateM (List String)

def next : P (Option String) := fun ts => match ts with
  | [] => (none, [])
  | t :: r => (some t, r)

def tokens (line : String) : List String :=
  (line.trimAscii.toString.splitOn " ").filter (fun t => t != "")

def pTok : OptionT P String := OptionT.mk next

def pNat : OptionT P Nat := do
  let t ← pTok
  match t.toNat? with
  | some n => pure n
  | none => failure

def pOpt : OptionT P (Option String) := do
  let t ← pTok
  pure (if t == "-" then none else some t)

def pBool : OptionT P Bool := do
  let t ← pTok
  if t == "1" then pure true else if t == "0" then pure false else failure

def pMany {α} (n : Nat) (p : OptionT P α) : OptionT P (List α) := do
  let mut out := []
  for _ in [0:n] do
    let x ← p
    out := x :: out
  pure out.reverse

def pList {α} (p : OptionT P α) : OptionT P (List α) := do
  let n ← pNat
  pMany n p

def pBlock : OptionT P BlockDef := do
  let name ← pTok
  let s ← pBool
  let nested ← pOpt
  let incs ← pList pTok
  pure { name := name, callsSuper := s, nestedIn := nested, includes := incs }

def pComp : OptionT P CompDef := do
  let name ← pTok
  let incs ← pList pTok
  pure { name := name, includes := incs }

def pTpl : OptionT P Tpl := do
  let name ← pTok
  let parent ← pOpt
  let len ← pNat
  let bad ← pBool
  let blocks ← pList pBlock
  let top ← pList pTok
  let comps ← pList pComp
  let calls ← pList pTok
  pure { name := name, parent := parent, blocks := blocks, topIncludes := top, comps := comps,
         compCalls := calls, badRefs := bad, srcLen := len }

def pExpect (s : String) : OptionT P Unit := do
  let t ← pTok
  if t == s then pure () else failure

def pSet : OptionT P (List String × List Tpl) := do
  pExpect "P"
  let ps ← pList pTok
  pExpect "T"
  let ts ← pList pTpl
  pure (ps, ts)

/-! printing -/

def csv (l : List String) : String := if l.isEmpty then "-" else String.intercalate "," l

def insertBy {α} (key : α → String) (x : α) : List α → List α
  | [] => [x]
  | y :: ys => if key x < key y then x :: y :: ys else y :: insertBy key x ys

def sortBy {α} (key : α → String) (l : List α) : List α := l.foldr (insertBy key) []

def showErr : Err → String
  | .missingParent c t => s!"err missingparent {c} {t}"
  | .circularExtend t ch => s!"err circularextend {t} {csv ch}"
  | .circularInclude t ch => s!"err circularinclude {t} {csv ch}"
  | .msg => "err msg"
  | .templateNotFound => "err templatenotfound"
  | .syntax => "err syntax"
  | .outOfFuel => "err outoffuel"
  | .panic => "err panic"

def showBlockMap (m : BlockMap) : String :=
  let m := sortBy (·.1) m
  s!"{m.length}" ++ String.join (m.map fun (b, l) => s!" {b} {csv l}")

def showDerived (d : Derived) : String :=
  let names := sortDedup (d.parents.map (·.1))
  let tpls := names.map fun n =>
    let ps := (lookupParents d.parents n).getD []
    let sz := ((d.sizes.find? (fun e => e.1 == n)).map (·.2)).getD 0
    let lin := (tbLookup d.lineage n).getD []
    s!"T {n} {sz} {csv ps} {showBlockMap lin}"
  let comps := (sortBy (·.1) d.comps).map fun (c, t) => s!"C {c} {t}"
  String.intercalate " " (tpls ++ comps)

def showFP : FPRes → String
  | .ok ps => s!"ok {csv ps}"
  | .missingParent t p => s!"missing {t} {p}"
  | .circular ch => s!"circular {csv ch}"
  | .outOfFuel => "outoffuel"
  | .panic => "panic"

def showDfs : DfsRes → String
  | .ok _ => "ok"
  | .cycle ch => s!"cycle {csv ch}"
  | .outOfFuel => "outoffuel"
  | .panic => "panic"

/-- the two iteration orders used for a request: 0 = sorted, 1 = reverse sorted, 2 = rotated -/
def order (perm : Nat) (ks : List String) : List String :=
  let s := sortDedup ks
  match perm with
  | 0 => s
  | 1 => s.reverse
  | _ => s.drop (s.length / 2) ++ s.take (s.length / 2)

/-- `fin <perm2> <perm3> <set>` -/
def handleFin (rest : List String) : String :=
  match (do let a ← pNat; let b ← pNat; let s ← pSet; pure (a, b, s) : OptionT P _).run rest with
  | (some (p2, p3, prefixes, S), []) =>
    match derive prefixes S (order p2 (keys S)) (order p3 (keys S)) with
    | .ok d => "ok " ++ showDerived d
    | .error e => showErr e
  | _ => "bad-request"

/-- `fp <name> <set>` and `inc <name> <set>`: the two walks for one start template -/
def handleWalk (which : String) (rest : List String) : String :=
  match (do let n ← pTok; let s ← pSet; pure (n, s) : OptionT P _).run rest with
  | (some (n, prefixes, S), []) =>
    match get S n with
    | none => "no-such-template"
    | some t =>
      if which == "fp" then showFP (findParents prefixes S t) else showDfs (checkIncludeCycles prefixes S t)
  | _ => "bad-request"

def showRErr : RErr → String
  | .superAtTop => "err rendering"
  | .superOutsideBlock => "err rendering"
  | .noLineage => "err msg"
  | .templateNotFound => "err templatenotfound"
  | .componentDepth => "err msg"
  | .outOfFuel => "outoffuel"
  | .panic => "panic"

/-- `render <fuel> <view> <set>`: the render skeleton of template `view` of an accepted set -/
def handleRender (rest : List String) : String :=
  match (do let f ← pNat; let v ← pTok; let s ← pSet; pure (f, v, s) : OptionT P _).run rest with
  | (some (fuel, view, prefixes, S), []) =>
    match derive prefixes S (order 0 (keys S)) (order 1 (keys S)) with
    | .error e => showErr e
    | .ok d =>
      let env : REnv := { ps := prefixes, S := S, lineage := d.lineage, comps := d.comps }
      match resolve prefixes S view with
      | none => "err templatenotfound"
      | some r =>
        match renderTpl env ((lookupParents d.parents r).getD []) fuel r with
        | .ok out => "ok " ++ out
        | .error e => showRErr e
  | _ => "bad-request"

/-! summaries with call tables (Model/FinalizeRefs.lean):
  <reg>  ::= R <nf> <filter>*nf <nt> <test>*nt <ng> <function>*ng
  <tplr> ::= <tpl> <nfc> <filter call>*nfc <ntc> <test call>*ntc <nfn> <function call>*nfn -/

def pReg : OptionT P Registered := do
  pExpect "R"
  let f ← pList pTok
  let t ← pList pTok
  let g ← pList pTok
  pure { filters := f, tests := t, functions := g }

def pTplR : OptionT P TplR := do
  let base ← pTpl
  let f ← pList pTok
  let t ← pList pTok
  let g ← pList pTok
  pure { base := base, filterCalls := f, testCalls := t, functionCalls := g }

/-- `finr <perm2> <perm3> <reg> P <n> <prefix>*n T <k> <tplr>*k` -/
def handleFinR (rest : List String) : String :=
  match (do
      let a ← pNat; let b ← pNat; let reg ← pReg
      pExpect "P"; let ps ← pList pTok
      pExpect "T"; let ts ← pList pTplR
      pure (a, b, reg, ps, ts) : OptionT P _).run rest with
  | (some (p2, p3, reg, prefixes, S), []) =>
    let ks := S.map (·.base.name)
    match deriveR reg prefixes S (order p2 ks) (order p3 ks) with
    | .ok d => "ok " ++ showDerived d
    | .error e => showErr e
  | _ => "bad-request"

end RegWire
