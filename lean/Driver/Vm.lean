/-
Line-protocol driver for the value-level VM model (Model/VmState.lean, Model/Vm.lean).

One request per line:

  check <env>
      → "ok <n>" (all n chunks of the environment pass `checkChunk`) |
        "fail <n> <failed> <kind:template:name:index-of-first-unverified-instruction>…"
  render n:<template> B0|(B1 n:<block>) <env> R<r> (X<k> (n:<name> <value>)*k G<k> (n:<name> <value>)*k)*r

`<env>` is the token stream of `tera::verif_hooks::vm_env_wire` (grammar in its header): every
template with its stored main chunk, autoescape flag, parents, block lineage (the chunks) and
component table, the instance-wide component table, the registered filter / test / function names.

Answer: one outcome per (context, global context) pair, separated by ";", each
"ok <hex of the UTF-8 text>" | "err <class>" | "panic <site>" | "unmodelled <what>" | "fuel";
or "bad-request <where>".

Built-ins: `Tera.Pipeline.BuiltinsM` (Model/PipelineBuiltins.lean: the models of C17, C16, C15); whatever they
leave open (Unicode case mapping of non-ASCII text, float parsing, `round` with a precision) is
"unmodelled".  Float arithmetic is executed with the hardware (`Float`), float printing by the exact
shortest-round-trip algorithm of Driver/C03.lean (copied: a driver cannot import another driver).
-/
import TeraModel.Model.Vm
import TeraModel.Model.VmCheck
import TeraModel.Model.VmBodyCheck
import TeraModel.Model.Builtins
import TeraModel.Model.AstWire
import TeraModel.Generated.Builtins
import TeraModel.Model.PipelineBuiltins
open Tera Tera.Vm

def toNative (x : F64) : Float := Float.ofBits (UInt64.ofNat x.toBits)
def ofNative (f : Float) : F64 := if f.isNaN then .nan else F64.ofBits f.toBits.toNat

/-- C `fmod` computed exactly on dyadics (Lean's `Float` has no fmod). -/
def fmodExact (a b : F64) : F64 :=
  match a, b with
  | .fin an am ae, .fin _ bm be =>
    if bm == 0 then .nan
    else
      let e := min ae be
      let X : Int := (if an then -1 else 1) * (am : Int) * (2:Int)^((ae - e).toNat)
      let Y : Int := (bm : Int) * (2:Int)^((be - e).toNat)
      let r := Int.tmod X Y
      .fin an r.natAbs e
  | .fin .., .inf _ => a
  | _, _ => .nan

def nativeOps : FloatOps where
  add a b := ofNative (toNative a + toNative b)
  sub a b := ofNative (toNative a - toNative b)
  mul a b := ofNative (toNative a * toNative b)
  div a b := ofNative (toNative a / toNative b)
  neg a := ofNative (-(toNative a))
  powf a b := ofNative (Float.pow (toNative a) (toNative b))
  remEuclid a b :=
    let r := fmodExact a b
    if F64.lt r ZERO_F then ofNative (toNative r + (toNative b).abs) else r
  divEuclid a b :=
    let qf := toNative a / toNative b
    let q := if qf.isNaN || qf.isInf then qf else (if qf < 0 then qf.ceil else qf.floor)
    let r := fmodExact a b
    if F64.lt r ZERO_F then
      (if F64.gt b ZERO_F then ofNative (q - 1.0) else ofNative (q + 1.0))
    else ofNative q

/-! ### `{:?}` of an f64 -/

/-- smallest `k ≥ from` with `10^k` above `num/den` (strictly, or weakly when `inclusive`) -/
partial def findK (num den : Nat) (inclusive : Bool) (k : Int) : Int :=
  -- compare 10^k with num/den
  let (l, r) : Nat × Nat := if k ≥ 0 then (den * 10 ^ k.toNat, num) else (den, num * 10 ^ (-k).toNat)
  -- l = 10^k * den (scaled), r = num (scaled): continue while 10^k ≤ high (inclusive) / < high
  if (if inclusive then l ≤ r else l < r) then findK num den inclusive (k + 1) else k

partial def genDigits (mant minus plus scale : Nat) (inclusive : Bool) (acc : List Nat) : List Nat × Bool × Bool × Nat :=
  let d := mant / scale
  let mant := mant % scale
  let acc := acc ++ [d]
  let down := if inclusive then mant ≤ minus else mant < minus
  let up := if inclusive then scale ≤ mant + plus else scale < mant + plus
  if down || up then (acc, down, up, mant)
  else genDigits (mant * 10) (minus * 10) (plus * 10) scale inclusive acc

/-- increments the decimal digit string; `none` when it was all nines -/
def roundUpDigits (ds : List Nat) : Option (List Nat) :=
  let rec go : List Nat → List Nat × Bool   -- processes reversed digits; returns (result reversed, carry)
    | [] => ([], true)
    | d :: rest => if d == 9 then let (r, c) := go rest; (0 :: r, c) else ((d + 1) :: rest, false)
  let (r, c) := go ds.reverse
  if c then none else some r.reverse

/-- shortest digits `d1..dn` and exponent `k` with value = 0.d1..dn × 10^k, for finite non-zero -/
def shortest (m : Nat) (e : Int) : List Nat × Int :=
  let inclusive := m % 2 == 0
  let mant0 := m * 4
  let minus0 : Nat := if m == 2 ^ 52 then 1 else 2
  let plus0 : Nat := 2
  let exp := e - 2
  -- value = mant0 * 2^exp = mant/scale
  let (mant, minus, plus, scale) : Nat × Nat × Nat × Nat :=
    if exp ≥ 0 then (mant0 * 2 ^ exp.toNat, minus0 * 2 ^ exp.toNat, plus0 * 2 ^ exp.toNat, 1)
    else (mant0, minus0, plus0, 2 ^ (-exp).toNat)
  let k := findK (mant + plus) scale inclusive (-350)
  -- scale everything so that value = 0.xxx * 10^k: mant/scale/10^k in [0.1, 1): then mult by 10
  let (mant, minus, plus, scale) : Nat × Nat × Nat × Nat :=
    if k ≥ 0 then (mant, minus, plus, scale * 10 ^ k.toNat)
    else (mant * 10 ^ (-k).toNat, minus * 10 ^ (-k).toNat, plus * 10 ^ (-k).toNat, scale)
  let (ds, down, up, rem) := genDigits (mant * 10) (minus * 10) (plus * 10) scale inclusive []
  if up && (!down || rem * 2 ≥ scale) then
    match roundUpDigits ds with
    | some ds' => (ds', k)
    | none => (1 :: ds.map (fun _ => 0), k + 1)   -- 99..9 → 100..0 (Rust keeps the digit count + 1)
  else (ds, k)

def digitChar (d : Nat) : Char := Char.ofNat ('0'.toNat + d)

def fmtF64 (x0 : F64) : List Char :=
  let x := if x0.isNan then x0 else F64.ofBits x0.toBits
  match x with
  | .nan => "NaN".toList
  | .inf neg => (if neg then "-inf" else "inf").toList
  | .fin neg m e =>
    let sign : List Char := if neg then ['-'] else []
    if m == 0 then sign ++ "0.0".toList
    else
      let absBits := x.toBits % 2 ^ 63
      let (ds, k) := shortest m e
      let digits := ds.map digitChar
      if absBits ≥ 0x4341C37937E08000 || absBits < 0x3F1A36E2EB1C432D then
        -- exponential: d[.ddd]e<k-1>
        let expo := k - 1
        let mantissa := match digits with
          | [] => ['0']
          | [d] => [d]
          | d :: rest => d :: '.' :: rest
        sign ++ mantissa ++ ['e'] ++ (if expo < 0 then '-' :: natToDigits expo.natAbs else natToDigits expo.natAbs)
      else if k ≤ 0 then
        sign ++ ['0', '.'] ++ List.replicate (-k).toNat '0' ++ digits
      else if k.toNat < digits.length then
        sign ++ digits.take k.toNat ++ ['.'] ++ digits.drop k.toNat
      else
        sign ++ digits ++ List.replicate (k.toNat - digits.length) '0' ++ ['.', '0']


/-! ### built-ins: `Tera.Pipeline.BuiltinsM` (Model/PipelineBuiltins.lean — the models of C17, C16
and C15 with a checked per-character case-mapping table), with the driver's float printer -/

def callFilterImpl := Tera.Pipeline.BuiltinsM.callFilterM fmtF64
def callTestImpl := Tera.Pipeline.BuiltinsM.callTestM
def callFunctionImpl := Tera.Pipeline.BuiltinsM.callFunctionM

/-! ### request parsing -/

def parseConst (arg : String) : Option Value :=
  match Wire.strOfHex arg with
  | none => none
  | some cs =>
    match Wire.parseValue (Wire.tokens (String.ofList cs)) with
    | some (v, []) => some v
    | _ => none

abbrev P (α : Type) := List String → Option (α × List String)

def pCount (tag : String) : P Nat
  | t :: r => (AstWire.counted tag t).map (·, r)
  | [] => none

def pMany {α : Type} (p : P α) : Nat → P (List α)
  | 0, ts => some ([], ts)
  | n + 1, ts => do
    let (a, r) ← p ts
    let (as, r) ← pMany p n r
    pure (a :: as, r)

def pCounted {α : Type} (tag : String) (p : P α) : P (List α) := fun ts => do
  let (n, r) ← pCount tag ts
  pMany p n r

def pInstr : P VEntry
  | t :: r => do
    let e ← InstrWire.parseEntry t
    let ve ← decodeEntry parseConst e
    pure (ve, r)
  | [] => none

def pChunk : P Chunk
  | "CH" :: r => do
    let (name, r) ← AstWire.parseName r
    let (code, r) ← pCounted "I" pInstr r
    pure ({ name := name, code := code }, r)
  | _ => none

def pParam : P Component.Param := fun ts => do
  let (name, r) ← AstWire.parseName ts
  let (ty, r) ← (match r with
    | "O0" :: r => some (none, r)
    | "O1" :: t :: r => do
      let n ← Wire.afterPrefix "T:" t
      let ty ← Component.tyOfName n
      pure (some ty, r)
    | _ => none : Option (Option Component.Ty × List String))
  let (dflt, r) ← (match r with
    | "O0" :: r => some (none, r)
    | "O1" :: r => do
      let (v, r) ← Wire.parseValue r
      pure (some v, r)
    | _ => none : Option (Option Value × List String))
  pure ({ name := name, declared := ty, dflt := dflt }, r)

def pDef : P Component.Def
  | "D" :: r => do
    let (params, r) ← pCounted "A" pParam r
    let (rest, r) ← AstWire.parseOptName r
    pure ({ params := params, rest := rest }, r)
  | _ => none

def pComponent : P (String × (Component.Def × Chunk)) := fun ts => do
  let (name, r) ← AstWire.parseName ts
  let (d, r) ← pDef r
  let (c, r) ← pChunk r
  pure ((name, (d, c)), r)

def pLineage : P (String × List Chunk) := fun ts => do
  let (name, r) ← AstWire.parseName ts
  let (cs, r) ← pCounted "K" pChunk r
  pure ((name, cs), r)

def pTemplate : P (String × TemplateInfo) := fun ts => do
  let (name, r) ← AstWire.parseName ts
  match r with
  | ae :: r =>
    let (parents, r) ← pCounted "P" AstWire.parseName r
    let (chunk, r) ← pChunk r
    let (lineage, r) ← pCounted "L" pLineage r
    let (comps, r) ← pCounted "C" pComponent r
    pure ((name, { name := name, chunk := chunk, autoescape := ae == "1", parents := parents,
                   blockLineage := lineage, components := comps }), r)
  | [] => none

def pBinding : P (String × Value) := fun ts => do
  let (name, r) ← AstWire.parseName ts
  let (v, r) ← Wire.parseValue r
  pure ((name, v), r)

def showNumErr : NumErr → String
  | .notNumber => "notnumber" | .operandRange => "operandrange" | .overflow => "overflow"
  | .divZero => "divzero" | .expRange => "exprange"

def showRErr : RErr → String
  | .undefinedVariable => "undefvar"
  | .undefinedField => "undeffield"
  | .undefinedRender => "undefrender"
  | .index => "index"
  | .slice => "slice"
  | .math e => showNumErr e
  | .notComparable => "notcomparable"
  | .iteration => "iteration"
  | .inContainer => "incontainer"
  | .spread => "spread"
  | .mapKey => "mapkey"
  | .call => "call"
  | .superOutsideBlock => "superoutside"
  | .superTopLevel => "supertop"
  | .componentBinding => "binding"
  | .recursionLimit => "recursion"
  | .noLineage => "nolineage"
  | .templateNotFound => "notfound"
  | .blockNotFound => "blocknotfound"

def FUEL : Fuel := { depth := 400, steps := 2000000 }

def mkEnv (tpls : List (String × TemplateInfo)) (gcomps : List (String × (Component.Def × Chunk)))
    (filters tests fns : List String) : Env := {
    templates := tpls, components := gcomps,
    hasFilter := filters.contains, hasTest := tests.contains, hasFunction := fns.contains,
    callFilter := callFilterImpl, filterIsSafe := fun _ => false,
    callTest := callTestImpl, callFunction := callFunctionImpl, functionIsSafe := fun _ => false,
    F := nativeOps, fmtF64 := fmtF64 }

def pEnv : P Env := fun r => do
  let (tpls, r) ← pCounted "T" pTemplate r
  let (gcomps, r) ← pCounted "GC" pComponent r
  let (filters, r) ← pCounted "F" AstWire.parseName r
  let (tests, r) ← pCounted "TS" AstWire.parseName r
  let (fns, r) ← pCounted "FN" AstWire.parseName r
  pure (mkEnv tpls gcomps filters tests fns, r)

def handleRender (ts : List String) : Except String String := do
  let some (main, r) := AstWire.parseName ts | throw "name"
  let some (block, r) := (match r with
    | "B0" :: r => some (none, r)
    | "B1" :: r => (AstWire.parseName r).map fun (b, r) => (some b, r)
    | _ => none : Option (Option String × List String)) | throw "block"
  let some (env, r) := pEnv r | throw "env"
  let some (runs, r) := pCounted "R" (fun ts => do
      let (ctx, r) ← pCounted "X" pBinding ts
      let (glob, r) ← pCounted "G" pBinding r
      pure ((ctx, glob), r)) r | throw "contexts"
  if !r.isEmpty then throw "trailing"
  let one (cg : Ctx × Ctx) : String :=
    match render FUEL env main block cg.1 cg.2 with
    | .ok text => "ok " ++ Wire.hexOfStr text
    | .err e => "err " ++ showRErr e
    | .panic s => "panic " ++ s.replace " " "_"
    | .unmodelled w => "unmodelled " ++ w.replace " " "_"
    | .outOfFuel => "fuel"
  pure (String.intercalate ";" (runs.map one))

/-- index of the first instruction the table leaves unverified (diagnostics only) -/
def firstBad (code : List VEntry) : String :=
  match infer code with
  | none => "infer"
  | some table =>
    match (List.range code.length).find? (fun pc => !verifyAt code table pc) with
    | some pc => toString pc
    | none => "start"

def allChunks (env : Env) : List (String × Chunk) :=
  env.templates.flatMap (fun (n, t) =>
    [("main:" ++ n, t.chunk)]
    ++ t.blockLineage.flatMap (fun (b, l) => l.map fun ch => ("block:" ++ n ++ ":" ++ b, ch))
    ++ t.components.map (fun (cn, (_, ch)) => ("tcomp:" ++ n ++ ":" ++ cn, ch)))
  ++ env.components.map (fun (cn, (_, ch)) => ("comp:" ++ cn, ch))

def handleCheck (ts : List String) : Except String String := do
  let some (env, r) := pEnv ts | throw "env"
  if !r.isEmpty then throw "trailing"
  let chunks := allChunks env
  let bad := chunks.filter fun (_, ch) => !checkChunk env ch
  if bad.isEmpty then pure s!"ok {chunks.length}"
  else pure (s!"fail {chunks.length} {bad.length} " ++
    String.intercalate " " (bad.map fun (id, ch) => id ++ ":" ++ firstBad ch.code))

/-- (p2_vmprops) `check01 <env>`: the static hypotheses of C01 on the real listings
(Model/VmBodyCheck.lean): `c01 <c01StaticCheck t|f> <some chunk applies the `safe` filter t|f>
<chunks> <chunks with a RenderBodyComponent> <chunks refused by bodyCheck> <which of < > " ' occur
in WriteText text: letters of LGQA, or ->`. -/
def handleCheck01 (ts : List String) : Except String String := do
  let some (env, r) := pEnv ts | throw "env"
  if !r.isEmpty then throw "trailing"
  let chunks := allChunks env
  let withBody := chunks.filter fun (_, ch) => ch.code.any fun e => isBodyComp e.1
  let refused := chunks.filter fun (_, ch) => !bodyCheck ch
  let usesSafe := chunks.any fun (_, ch) => ch.code.any fun e =>
    match e.1 with
    | .applyFilter n => n == "safe"
    | _ => false
  let lits : List Char := chunks.flatMap fun (_, ch) => ch.code.flatMap fun e =>
    match e.1 with
    | .writeText t => t
    | _ => []
  let flag (c : Char) (l : Char) : List Char := if lits.contains c then [l] else []
  let letters := flag '<' 'L' ++ flag '>' 'G' ++ flag '"' 'Q' ++ flag '\'' 'A'
  let b (x : Bool) : String := if x then "t" else "f"
  pure s!"c01 {b (c01StaticCheck env)} {b usesSafe} {chunks.length} {withBody.length} {refused.length} {if letters.isEmpty then "-" else String.ofList letters}"

def handle (line : String) : String :=
  match Wire.tokens line with
  | "render" :: rest =>
    match handleRender rest with
    | .ok s => s
    | .error w => "bad-request " ++ w
  | "check" :: rest =>
    match handleCheck rest with
    | .ok s => s
    | .error w => "bad-request " ++ w
  | "check01" :: rest =>
    match handleCheck01 rest with
    | .ok s => s
    | .error w => "bad-request " ++ w
  | _ => "bad-request op"

partial def loop (h : IO.FS.Stream) (out : IO.FS.Stream) : IO Unit := do
  let line ← h.getLine
  if line.isEmpty then return ()
  out.putStrLn (handle line)
  out.flush
  loop h out

def main : IO Unit := do
  let stdin ← IO.getStdin
  let stdout ← IO.getStdout
  loop stdin stdout
