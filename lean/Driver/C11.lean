/-
Line-protocol driver for the C11 model (template graphs).  Requests:
  fin <perm2> <perm3> <set>   → "ok <derived dump>" | "err <class> …"      (finalize_templates)
  fp  <name> <set>            → find_parents for one template
  inc <name> <set>            → check_include_cycles for one template
See Driver/RegWire.lean for <set>.
-/
import Driver.RegWire
open RegWire

def handle (line : String) : String :=
  match tokens line with
  | "fin" :: rest => handleFin rest
  | "render" :: rest => handleRender rest
  | "fp" :: rest => handleWalk "fp" rest
  | "inc" :: rest => handleWalk "inc" rest
  | _ => "bad-request"

partial def loop (h : IO.FS.Stream) (out : IO.FS.Stream) : IO Unit := do
  let line ← h.getLine
  if line.isEmpty then return ()
  out.putStrLn (handle line)
  loop h out

def main : IO Unit := do
  let stdin ← IO.getStdin
  let stdout ← IO.getStdout
  loop stdin stdout
