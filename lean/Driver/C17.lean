/-
Line-protocol driver for the C17 model (Model/Args.lean, Model/Builtins.lean).

Requests (values in the Wire encoding, keyword names as plain identifiers):
  filter <name> <receiver> <n> <k1> <v1> … <kn> <vn>
  test   <name> <receiver> <n> <k1> <v1> …
  fn     <name> <n> <k1> <v1> …
Answers:
  ok <value>      the model defines the result
  ok ?            the model defines that the call succeeds, not the value (Unicode case mapping
                  of non-ASCII text)
  err <class>     invalidarg | outofrange | missingarg | msg
  panic <site>
  skip            outside the model (collection filters of C16, float parsing, float printing,
                  `round` with a non-zero precision)
  unknown         no built-in of that name in the model's tables
-/
import TeraModel.Model.Builtins
import TeraModel.Model.Wire
import TeraModel.Generated.Builtins
open Tera Tera.Args Tera.Builtins

def showErr : BErr → String
  | .invalidArg => "invalidarg" | .outOfRange => "outofrange" | .missingArg => "missingarg" | .msg => "msg"

def showOutcome : Outcome → String
  | .ok v => "ok " ++ Wire.showValue v
  | .err e => "err " ++ showErr e
  | .panic s => "panic " ++ s
  | .unmodelled => "skip"

partial def parseKw : Nat → List String → Option (Kwargs × List String)
  | 0, ts => some ([], ts)
  | n + 1, k :: ts => do
    let (v, r) ← Wire.parseValue ts
    let (rest, r') ← parseKw n r
    pure ((k, v) :: rest, r')
  | _, [] => none

def isAsciiStr (s : List Char) : Bool := s.all fun c => c.toNat < 128

def caseFilters : List String := ["upper", "lower", "capitalize", "title"]

def runFilter (name : String) (v : Value) (kw : Kwargs) : String :=
  match lookup (filterTable asciiParams) name with
  | none => "unknown"
  | some b =>
    let r := b.apply v kw
    match v with
    | .str _ s =>
      if caseFilters.contains name && !isAsciiStr s then
        (match r with | .ok _ => "ok ?" | o => showOutcome o)
      else if name == "float" then "skip"
      else if name == "int" && s.contains '.' then
        (match r with | .err .msg => "skip" | o => showOutcome o)
      else showOutcome r
    | _ => showOutcome r

def handle (line : String) : String :=
  match Wire.tokens line with
  | "filter" :: name :: rest =>
    match Wire.parseValue rest with
    | some (v, n :: rest') =>
      match n.toNat? with
      | some n => match parseKw n rest' with
        | some (kw, []) => runFilter name v kw
        | _ => "bad-kwargs"
      | none => "bad-count"
    | _ => "bad-receiver"
  | "test" :: name :: rest =>
    match Wire.parseValue rest with
    | some (v, n :: rest') =>
      match n.toNat? with
      | some n => match parseKw n rest' with
        | some (kw, []) =>
          match lookup testTable name with
          | some b => showOutcome (b.apply v kw)
          | none => "unknown"
        | _ => "bad-kwargs"
      | none => "bad-count"
    | _ => "bad-receiver"
  | "fn" :: name :: n :: rest =>
    match n.toNat? with
    | some n => match parseKw n rest with
      | some (kw, []) =>
        match lookup (functionTable Generated.Builtins.MAX_RANGE_LEN) name with
        | some b => showOutcome (b.apply .undef kw)
        | none => "unknown"
      | _ => "bad-kwargs"
    | none => "bad-count"
  | _ => "bad-request"

partial def loop (h : IO.FS.Stream) (out : IO.FS.Stream) : IO Unit := do
  let line ← h.getLine
  if line.isEmpty then return ()
  out.putStrLn (handle line)
  loop h out

def main : IO Unit := do
  let stdin ← IO.getStdin
  let stdout ← IO.getStdout
  loop stdin stdout
