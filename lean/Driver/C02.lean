/-
Line-protocol driver for the C02 syntax model.  Requests:
  astrt <template wire>       → "ok <template wire>" after parse + print (wire self test) | "bad-args"
  parse <inloop 0|1> <tok>…   the token stream (wire form of Model/Tok.lean) of a template made of
                              one `{{ expr }}` block → "ok Ns1 Expr <expr wire>" | "err" |
                              "panic <site>" | "fuel" | "unsupported" (not of that shape) | "bad-args"
  spec <S wire>               the reference printer of Spec/Precedence.lean: "<DocWP of canon 0|1> <need> <bneed>
                              <adneed> | <tokens of the documented spelling> | <AST wire the spelling denotes>"
  parsefor <tok>…             same for a template `{% for q in xs %}{{ expr }}{% endfor %}` (expression
                              parsed inside a loop, one nesting level deeper)
-/
import TeraModel.Model.AstWire
import TeraModel.Model.Tok
import TeraModel.Model.ExprParser
import TeraModel.Spec.Precedence
open Tera

/-! ### the reference printer as a service: `spec <S wire>` (see `parseS` for the wire form) -/

def tokWire : Tok → String
  | .content s => "content:" ++ AstWire.hexOfString s
  | .variableStart w => if w then "vs1" else "vs0"
  | .variableEnd w => if w then "ve1" else "ve0"
  | .tagStart w => if w then "ts1" else "ts0"
  | .tagEnd w => if w then "te1" else "te0"
  | .ident s => "id:" ++ AstWire.hexOfString s
  | .str s => "str:" ++ AstWire.hexOfString s
  | .integer n => s!"int:{n}"
  | .float x => "float:" ++ Wire.natHex16 x.toBits
  | .bool b => if b then "bool1" else "bool0"
  | t => match Tok.punct.find? (fun p => p.2 == t) with
    | some (n, _) => n
    | none => "?"

def hexStr (h : String) : Option String := AstWire.stringOfHex h

partial def parseS : List String → Option (Spec.S × List String)
  | [] => none
  | t :: rest =>
    let un (f : Spec.S → Spec.S) := (parseS rest).map (fun (e, r) => (f e, r))
    let bin (f : Spec.S → Spec.S → Spec.S) := do
      let (a, r) ← parseS rest
      let (b, r) ← parseS r
      pure (f a b, r)
    if t == "b0" then some (.bool false, rest) else if t == "b1" then some (.bool true, rest)
    else if t == "absent" then some (.absent, rest)
    else if t == "argnil" then some (.argNil, rest) else if t == "argend" then some (.argEnd, rest)
    else if t == "inil" then some (.itemNil, rest) else if t == "iend" then some (.itemEnd, rest)
    else if t == "enil" then some (.entryNil, rest) else if t == "eend" then some (.entryEnd, rest)
    else if t == "paren" then un .paren
    else if t == "un:Not" then un (.unary .Not) else if t == "un:Minus" then un (.unary .Minus)
    else if t == "notin" then bin .notIn
    else if t == "idx" then bin .index
    else if t == "sub0" then bin (fun a b => .sub a b false)
    else if t == "sub1" then bin (fun a b => .sub a b true)
    else if t == "arr" then un .arr else if t == "map" then un .mapLit
    else if t == "item0" then bin (.itemCons false) else if t == "item1" then bin (.itemCons true)
    else if t == "esp" then bin .entrySpread
    else if t == "tern" then do
      let (c, r) ← parseS rest
      let (a, r) ← parseS r
      let (b, r) ← parseS r
      pure (.ternary c a b, r)
    else if t == "slice" || t == "sslice0" || t == "sslice1" then do
      let (e, r) ← parseS rest
      let (a, r) ← parseS r
      let (b, r) ← parseS r
      let (c, r) ← parseS r
      pure (if t == "slice" then .slice e a b c else .subSlice e a b c (t == "sslice1"), r)
    else if t == "ekv" then
      match rest with
      | k :: r => do
        let key ← (if k == "kb0" then some (Spec.SKey.bool false) else if k == "kb1" then some (.bool true)
          else if let some d := Wire.afterPrefix "ki:" k then d.toInt?.map .int
          else if let some d := Wire.afterPrefix "ks:" k then (hexStr d).map .str else none)
        let (v, r) ← parseS r
        let (es, r) ← parseS r
        pure (.entryKV key v es, r)
      | [] => none
    else if let some d := Wire.afterPrefix "int:" t then d.toInt?.map (fun n => (.int n, rest))
    else if let some d := Wire.afterPrefix "flt:" t then
      (Wire.hexNat d.toList).map (fun n => (.float (F64.ofBits n), rest))
    else if let some d := Wire.afterPrefix "str:" t then (hexStr d).map (fun x => (.str x, rest))
    else if let some d := Wire.afterPrefix "none:" t then (hexStr d).map (fun x => (.noneLit x, rest))
    else if let some d := Wire.afterPrefix "var:" t then (hexStr d).map (fun x => (.var x, rest))
    else if let some d := Wire.afterPrefix "bin:" t then
      match BinaryOperator.ofName d with
      | some op => bin (.binary op)
      | none => none
    else if let some d := Wire.afterPrefix "fil:" t then do
      let n ← hexStr d
      un (fun e => .filter e n)
    else if let some (g, n) := AstWire.flagged "tst" t then un (fun e => .test e n g)
    else if let some (o, n) := AstWire.flagged "attr" t then un (fun e => .attr e n o)
    else if let some d := Wire.afterPrefix "call:" t then do
      let n ← hexStr d
      un (.call n)
    else if let some d := Wire.afterPrefix "filA:" t then do
      let n ← hexStr d
      bin (fun e a => .filterA e n a)
    else if let some (g, n) := AstWire.flagged "tstA" t then bin (fun e a => .testA e n g a)
    else if let some d := Wire.afterPrefix "arg:" t then do
      let n ← hexStr d
      bin (.argCons n)
    else if t == "comp0" || t == "comp1" then do
      let (e, r) ← parseS rest
      let (key, r) ← (if t == "comp1" then (AstWire.parseName r).map (fun (k, r) => (some k, r))
        else some (none, r))
      let (v, r) ← AstWire.parseName r
      let (tg, r) ← parseS r
      let (c, r) ← parseS r
      pure (.comp e key v tg c, r)
    else none

def handle (line : String) : String :=
  match Wire.tokens line with
  | "astrt" :: rest =>
    match AstWire.parseTemplate rest with
    | some (t, []) => "ok " ++ AstWire.showTemplate t
    | _ => "bad-args"
  | "parse" :: inl :: rest =>
    match Tok.ofWireList rest with
    | some toks =>
      match Parser.parseVariableTemplate (Parser.genCfg (inl == "1")) Gen.MAX_RECURSION_DEPTH toks with
      | some (.ok e _) => "ok Ns1 Expr " ++ AstWire.showExpr e
      | some .err => "err"
      | some (.panic m) => "panic " ++ m
      | some .fuel => "fuel"
      | none => "unsupported"
    | none => "bad-args"
  | "parsefor" :: rest =>
    match Tok.ofWireList rest with
    | some toks =>
      match Parser.parseForTemplate (Parser.genCfg true) Gen.MAX_RECURSION_DEPTH toks with
      | some (.ok e _) =>
        "ok Ns1 For O0 " ++ AstWire.showName "q" ++ " " ++ AstWire.showExpr (.var "xs")
          ++ " Ns1 Expr " ++ AstWire.showExpr e ++ " Ns0"
      | some .err => "err"
      | some (.panic m) => "panic " ++ m
      | some .fuel => "fuel"
      | none => "unsupported"
    | none => "bad-args"
  | "spec" :: rest =>
    match parseS rest with
    | some (s, []) =>
      let c := Spec.S.canon Spec.docLevels s
      let wp := if decide (c.DocWP Spec.docLevels) then "1" else "0"
      s!"{wp} {c.need} {c.bneed} {c.adneed} | " ++ " ".intercalate (c.toks.map tokWire) ++ " | "
        ++ AstWire.showExpr s.erase
    | _ => "bad-args"
  | _ => "bad-request"

partial def loop (h : IO.FS.Stream) (out : IO.FS.Stream) : IO Unit := do
  let line ← h.getLine
  if line.isEmpty then return ()
  out.putStrLn (handle line)
  loop h out

def main : IO Unit := do
  let stdin ← IO.getStdin
  let stdout ← IO.getStdout
  loop stdin stdout
