/-
Line-protocol driver for the C02 syntax model.  Requests:
  astrt <template wire>       → "ok <template wire>" after parse + print (wire self test) | "bad-args"
  parse <inloop 0|1> <tok>…   the token stream (wire form of Model/Tok.lean) of a template made of
                              one `{{ expr }}` block → "ok Ns1 Expr <expr wire>" | "err" |
                              "panic <site>" | "fuel" | "unsupported" (not of that shape) | "bad-args"
  parsefor <tok>…             same for a template `{% for q in xs %}{{ expr }}{% endfor %}` (expression
                              parsed inside a loop, one nesting level deeper)
-/
import TeraModel.Model.AstWire
import TeraModel.Model.Tok
import TeraModel.Model.ExprParser
open Tera

def handle (line : String) : String :=
  match Wire.tokens line with
  | "astrt" :: rest =>
    match AstWire.parseTemplate rest with
    | some (t, []) => "ok " ++ AstWire.showTemplate t
    | _ => "bad-args"
  | "parse" :: inl :: rest =>
    match Tok.ofWireList rest with
    | some toks =>
      match Parser.parseVariableTemplate (Parser.genCfg (inl == "1")) Gen.MAX_RECURSION_DEPTH toks with
      | some (.ok e _) => "ok Ns1 Expr " ++ AstWire.showExpr e
      | some .err => "err"
      | some (.panic m) => "panic " ++ m
      | some .fuel => "fuel"
      | none => "unsupported"
    | none => "bad-args"
  | "parsefor" :: rest =>
    match Tok.ofWireList rest with
    | some toks =>
      match Parser.parseForTemplate (Parser.genCfg true) Gen.MAX_RECURSION_DEPTH toks with
      | some (.ok e _) =>
        "ok Ns1 For O0 " ++ AstWire.showName "q" ++ " " ++ AstWire.showExpr (.var "xs")
          ++ " Ns1 Expr " ++ AstWire.showExpr e ++ " Ns0"
      | some .err => "err"
      | some (.panic m) => "panic " ++ m
      | some .fuel => "fuel"
      | none => "unsupported"
    | none => "bad-args"
  | _ => "bad-request"

partial def loop (h : IO.FS.Stream) (out : IO.FS.Stream) : IO Unit := do
  let line ← h.getLine
  if line.isEmpty then return ()
  out.putStrLn (handle line)
  loop h out

def main : IO Unit := do
  let stdin ← IO.getStdin
  let stdout ← IO.getStdout
  loop stdin stdout
