/-
Model driver of C12: the shared lexer / whitespace-filter / delimiter / report-line protocol
(see Driver/LexCommon.lean for the request grammar).
-/
import Driver.LexCommon

def main : IO Unit := LexDrv.run
