/-
Line-protocol driver for the C13 model with SOFT floats (phase 2).  Same requests as Driver/C13:
  arith <op> <a> <b>     op ∈ add sub mul div floordiv mod pow   → "ok <value>" | "err <class>"
  neg <a>                                                         → same
  raw <op> <a> <b>       op ∈ add sub mul div fmod remeuclid diveuclid, both operands floats
                         → "<float>"  the soft-float operation itself, without number.rs in front
                         (reaches the operands number.rs rejects, e.g. zero divisors)
All float arithmetic (`+ - * / // %`, unary minus) is computed by the verified model
`Tera.SoftFloat` (Model/SoftFloat.lean): no hardware `Float` is involved, except for `pow`
(libm `powf`, a parameter of the model).
-/
import TeraModel.Model.SoftFloat
import TeraModel.Model.Wire
open Tera

def toNative (x : F64) : Float := Float.ofBits (UInt64.ofNat x.toBits)
def ofNative (f : Float) : F64 := if f.isNaN then .nan else F64.ofBits f.toBits.toNat

/-- libm `pow` (not modelled). -/
def nativePowf (a b : F64) : F64 := ofNative (Float.pow (toNative a) (toNative b))

def ops : FloatOps := SoftFloat.softOps nativePowf

def showErr : NumErr → String
  | .notNumber => "notnumber" | .operandRange => "operandrange" | .overflow => "overflow"
  | .divZero => "divzero" | .expRange => "exprange"

def showRes : Except NumErr Value → String
  | .ok v => "ok " ++ Wire.showValue v
  | .error e => "err " ++ showErr e

def showOrd : Option Ordering → String
  | some .lt => "lt" | some .eq => "eq" | some .gt => "gt" | none => "none"

def handle (line : String) : String :=
  match Wire.tokens line with
  | "arith" :: op :: rest =>
    match Wire.parseValue rest with
    | some (a, rest') =>
      match Wire.parseValue rest' with
      | some (b, []) =>
        match op with
        | "add" => showRes (add ops a b)
        | "sub" => showRes (sub ops a b)
        | "mul" => showRes (mul ops a b)
        | "div" => showRes (div ops a b)
        | "floordiv" => showRes (floorDiv ops a b)
        | "mod" => showRes (rem ops a b)
        | "pow" => showRes (pow ops a b)
        | _ => "bad-op"
      | _ => "bad-args"
    | none => "bad-args"
  | "neg" :: rest =>
    match Wire.parseValue rest with
    | some (a, []) => showRes (negate ops a)
    | _ => "bad-args"
  | "raw" :: op :: rest =>
    match Wire.parseValue rest with
    | some (.f64 a, rest') =>
      match Wire.parseValue rest' with
      | some (.f64 b, []) =>
        match op with
        | "add" => Wire.showValue (.f64 (SoftFloat.add a b))
        | "sub" => Wire.showValue (.f64 (SoftFloat.sub a b))
        | "mul" => Wire.showValue (.f64 (SoftFloat.mul a b))
        | "div" => Wire.showValue (.f64 (SoftFloat.div a b))
        | "fmod" => Wire.showValue (.f64 (SoftFloat.fmod a b))
        | "remeuclid" => Wire.showValue (.f64 (SoftFloat.remEuclid a b))
        | "diveuclid" => Wire.showValue (.f64 (SoftFloat.divEuclid a b))
        | _ => "bad-op"
      | _ => "bad-args"
    | _ => "bad-args"
  | _ => "bad-request"

partial def loop (h : IO.FS.Stream) (out : IO.FS.Stream) : IO Unit := do
  let line ← h.getLine
  if line.isEmpty then return ()
  out.putStrLn (handle line)
  loop h out

def main : IO Unit := do
  let stdin ← IO.getStdin
  let stdout ← IO.getStdout
  loop stdin stdout
