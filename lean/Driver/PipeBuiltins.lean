/-
Built-in filters / tests / functions, float arithmetic and float printing for the whole-engine
driver (Driver/Pipeline.lean).  This is a COPY of the corresponding part of Driver/Vm.lean (p2_vm;
a driver root cannot be imported by another driver: both define `main`), wrapped in a namespace.
The built-ins themselves are `Tera.Pipeline.BuiltinsM` (Model/PipelineBuiltins.lean: the models of
C17, C16, C15); what they leave open (Unicode case mapping outside its small table, float
parsing, `round` with a precision) answers `unmodelled`.
-/
import TeraModel.Model.Vm
import TeraModel.Model.VmCheck
import TeraModel.Model.Builtins
import TeraModel.Model.AstWire
import TeraModel.Generated.Builtins
import TeraModel.Model.PipelineBuiltins
namespace PipeDrv
open Tera Tera.Vm

def toNative (x : F64) : Float := Float.ofBits (UInt64.ofNat x.toBits)
def ofNative (f : Float) : F64 := if f.isNaN then .nan else F64.ofBits f.toBits.toNat

/-- C `fmod` computed exactly on dyadics (Lean's `Float` has no fmod). -/
def fmodExact (a b : F64) : F64 :=
  match a, b with
  | .fin an am ae, .fin _ bm be =>
    if bm == 0 then .nan
    else
      let e := min ae be
      let X : Int := (if an then -1 else 1) * (am : Int) * (2:Int)^((ae - e).toNat)
      let Y : Int := (bm : Int) * (2:Int)^((be - e).toNat)
      let r := Int.tmod X Y
      .fin an r.natAbs e
  | .fin .., .inf _ => a
  | _, _ => .nan

def nativeOps : FloatOps where
  add a b := ofNative (toNative a + toNative b)
  sub a b := ofNative (toNative a - toNative b)
  mul a b := ofNative (toNative a * toNative b)
  div a b := ofNative (toNative a / toNative b)
  neg a := ofNative (-(toNative a))
  powf a b := ofNative (Float.pow (toNative a) (toNative b))
  remEuclid a b :=
    let r := fmodExact a b
    if F64.lt r ZERO_F then ofNative (toNative r + (toNative b).abs) else r
  divEuclid a b :=
    let qf := toNative a / toNative b
    let q := if qf.isNaN || qf.isInf then qf else (if qf < 0 then qf.ceil else qf.floor)
    let r := fmodExact a b
    if F64.lt r ZERO_F then
      (if F64.gt b ZERO_F then ofNative (q - 1.0) else ofNative (q + 1.0))
    else ofNative q

/-! ### `{:?}` of an f64 -/

/-- smallest `k ≥ from` with `10^k` above `num/den` (strictly, or weakly when `inclusive`) -/
partial def findK (num den : Nat) (inclusive : Bool) (k : Int) : Int :=
  -- compare 10^k with num/den
  let (l, r) : Nat × Nat := if k ≥ 0 then (den * 10 ^ k.toNat, num) else (den, num * 10 ^ (-k).toNat)
  -- l = 10^k * den (scaled), r = num (scaled): continue while 10^k ≤ high (inclusive) / < high
  if (if inclusive then l ≤ r else l < r) then findK num den inclusive (k + 1) else k

partial def genDigits (mant minus plus scale : Nat) (inclusive : Bool) (acc : List Nat) : List Nat × Bool × Bool × Nat :=
  let d := mant / scale
  let mant := mant % scale
  let acc := acc ++ [d]
  let down := if inclusive then mant ≤ minus else mant < minus
  let up := if inclusive then scale ≤ mant + plus else scale < mant + plus
  if down || up then (acc, down, up, mant)
  else genDigits (mant * 10) (minus * 10) (plus * 10) scale inclusive acc

/-- increments the decimal digit string; `none` when it was all nines -/
def roundUpDigits (ds : List Nat) : Option (List Nat) :=
  let rec go : List Nat → List Nat × Bool   -- processes reversed digits; returns (result reversed, carry)
    | [] => ([], true)
    | d :: rest => if d == 9 then let (r, c) := go rest; (0 :: r, c) else ((d + 1) :: rest, false)
  let (r, c) := go ds.reverse
  if c then none else some r.reverse

/-- shortest digits `d1..dn` and exponent `k` with value = 0.d1..dn × 10^k, for finite non-zero -/
def shortest (m : Nat) (e : Int) : List Nat × Int :=
  let inclusive := m % 2 == 0
  let mant0 := m * 4
  let minus0 : Nat := if m == 2 ^ 52 then 1 else 2
  let plus0 : Nat := 2
  let exp := e - 2
  -- value = mant0 * 2^exp = mant/scale
  let (mant, minus, plus, scale) : Nat × Nat × Nat × Nat :=
    if exp ≥ 0 then (mant0 * 2 ^ exp.toNat, minus0 * 2 ^ exp.toNat, plus0 * 2 ^ exp.toNat, 1)
    else (mant0, minus0, plus0, 2 ^ (-exp).toNat)
  let k := findK (mant + plus) scale inclusive (-350)
  -- scale everything so that value = 0.xxx * 10^k: mant/scale/10^k in [0.1, 1): then mult by 10
  let (mant, minus, plus, scale) : Nat × Nat × Nat × Nat :=
    if k ≥ 0 then (mant, minus, plus, scale * 10 ^ k.toNat)
    else (mant * 10 ^ (-k).toNat, minus * 10 ^ (-k).toNat, plus * 10 ^ (-k).toNat, scale)
  let (ds, down, up, rem) := genDigits (mant * 10) (minus * 10) (plus * 10) scale inclusive []
  if up && (!down || rem * 2 ≥ scale) then
    match roundUpDigits ds with
    | some ds' => (ds', k)
    | none => (1 :: ds.map (fun _ => 0), k + 1)   -- 99..9 → 100..0 (Rust keeps the digit count + 1)
  else (ds, k)

def digitChar (d : Nat) : Char := Char.ofNat ('0'.toNat + d)

def fmtF64 (x0 : F64) : List Char :=
  let x := if x0.isNan then x0 else F64.ofBits x0.toBits
  match x with
  | .nan => "NaN".toList
  | .inf neg => (if neg then "-inf" else "inf").toList
  | .fin neg m e =>
    let sign : List Char := if neg then ['-'] else []
    if m == 0 then sign ++ "0.0".toList
    else
      let absBits := x.toBits % 2 ^ 63
      let (ds, k) := shortest m e
      let digits := ds.map digitChar
      if absBits ≥ 0x4341C37937E08000 || absBits < 0x3F1A36E2EB1C432D then
        -- exponential: d[.ddd]e<k-1>
        let expo := k - 1
        let mantissa := match digits with
          | [] => ['0']
          | [d] => [d]
          | d :: rest => d :: '.' :: rest
        sign ++ mantissa ++ ['e'] ++ (if expo < 0 then '-' :: natToDigits expo.natAbs else natToDigits expo.natAbs)
      else if k ≤ 0 then
        sign ++ ['0', '.'] ++ List.replicate (-k).toNat '0' ++ digits
      else if k.toNat < digits.length then
        sign ++ digits.take k.toNat ++ ['.'] ++ digits.drop k.toNat
      else
        sign ++ digits ++ List.replicate (k.toNat - digits.length) '0' ++ ['.', '0']


/-! ### built-ins: the Lean-side instance `Pipeline.BuiltinsM` with the driver's float printer -/
def callFilterImpl := Tera.Pipeline.BuiltinsM.callFilterM fmtF64
def callTestImpl := Tera.Pipeline.BuiltinsM.callTestM
def callFunctionImpl := Tera.Pipeline.BuiltinsM.callFunctionM

end PipeDrv
