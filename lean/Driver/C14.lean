/-
Line-protocol driver for the C14 model (indexing and slicing).  Requests (values in the wire
encoding of Model/Wire.lean; `<opt>` is 0 for `x[..]`, 1 for `x?[..]`):
  idx <opt> <val> <subscript>                 VM arm BinarySubscript / BinarySubscriptOpt
  slice <opt> <val> <start> <stop> <step>     VM arm Slice / SliceOpt (operands as found on the stack)
  len <val>                                   `length` filter
  rev <val>                                   `reverse` filter
  iter <strval>                               items of a `for` loop over a string (char level)
  iterb <hex>                                 same, byte-level iterator model; answer is hex items
  trunc <strval> <n> <endstrval>              `truncate(length=n, end=..)` (char level)
  truncb <hex> <n> <hexend>                   same, byte-level model; answer is hex
  for <val>                                   `{% for ch in x %}..{% else %}..{% endfor %}` over a string, array or bytes:
                                              array of [item, loop.index, loop.index0, loop.first, loop.last,
                                              loop.length] per pass, or ["EMPTY"] when the else branch runs
  forb <hex>                                  the string loop at byte level (iterator with its `remaining`
                                              counter, ForLoop::new, Iterate); items as hex with the loop data
  comp <val>                                  `[ch for ch in x]`
  compidx <val> <subscript>                   `[ch for ch in x][a]`
  compslice <val> <start> <stop> <step>       `[ch for ch in x][a:b:c]` (operands as on the stack)
  complen <val>                               `[ch for ch in x] | length`
  compjoin <strval>                           `[ch for ch in x] | join(sep="|")` for a string x
  pyspec <len> <start> <stop> <step>          Spec/PySlice.lean `select` on [0, 1, .., len-1]; operands are
                                              decimal integers or `None`; answer "ok i,j,.." | "ValueError"
                                              (lets the harness compare the Lean spec with python3 itself)
Answers: "ok <value>" | "err <class>" | "panic <site>" | "fuel".
-/
import TeraModel.Model.Index
import TeraModel.Model.Wire
import TeraModel.Spec.PySlice
open Tera Tera.Index

def showPos : Pos → String
  | .start => "start" | .stop => "stop" | .step => "step"

def showErr : Err → String
  | .recvUndefined => "recv-undefined"
  | .indexUndefined => "index-undefined"
  | .indexNotInteger => "index-notint"
  | .operandUndefined p => showPos p ++ "-undefined"
  | .operandNotInteger p => showPos p ++ "-notint"
  | .stepZero => "step-zero"
  | .notSliceable => "not-sliceable"
  | .mapNotModelled => "map-not-modelled"
  | .noLength => "no-length"
  | .notReversible => "not-reversible"
  | .notIterable => "not-iterable"

def showRes {α : Type} (f : α → String) : Res α → String
  | .ok v => "ok " ++ f v
  | .err e => "err " ++ showErr e
  | .panic s => "panic " ++ s
  | .fuel => "fuel"

def showHexList (xs : List (List Nat)) : String :=
  s!"L{xs.length}" ++ String.join (xs.map fun b => " h:" ++ Wire.bytesHex b)

def parse2 (ts : List String) : Option (Value × Value) :=
  match Wire.parseValue ts with
  | some (a, r) => match Wire.parseValue r with
    | some (b, []) => some (a, b)
    | _ => none
  | none => none

def parse4 (ts : List String) : Option (Value × Value × Value × Value) :=
  match Wire.parseValue ts with
  | some (a, r) => match Wire.parseValue r with
    | some (b, r) => match Wire.parseValue r with
      | some (c, r) => match Wire.parseValue r with
        | some (d, []) => some (a, b, c, d)
        | _ => none
      | none => none
    | none => none
  | none => none

def parseOpt : String → Option Bool
  | "0" => some false
  | "1" => some true
  | _ => none

def rowValue (item : Value) (l : LoopData) : Value :=
  .arr [item, .u64 l.index, .u64 l.index0, .bool l.first, .bool l.last, .u64 l.length]

def forValue (items : List Value) : Res Value :=
  (loopRows items.length).map fun rows =>
    if items.isEmpty then .arr [.str false "EMPTY".toList]
    else .arr ((items.zip rows).map fun (i, l) => rowValue i l)

def showBit (b : Bool) : String := if b then "1" else "0"

def showRowsB (rows : List (List Nat × LoopData)) : String :=
  s!"L{rows.length}" ++ String.join (rows.map fun (b, l) =>
    s!" h:{Wire.bytesHex b}/{l.index}/{l.index0}/{showBit l.first}/{showBit l.last}/{l.length}")

def parseOptInt (t : String) : Option (Option Int) :=
  if t == "None" then some none else t.toInt?.map some

def handle (line : String) : String :=
  match Wire.tokens line with
  | "idx" :: o :: rest =>
    match parseOpt o, parse2 rest with
    | some opt, some (v, s) => showRes Wire.showValue (vmSubscript opt v s)
    | _, _ => "bad-args"
  | "slice" :: o :: rest =>
    match parseOpt o, parse4 rest with
    | some opt, some (v, a, b, c) => showRes Wire.showValue (vmSlice opt v a b c)
    | _, _ => "bad-args"
  | "len" :: rest =>
    match Wire.parseValue rest with
    | some (v, []) => showRes (fun n => s!"u64:{n}") (lengthFilter v)
    | _ => "bad-args"
  | "rev" :: rest =>
    match Wire.parseValue rest with
    | some (v, []) => showRes Wire.showValue (reverse v)
    | _ => "bad-args"
  | "iter" :: rest =>
    match Wire.parseValue rest with
    | some (.str _ s, []) => "ok " ++ Wire.showValue (.arr (iterChars s))
    | _ => "bad-args"
  | "for" :: rest =>
    match Wire.parseValue rest with
    | some (.str _ s, []) => showRes Wire.showValue (forValue (iterChars s))
    | some (.arr xs, []) => showRes Wire.showValue (forValue xs)
    | some (.bytes bs, []) => showRes Wire.showValue (forValue (bs.map Value.u64))
    | _ => "bad-args"
  | "comp" :: rest =>
    match Wire.parseValue rest with
    | some (v, []) => showRes Wire.showValue (identityComprehension v)
    | _ => "bad-args"
  | "compidx" :: rest =>
    match parse2 rest with
    | some (v, i) => showRes Wire.showValue ((identityComprehension v).bind fun l => vmSubscript false l i)
    | none => "bad-args"
  | "compslice" :: rest =>
    match parse4 rest with
    | some (v, a, b, c) => showRes Wire.showValue ((identityComprehension v).bind fun l => vmSlice false l a b c)
    | none => "bad-args"
  | "complen" :: rest =>
    match Wire.parseValue rest with
    | some (v, []) => showRes (fun n => s!"u64:{n}") ((identityComprehension v).bind lengthFilter)
    | _ => "bad-args"
  | "compjoin" :: rest =>
    match Wire.parseValue rest with
    | some (.str k s, []) =>
      showRes Wire.showValue ((identityComprehension (.str k s)).bind fun l =>
        match l with
        | .arr items =>
          let parts : List (List Char) := items.map fun it => match it with | .str _ cs => cs | _ => []
          .ok (.str false ("|".toList.intercalate parts))
        | _ => .err .notIterable)
    | _ => "bad-args"
  | ["forb", h] =>
    match Wire.hexBytes ((h.drop 2).toString.toList) with
    | some bs => showRes showRowsB (strFor bs)
    | none => "bad-args"
  | ["iterb", h] =>
    match Wire.hexBytes ((h.drop 2).toString.toList) with
    | some bs => showRes showHexList (strIterAll bs (bs.length + 1) 0 [])
    | none => "bad-args"
  | ["trunc", v, n, e] =>
    match Wire.parseValue [v], n.toNat?, Wire.parseValue [e] with
    | some (.str _ s, []), some n, some (.str _ es, []) =>
      "ok " ++ Wire.showValue (.str false (truncateChars s n es))
    | _, _, _ => "bad-args"
  | ["truncb", h, n, e] =>
    match Wire.hexBytes ((h.drop 2).toString.toList), n.toNat?, Wire.hexBytes ((e.drop 2).toString.toList) with
    | some bs, some n, some es => showRes (fun b => "h:" ++ Wire.bytesHex b) (truncateBytes bs n es)
    | _, _, _ => "bad-args"
  | ["pyspec", n, a, b, c] =>
    match n.toNat?, parseOptInt a, parseOptInt b, parseOptInt c with
    | some n, some a, some b, some c =>
      match PySlice.select (List.range n) a b c with
      | some r => "ok " ++ String.intercalate "," (r.map toString)
      | none => "ValueError"
    | _, _, _, _ => "bad-args"
  | _ => "bad-request"

partial def loop (h : IO.FS.Stream) (out : IO.FS.Stream) : IO Unit := do
  let line ← h.getLine
  if line.isEmpty then return ()
  out.putStrLn (handle line)
  loop h out

def main : IO Unit := do
  let stdin ← IO.getStdin
  let stdout ← IO.getStdout
  loop stdin stdout
