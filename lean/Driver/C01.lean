/-
Line-protocol driver for the C01 model (SafeFlow).  One request per line:

  render <escaper> <override> <rootAe> <ctx> <prog>

  escaper   html | map:<byte>:<hex replacement>      (custom escaper: that byte ↦ replacement)
  override  - | 0 | 1                                 (`autoescape_override`)
  rootAe    0 | 1                                     (autoescape flag of the rendered template)
  ctx       C<n> then n × (<name> <value>)
  value     U | N | c:<hex text of a scalar> | s:<hex> | S:<hex> | y:<hex lossy text>
            | A<n> v1 … vn | M<n> k:<hex> v1 … k:<hex> vn
  prog      prefix coded, see `parseProg`

  esc <hex>     → ok <hex of escape_html(bytes)> <utf8Valid(in)><utf8Valid(out)>

Answer:  ok <hex of the output bytes> <one tag letter per byte: l e c r>   |   err <class>
-/
import TeraModel.Model.SafeFlow
import TeraModel.Model.Wire
open Tera Tera.SafeFlow

def hexL (s : String) : Option (List Nat) := Wire.hexBytes s.toList

def splitColon (s : String) : List String := s.splitOn ":"

mutual
partial def parseVal : List String → Option (TVal × List String)
  | [] => none
  | t :: rest =>
    if t == "U" then some (.undef, rest)
    else if t == "N" then some (.none, rest)
    else if let some d := Wire.afterPrefix "c:" t then (hexL d).map (fun b => (.scalar b, rest))
    else if let some d := Wire.afterPrefix "s:" t then (hexL d).map (fun b => (.str false (tagAll .raw b), rest))
    else if let some d := Wire.afterPrefix "S:" t then (hexL d).map (fun b => (.str true (tagAll .raw b), rest))
    else if let some d := Wire.afterPrefix "y:" t then (hexL d).map (fun b => (.bytes b, rest))
    else if let some d := Wire.afterPrefix "A" t then
      match d.toNat? with
      | some n => (parseVals n rest).map (fun (vs, r) => (.arr vs, r))
      | none => none
    else if let some d := Wire.afterPrefix "M" t then
      match d.toNat? with
      | some n => (parseEnts n rest).map (fun (es, r) => (.map es, r))
      | none => none
    else none
partial def parseVals : Nat → List String → Option (List TVal × List String)
  | 0, ts => some ([], ts)
  | n+1, ts => do
    let (v, r) ← parseVal ts
    let (vs, r') ← parseVals n r
    pure (v :: vs, r')
partial def parseEnts : Nat → List String → Option (List (List Nat × TVal) × List String)
  | 0, ts => some ([], ts)
  | n+1, ts => do
    match ts with
    | kt :: r =>
      let kd ← Wire.afterPrefix "k:" kt
      let k ← hexL kd
      let (v, r') ← parseVal r
      let (es, r'') ← parseEnts n r'
      pure ((k, v) :: es, r'')
    | [] => none
end

def optInt (s : String) : Option (Option Int) :=
  if s == "_" then some none else s.toInt?.map some

def parseInstr (t : String) : Option Instr :=
  match splitColon t with
  | ["ld", n] => some (.load n)
  | ["sl", h] => (hexL h).map .strLit
  | ["cl", h] => (hexL h).map .scalarLit
  | ["cat"] => some .concat
  | ["ix", i] => i.toInt?.map .index
  | ["at", h] => (hexL h).map .attr
  | ["slc", a, b, c] => do
    let a ← optInt a; let b ← optInt b; let c ← optInt c
    pure (.slice a b c)
  | ["df", h] => (hexL h).map .dflt
  | ["first"] => some .first
  | ["last"] => some .last
  | ["nth", n] => n.toNat?.map .nth
  | ["get", h] => (hexL h).map .getKey
  | ["rev"] => some .reverse
  | ["join", h] => (hexL h).map .join
  | ["fn", "upper"] => some (.strFn .upper)
  | ["fn", "lower"] => some (.strFn .lower)
  | ["fn", "trim"] => some (.strFn .trim)
  | ["fn", "esc"] => some (.strFn .escapeHtml)
  | ["rep", a, b] => do
    let a ← hexL a; let b ← hexL b
    pure (.strFn (.replace a b))
  | ["safe"] => some .markSafe
  | ["arr", n] => n.toNat?.map .buildArr
  | ["map", ks] => do
    let keys ← (if ks == "" then some [] else (ks.splitOn ",").mapM hexL)
    pure (.buildMap keys)
  | ["set", n] => some (.set n)
  | ["cap"] => some .capture
  | ["endcap"] => some .endCapture
  | ["txt", h] => (hexL h).map .writeText
  | ["w"] => some .write
  | _ => none

partial def parseProg : List String → Option (Prog × List String)
  | [] => none
  | t :: rest =>
    if t == "." then some (.done, rest)
    else if let some v := Wire.afterPrefix "for:" t then do
      let (body, r1) ← parseProg rest
      let (k, r2) ← parseProg r1
      pure (.forEach v body k, r2)
    else if let some d := Wire.afterPrefix "comp:" t then
      match splitColon d with
      | [ps, hb] => do
        let params := if ps == "" then [] else ps.splitOn ","
        let (hasBody, body, r0) ← (if hb == "1" then (parseProg rest).map (fun (b, r) => (true, b, r))
                          else if hb == "0" then some (false, Prog.done, rest) else none)
        let (args, r1) ← parseProg r0
        let (defn, r2) ← parseProg r1
        let (k, r3) ← parseProg r2
        pure (.comp hasBody body args params defn k, r3)
      | _ => none
    else if let some d := Wire.afterPrefix "incl:" t then do
      let ae ← (if d == "1" then some true else if d == "0" then some false else none)
      let (tpl, r1) ← parseProg rest
      let (k, r2) ← parseProg r1
      pure (.incl ae tpl k, r2)
    else if t == "super" then do
      let (p, r1) ← parseProg rest
      let (k, r2) ← parseProg r1
      pure (.super p k, r2)
    else if t == "block" then do
      let (p, r1) ← parseProg rest
      let (k, r2) ← parseProg r1
      pure (.block p k, r2)
    else do
      let i ← parseInstr t
      let (k, r) ← parseProg rest
      pure (.op i k, r)

def parseCtx (n : Nat) (ts : List String) : Option (List (String × TVal) × List String) :=
  match n with
  | 0 => some ([], ts)
  | n+1 =>
    match ts with
    | name :: r => do
      let (v, r') ← parseVal r
      let (es, r'') ← parseCtx n r'
      pure ((name, v) :: es, r'')
    | [] => none

/-- the configured escaper the harness uses for its routing stream: the five special characters
become `(lt) (gt) (amp) (q) (a)`, every other byte is copied -/
def parenEscaper (bs : List Nat) : List Nat :=
  bs.flatMap (fun x =>
    if x == 60 then "(lt)".toUTF8.toList.map (·.toNat)
    else if x == 62 then "(gt)".toUTF8.toList.map (·.toNat)
    else if x == 38 then "(amp)".toUTF8.toList.map (·.toNat)
    else if x == 34 then "(q)".toUTF8.toList.map (·.toNat)
    else if x == 39 then "(a)".toUTF8.toList.map (·.toNat)
    else [x])

def parseEscaper (s : String) : Option (List Nat → List Nat) :=
  if s == "html" then some Tera.Escape.escapeHtml
  else if s == "paren" then some parenEscaper
  else match splitColon s with
    | ["map", b, h] => do
      let b ← b.toNat?
      let r ← hexL h
      pure (fun bs => bs.flatMap (fun x => if x == b then r else [x]))
    | _ => none

def tagLetter : Tag → Char
  | .lit => 'l' | .esc => 'e' | .scalar => 'c' | .raw => 'r'

def showErr : Err → String
  | .undefined => "undefined" | .type => "type" | .stuck => "stuck"

def handle (line : String) : String :=
  match Wire.tokens line with
  | "render" :: esc :: ov :: root :: ctxHead :: rest =>
    match parseEscaper esc, Wire.afterPrefix "C" ctxHead with
    | some escape, some nstr =>
      match nstr.toNat? with
      | some n =>
        match parseCtx n rest with
        | some (ctx, r) =>
          match parseProg r with
          | some (p, []) =>
            let override : Option Bool := if ov == "1" then some true else if ov == "0" then some false else none
            if ov != "1" && ov != "0" && ov != "-" then "bad-override" else
            if root != "1" && root != "0" then "bad-root" else
            match render { escape := escape, override := override } (root == "1") p ctx with
            | .ok out => "ok " ++ Wire.bytesHex (erase out) ++ " " ++ String.ofList (out.map (fun tb => tagLetter tb.2))
            | .error e => "err " ++ showErr e
          | _ => "bad-prog"
        | none => "bad-ctx"
      | none => "bad-ctx"
    | _, _ => "bad-request"
  | ["esc", h] =>
    match hexL h with
    | some bs => "ok " ++ Wire.bytesHex (Tera.Escape.escapeHtml bs) ++ " " ++
        (if Tera.Escape.utf8Valid bs then "1" else "0") ++ (if Tera.Escape.utf8Valid (Tera.Escape.escapeHtml bs) then "1" else "0")
    | none => "bad-hex"
  | ["esc"] => "ok  11"
  | _ => "bad-request"

partial def loop (h : IO.FS.Stream) (out : IO.FS.Stream) : IO Unit := do
  let line ← h.getLine
  if line.isEmpty then return ()
  out.putStrLn (handle line)
  loop h out

def main : IO Unit := do
  let stdin ← IO.getStdin
  let stdout ← IO.getStdout
  loop stdin stdout
