/-
Line-protocol driver for the C18 model (Model/Writer.lean).

Request:   run <autoescape 0|1> <block hex | -> <policy> <op> <op> …
  policy:  all            a writer that never refuses (whole buffers)
           trickle        never refuses, one byte per call
           call:<k>       refuses the k-th write call (0-based) and every later one
           zero:<k>       like call:<k> but answers Ok(0) (→ WriteZero)
           bytes:<n>      accepts n bytes in total (partial write), then refuses
  ops (what the generated template executes, see harness/src/bin/c18.rs):
           T:<hex>            WriteText
           V:<hex>:<safe>     `{{ v }}` of a string value (escaped iff autoescape ∧ ¬safe)
           X                  rendering error
           SB( … )            set block then `{{ x }}`
           FS( … )            `{% filter upper %}` section
           INC( … )           include
           BLK:<hex>( … )     RenderBlock (most derived body)
           SUP( … )           `{{ super() }}` (the parent's body)
           CMP( … )           inline component call
           CMPB( … )( … )     component call with body: body ops, definition ops
           BODY               `{{ body }}` inside a component definition
           FOR:<n>( … )       loop body executed n times
Answer:    <ok|io|fail|panic> <calls> <hex of the accepted bytes>
-/
import TeraModel.Model.Writer
import TeraModel.Model.Wire
open Tera Tera.W

inductive Op where
  | text (t : Bytes)
  | var (v : Bytes) (safe : Bool)
  | fail
  | setBlock (body : List Op)
  | filterSec (body : List Op)
  | incl (body : List Op)
  | block (name : String) (body : List Op)
  | sup (body : List Op)
  | comp (body : Option (List Op)) (defn : List Op)
  | bodyVal
  | forLoop (n : Nat) (body : List Op)

/-- `escape_html`: one `write_all` per input byte. -/
def escChunks (bs : Bytes) : List Bytes :=
  bs.map fun b =>
    if b == 38 then "&amp;".toUTF8.toList
    else if b == 60 then "&lt;".toUTF8.toList
    else if b == 62 then "&gt;".toUTF8.toList
    else if b == 34 then "&quot;".toUTF8.toList
    else if b == 39 then "&#39;".toUTF8.toList
    else [b]

def upperAscii (bs : Bytes) : Bytes := bs.map fun b => if 97 ≤ b && b ≤ 122 then b - 32 else b

/-- chunks of `WriteTop` for a string value -/
def valueChunks (ae : Bool) (safe : Bool) (v : Bytes) : List Bytes :=
  if ae && !safe then escChunks v else [v]

mutual
partial def compileOps (ae : Bool) (body : Bytes) : List Op → Prog → Prog
  | [], k => k
  | op :: rest, k => compileOp ae body op (compileOps ae body rest k)

partial def compileOp (ae : Bool) (body : Bytes) : Op → Prog → Prog
  | .text t, k => .write [t] k
  | .var v safe, k => .write (valueChunks ae safe v) k
  | .fail, _ => .fail "render"
  | .setBlock b, k => .capture (compileOps ae body b (.endCapture fun cap => .write [cap] k))
  | .filterSec b, k =>
    .capture (compileOps ae body b (.endCapture fun cap => .write (valueChunks ae false (upperAscii cap)) k))
  | .incl b, k => .incl (compileOps ae body b .halt) k
  | .block name b, k => .renderBlock name (compileOps ae body b .halt) k
  | .sup b, k => .callSuper (compileOps ae body b .halt) fun out => .write [out] k
  | .comp none d, k => .component (compileOps ae [] d .halt) fun out => .write [out] k
  | .comp (some b) d, k =>
    .capture (compileOps ae body b (.endCapture fun cap =>
      .component (compileOps ae cap d .halt) fun out => .write [out] k))
  | .bodyVal, k => .write [body] k
  | .forLoop n b, k => (List.range n).foldr (fun _ acc => compileOps ae body b acc) k
end

def hexB (h : String) : Option Bytes := (Wire.hexBytes h.toList).map (·.map UInt8.ofNat)

mutual
/-- parse ops up to a closing `)` or the end; returns ops and the remaining tokens (after `)`) -/
partial def parseOps : List String → Option (List Op × List String)
  | [] => some ([], [])
  | ")" :: rest => some ([], rest)
  | ts => do
    let (op, r) ← parseOp ts
    let (ops, r') ← parseOps r
    pure (op :: ops, r')

partial def parseOp : List String → Option (Op × List String)
  | [] => none
  | t :: rest =>
    if t == "X" then some (.fail, rest)
    else if t == "BODY" then some (.bodyVal, rest)
    else if t == "SB(" then (parseOps rest).map fun (b, r) => (.setBlock b, r)
    else if t == "FS(" then (parseOps rest).map fun (b, r) => (.filterSec b, r)
    else if t == "INC(" then (parseOps rest).map fun (b, r) => (.incl b, r)
    else if t == "SUP(" then (parseOps rest).map fun (b, r) => (.sup b, r)
    else if t == "CMP(" then (parseOps rest).map fun (b, r) => (.comp none b, r)
    else if t == "CMPB(" then do
      let (b, r) ← parseOps rest
      match r with
      | "(" :: r' =>
        let (d, r'') ← parseOps r'
        pure (.comp (some b) d, r'')
      | _ => none
    else if let some d := Wire.afterPrefix "T:" t then (hexB d).map fun b => (.text b, rest)
    else if let some d := Wire.afterPrefix "V:" t then
      match d.splitOn ":" with
      | [h, s] => (hexB h).map fun b => (.var b (s == "1"), rest)
      | _ => none
    else if let some d := Wire.afterPrefix "BLK:" t then
      if d.endsWith "(" then do
        let nameB ← Wire.strOfHex (d.dropEnd 1).toString
        let (b, r) ← parseOps rest
        pure (.block (String.ofList nameB) b, r)
      else none
    else if let some d := Wire.afterPrefix "FOR:" t then
      if d.endsWith "(" then do
        let n ← (d.dropEnd 1).toString.toNat?
        let (b, r) ← parseOps rest
        pure (.forLoop n b, r)
      else none
    else none
end

def showRes : Res → String
  | .ok => "ok" | .io => "io" | .fail _ => "fail" | .panic _ => "panic"

def bytesHex (bs : Bytes) : String := Wire.bytesHex (bs.map (·.toNat))

def zeroAtCall (k : Nat) : Writer Nat :=
  { write := fun c buf => (c + 1, if c < k then .ok buf.length else .ok 0) }

def answer {σ : Type} (r : Res × Sink σ) : String :=
  s!"{showRes r.1} {r.2.calls} {bytesHex r.2.accepted}"

def handle (line : String) : String :=
  match Wire.tokens line with
  | "run" :: ae :: blk :: policy :: rest =>
    match parseOps rest with
    | some (ops, []) =>
      let p := compileOps (ae == "1") [] ops .halt
      let block : Option (Option String) :=
        if blk == "-" then some none else (Wire.strOfHex blk).map fun n => some (String.ofList n)
      match block with
      | none => "bad-block"
      | some block =>
        if policy == "all" then answer (renderTo (userDev recorder) block p (Sink.fresh ()))
        else if policy == "trickle" then answer (renderTo (userDev trickle) block p (Sink.fresh ()))
        else if let some d := Wire.afterPrefix "call:" policy then
          match d.toNat? with
          | some k => answer (renderTo (userDev (failAtCall k)) block p (Sink.fresh 0))
          | none => "bad-policy"
        else if let some d := Wire.afterPrefix "zero:" policy then
          match d.toNat? with
          | some k => answer (renderTo (userDev (zeroAtCall k)) block p (Sink.fresh 0))
          | none => "bad-policy"
        else if let some d := Wire.afterPrefix "bytes:" policy then
          match d.toNat? with
          | some n => answer (renderTo (userDev acceptBytes) block p (Sink.fresh n))
          | none => "bad-policy"
        else "bad-policy"
    | _ => "bad-program"
  | _ => "bad-request"

partial def loop (h : IO.FS.Stream) (out : IO.FS.Stream) : IO Unit := do
  let line ← h.getLine
  if line.isEmpty then return ()
  out.putStrLn (handle line)
  loop h out

def main : IO Unit := do
  let stdin ← IO.getStdin
  let stdout ← IO.getStdout
  loop stdin stdout
