/-
Line-protocol driver shared by drv_c06 / drv_c08 / drv_c12 (lexer, whitespace filter, delimiter
validation, report line quoting).  Text form = harness/src/lexwire.rs.  Requests:

  lex <raw|filtered> <D> <S>   D = `bs,be,vs,ve,cs,ce` (hex each), S = hex source or `-`
        → `T;T;…;END` | `…;ERR:<class>@<span>` | `…;PANIC:<site>` | `…;FUEL`   (`rejected` if D is not accepted)
  skeleton <D> <S>             → `ok:<hex>` | `err:<what>` | `panic:<site>`
  validate <D>                 → `ok` | `err`
  report <S> <sl> <sc> <el> <ec> <rs> <re>  → `ok:<hex line>:<hex underline>` | `panic:<site>`
  expand <6 numbers> <6 numbers>            → span
-/
import TeraModel.Model.WsFilter
import TeraModel.Model.Report
import TeraModel.Model.Wire
open Tera Tera.Lexer

namespace LexDrv

def hexOf (b : Bytes) : String := Wire.bytesHex b

def parseHexField (s : String) : Option Bytes :=
  if s == "-" then some [] else Wire.hexBytes s.toList

def parseDelims (s : String) : Option Delims :=
  match (s.splitOn ",").map parseHexField with
  | [some bs, some be, some vs, some ve, some cs, some ce] =>
    some { blockStart := bs, blockEnd := be, variableStart := vs, variableEnd := ve,
           commentStart := cs, commentEnd := ce }
  | _ => none

def b01 (b : Bool) : String := if b then "1" else "0"

def showSpan (s : Span) : String :=
  s!"{s.startLine}:{s.startCol}-{s.endLine}:{s.endCol}/{s.rangeStart}-{s.rangeEnd}"

def showTok : Token → String
  | .content s => "CONTENT:" ++ hexOf s
  | .rawContent a s b => s!"RAW:{b01 a}:{hexOf s}:{b01 b}"
  | .variableStart w => "VS:" ++ b01 w
  | .variableEnd w => "VE:" ++ b01 w
  | .tagStart w => "TS:" ++ b01 w
  | .tagEnd w => "TE:" ++ b01 w
  | .comment a b => s!"COMMENT:{b01 a}:{b01 b}"
  | .ident s => "IDENT:" ++ hexOf s
  | .string s => "STRING:" ++ hexOf s
  | .str s => "STRING:" ++ hexOf s
  | .integer v => s!"INT:{v}"
  | .float l => "FLOAT:" ++ hexOf l
  | .bool b => "BOOL:" ++ b01 b
  | .op o => Generated.opDebugName o

def showErrClass : ErrClass → String
  | .invalidFloat => "invalid_float" | .invalidInteger => "invalid_integer"
  | .unclosedString => "unclosed_string" | .stringEos => "string_eos" | .badEscape => "bad_escape"
  | .rawEof => "raw_eof" | .commentUnclosed => "comment_unclosed" | .unexpectedChar => "unexpected_char"

def showEnding : Ending → String
  | .eof => "END"
  | .error e sp => s!"ERR:{showErrClass e}@{showSpan sp}"
  | .panic s => "PANIC:" ++ s
  | .outOfFuel => "FUEL"

def showResult (r : LexResult) : String :=
  String.intercalate ";" (r.tokens.map (fun (t, s) => showTok t ++ "@" ++ showSpan s) ++ [showEnding r.ending])

def nats (xs : List String) : Option (List Nat) := xs.mapM (·.toNat?)

def mkSpan6 : List Nat → Option Span
  | [a, b, c, d, e, f] => some ⟨a, b, c, d, e, f⟩
  | _ => none

def handle (line : String) : String :=
  match Wire.tokens line with
  | ["lex", mode, ds, ss] =>
    match parseDelims ds, parseHexField ss with
    | some d, some src =>
      if !d.accepted then "rejected"
      else if mode == "raw" then showResult (basicTokenize d src)
      else if mode == "filtered" then showResult (WsFilter.tokenize d src)
      else "bad-mode"
    | _, _ => "bad-args"
  | ["skeleton", ds, ss] =>
    match parseDelims ds, parseHexField ss with
    | some d, some src =>
      if !d.accepted then "rejected"
      else
        let r := WsFilter.tokenize d src
        match r.ending with
        | .eof =>
          match WsFilter.skeleton r.tokens with
          | .ok out => "ok:" ++ hexOf out
          | .eoi => "err:structure"
          | .panic s => "panic:" ++ s
        | .error e _ => "err:" ++ showErrClass e
        | .panic s => "panic:" ++ s
        | .outOfFuel => "panic:FUEL"
    | _, _ => "bad-args"
  | ["validate", ds] =>
    match parseDelims ds with
    | some d => if d.accepted then "ok" else "err"
    | none => "bad-args"
  | "report" :: ss :: rest =>
    match parseHexField ss, (nats rest).bind mkSpan6 with
    | some src, some sp =>
      match Report.sourceLocation src sp with
      | .ok (l, u) => s!"ok:{hexOf l}:{hexOf u}"
      | .panic s => "panic:" ++ s
    | _, _ => "bad-args"
  | "expand" :: rest =>
    match nats rest with
    | some [a, b, c, d, e, f, a', b', c', d', e', f'] =>
      showSpan (Span.expand ⟨a, b, c, d, e, f⟩ ⟨a', b', c', d', e', f'⟩)
    | _ => "bad-args"
  | _ => "bad-request"

partial def loop (h : IO.FS.Stream) (out : IO.FS.Stream) : IO Unit := do
  let line ← h.getLine
  if line.isEmpty then return ()
  out.putStrLn (handle line)
  loop h out

def run : IO Unit := do
  let stdin ← IO.getStdin
  let stdout ← IO.getStdout
  loop stdin stdout

end LexDrv
