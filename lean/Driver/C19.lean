/-
Line-protocol driver for the C19 model (serde bridge).  Requests:
  ser <SVal>            → "ok <Value>" | "err badkey"          Value::from_serializable
  rt <STy> <SVal>       → "ok <SVal>" | "err badkey" | "err de" T::deserialize(from_serializable(x))
  de <STy> <Value>      → "ok <SVal>" | "err de"               T::deserialize(value)
  fmt <nf> <bits>=<hex>… <ns> <hexstr>=<hexdbg>… <Value>   → "ok <hex>"   `{{ v }}`
  ctx <SVal>            → "ok <n> <hexkey> <Value> …" | "err"  Context::from_serialize
  reser <Value>         → "ok <Value>" | "err badkey"          Value::from_serializable(&value)
  arg <ty> <Value>      → "ok <SVal>" | "err type" | "err range"  T::try_from(value) / Kwargs::get::<T>

Wire form of types:  bool i8 … u128 f32 f64 char string unit cstring unitstruct
  option T | seq T | tuple <n> T… | map K V | struct <n> (<hexname> T)… | newtype T
  enum <n> (<hexname> <unit|newtype|tuple|struct> T)…
Wire form of values: b0 b1 | i:<ty>:<dec> | f32:<8 hex> | f64:<16 hex> | c:<hex code point> |
  s:<hex utf8> | unit | cs:<hex> | none | some V | seq <n> V… | tuple <n> V… | map <n> (K V)… |
  struct <n> (<hexname> V)… | newtype V | unitstruct | variant <hexname> <kind> V
Maps are printed with their entries sorted by the text of the key (both sides do the same).
-/
import TeraModel.Model.Serde
import TeraModel.Model.Wire
open Tera Tera.Serde

def toNative (x : F64) : Float := Float.ofBits (UInt64.ofNat x.toBits)
def ofNative (f : Float) : F64 := if f.isNaN then .nan else F64.ofBits f.toBits.toNat

def casts : FloatCasts where
  f64to32 x := ofNative (toNative x).toFloat32.toFloat
  intTo32 n := ofNative (Float32.ofInt n).toFloat

def hexName (t : String) : Option Name :=
  if t == "-" then some [] else Wire.strOfHex t

def showName (n : Name) : String := if n.isEmpty then "-" else Wire.hexOfStr n

def parseIntTy (t : String) : Option IntTy :=
  match t with
  | "i8" => some .i8 | "i16" => some .i16 | "i32" => some .i32 | "i64" => some .i64 | "i128" => some .i128
  | "u8" => some .u8 | "u16" => some .u16 | "u32" => some .u32 | "u64" => some .u64 | "u128" => some .u128
  | _ => none

def showIntTy : IntTy → String
  | .i8 => "i8" | .i16 => "i16" | .i32 => "i32" | .i64 => "i64" | .i128 => "i128"
  | .u8 => "u8" | .u16 => "u16" | .u32 => "u32" | .u64 => "u64" | .u128 => "u128"

def parseKind (t : String) : Option VKind :=
  match t with
  | "unit" => some .unit | "newtype" => some .newtype | "tuple" => some .tuple | "struct" => some .struct
  | _ => none

def showKind : VKind → String
  | .unit => "unit" | .newtype => "newtype" | .tuple => "tuple" | .struct => "struct"

mutual
partial def parseTy : List String → Option (STy × List String)
  | [] => none
  | t :: rest =>
    match t with
    | "bool" => some (.bool, rest) | "f32" => some (.f32, rest) | "f64" => some (.f64, rest)
    | "char" => some (.char, rest) | "string" => some (.string, rest) | "unit" => some (.unit, rest)
    | "cstring" => some (.cstring, rest) | "unitstruct" => some (.unitStruct, rest)
    | "option" => (parseTy rest).map fun (a, r) => (.option a, r)
    | "seq" => (parseTy rest).map fun (a, r) => (.seq a, r)
    | "newtype" => (parseTy rest).map fun (a, r) => (.newtype a, r)
    | "map" => do
      let (k, r) ← parseTy rest
      let (v, r') ← parseTy r
      pure (.map k v, r')
    | "tuple" =>
      match rest with
      | n :: r => do let (ts, r') ← parseTys (← n.toNat?) r; pure (.tuple ts, r')
      | [] => none
    | "struct" =>
      match rest with
      | n :: r => do let (fs, r') ← parseFieldTys (← n.toNat?) r; pure (.struct fs, r')
      | [] => none
    | "enum" =>
      match rest with
      | n :: r => do let (vs, r') ← parseVariantTys (← n.toNat?) r; pure (.enum vs, r')
      | [] => none
    | _ => (parseIntTy t).map fun it => (.int it, rest)

partial def parseTys : Nat → List String → Option (List STy × List String)
  | 0, ts => some ([], ts)
  | n+1, ts => do
    let (a, r) ← parseTy ts
    let (as, r') ← parseTys n r
    pure (a :: as, r')

partial def parseFieldTys : Nat → List String → Option (List (Name × STy) × List String)
  | 0, ts => some ([], ts)
  | n+1, name :: ts => do
    let nm ← hexName name
    let (a, r) ← parseTy ts
    let (as, r') ← parseFieldTys n r
    pure ((nm, a) :: as, r')
  | _, [] => none

partial def parseVariantTys : Nat → List String → Option (List (Name × VKind × STy) × List String)
  | 0, ts => some ([], ts)
  | n+1, name :: kind :: ts => do
    let nm ← hexName name
    let k ← parseKind kind
    let (a, r) ← parseTy ts
    let (as, r') ← parseVariantTys n r
    pure ((nm, k, a) :: as, r')
  | _, _ => none
end

/-- exact value of an f32 bit pattern -/
def f32OfBits (b : Nat) : F64 :=
  let f := (Float32.ofBits (UInt32.ofNat b)).toFloat
  ofNative f

def f32Bits (x : F64) : Nat := ((toNative x).toFloat32.toBits).toNat

mutual
partial def parseVal : List String → Option (SVal × List String)
  | [] => none
  | t :: rest =>
    if t == "b0" then some (.bool false, rest)
    else if t == "b1" then some (.bool true, rest)
    else if t == "unit" then some (.unit, rest)
    else if t == "none" then some (.none, rest)
    else if t == "unitstruct" then some (.unitStruct, rest)
    else if t == "some" then (parseVal rest).map fun (a, r) => (.some a, r)
    else if t == "newtype" then (parseVal rest).map fun (a, r) => (.newtype a, r)
    else if t == "seq" then
      match rest with
      | n :: r => do let (xs, r') ← parseVals (← n.toNat?) r; pure (.seq xs, r')
      | [] => none
    else if t == "tuple" then
      match rest with
      | n :: r => do let (xs, r') ← parseVals (← n.toNat?) r; pure (.tuple xs, r')
      | [] => none
    else if t == "map" then
      match rest with
      | n :: r => do let (xs, r') ← parseVals (2 * (← n.toNat?)) r; pure (.map (pairUp xs), r')
      | [] => none
    else if t == "struct" then
      match rest with
      | n :: r => do let (fs, r') ← parseFieldVals (← n.toNat?) r; pure (.struct fs, r')
      | [] => none
    else if t == "variant" then
      match rest with
      | name :: kind :: r => do
        let nm ← hexName name
        let k ← parseKind kind
        let (p, r') ← parseVal r
        pure (.variant nm k p, r')
      | _ => none
    else if let some d := Wire.afterPrefix "i:" t then
      match d.splitOn ":" with
      | [ty, n] => do pure (.int (← parseIntTy ty) (← n.toInt?), rest)
      | _ => none
    else if let some d := Wire.afterPrefix "f32:" t then (Wire.hexNat d.toList).map fun b => (.f32 (f32OfBits b), rest)
    else if let some d := Wire.afterPrefix "f64:" t then (Wire.hexNat d.toList).map fun b => (.f64 (F64.ofBits b), rest)
    else if let some d := Wire.afterPrefix "cs:" t then (Wire.hexBytes d.toList).map fun b => (.cstring b, rest)
    else if let some d := Wire.afterPrefix "c:" t then (Wire.hexNat d.toList).map fun n => (.char (Char.ofNat n), rest)
    else if let some d := Wire.afterPrefix "s:" t then (Wire.strOfHex d).map fun s => (.str s, rest)
    else none

partial def parseVals : Nat → List String → Option (List SVal × List String)
  | 0, ts => some ([], ts)
  | n+1, ts => do
    let (a, r) ← parseVal ts
    let (as, r') ← parseVals n r
    pure (a :: as, r')

partial def pairUp : List SVal → List (SVal × SVal)
  | a :: b :: rest => (a, b) :: pairUp rest
  | _ => []

partial def parseFieldVals : Nat → List String → Option (List (Name × SVal) × List String)
  | 0, ts => some ([], ts)
  | n+1, name :: ts => do
    let nm ← hexName name
    let (a, r) ← parseVal ts
    let (as, r') ← parseFieldVals n r
    pure ((nm, a) :: as, r')
  | _, [] => none
end

def natHex8 (n : Nat) : String :=
  String.ofList ((List.range 8).reverse.map fun i => Wire.hexDigit ((n / 16^i) % 16))

partial def insertSorted (x : String × String) : List (String × String) → List (String × String)
  | [] => [x]
  | y :: ys => if x.1 ≤ y.1 then x :: y :: ys else y :: insertSorted x ys

mutual
partial def showVal : SVal → String
  | .bool b => if b then "b1" else "b0"
  | .int t n => s!"i:{showIntTy t}:{n}"
  | .f32 x => "f32:" ++ natHex8 (if x.isNan then 0x7fc00000 else f32Bits x)
  | .f64 x => "f64:" ++ Wire.natHex16 x.toBits
  | .char c => "c:" ++ String.ofList (Nat.toDigits 16 c.toNat)
  | .str s => "s:" ++ Wire.hexOfStr s
  | .unit => "unit"
  | .cstring bs => "cs:" ++ Wire.bytesHex bs
  | .none => "none"
  | .some v => "some " ++ showVal v
  | .seq xs => s!"seq {xs.length}" ++ String.join (xs.map fun v => " " ++ showVal v)
  | .tuple xs => s!"tuple {xs.length}" ++ String.join (xs.map fun v => " " ++ showVal v)
  | .map es =>
    let shown := es.map fun (k, v) => (showVal k, showVal v)
    let sorted := shown.foldl (fun acc e => insertSorted e acc) []
    s!"map {es.length}" ++ String.join (sorted.map fun (k, v) => " " ++ k ++ " " ++ v)
  | .struct fs => s!"struct {fs.length}" ++ String.join (fs.map fun (n, v) => " " ++ showName n ++ " " ++ showVal v)
  | .newtype v => "newtype " ++ showVal v
  | .unitStruct => "unitstruct"
  | .variant n k p => "variant " ++ showName n ++ " " ++ showKind k ++ " " ++ showVal p
end

/-- maps in `Key` order at every level, as harness/src/wire.rs prints them -/
partial def canonValue : Value → Value
  | .arr xs => .arr (xs.map canonValue)
  | .map es => .map (sortEntries (es.map fun (k, v) => (k, canonValue v)))
  | v => v

def parsePairs (n : Nat) (ts : List String) : Option (List (String × List Char) × List String) :=
  match n, ts with
  | 0, ts => some ([], ts)
  | n+1, t :: rest =>
    match t.splitOn "=" with
    | [k, v] =>
      match (if v == "-" then some [] else Wire.strOfHex v), parsePairs n rest with
      | some vv, some (ps, r) => some ((k, vv) :: ps, r)
      | _, _ => none
    | _ => none
  | _, [] => none

def handle (line : String) : String :=
  match Wire.tokens line with
  | "ser" :: rest =>
    match parseVal rest with
    | some (v, []) =>
      match ser v with
      | .ok x => "ok " ++ Wire.showValue (canonValue x)
      | .error _ => "err badkey"
    | _ => "bad-args"
  | "rt" :: rest =>
    match parseTy rest with
    | some (t, rest') =>
      match parseVal rest' with
      | some (v, []) =>
        match ser v with
        | .error _ => "err badkey"
        | .ok x =>
          match de casts t x with
          | .ok y => "ok " ++ showVal y
          | .error _ => "err de"
      | _ => "bad-value"
    | none => "bad-type"
  | "de" :: rest =>
    match parseTy rest with
    | some (t, rest') =>
      match Wire.parseValue rest' with
      | some (x, []) =>
        match de casts t x with
        | .ok y => "ok " ++ showVal y
        | .error _ => "err de"
      | _ => "bad-value"
    | none => "bad-type"
  | "fmt" :: nf :: rest =>
    match nf.toNat? with
    | some nf =>
      match parsePairs nf rest with
      | some (fl, ns :: rest') =>
        match ns.toNat? with
        | some ns =>
          match parsePairs ns rest' with
          | some (st, rest'') =>
            match Wire.parseValue rest'' with
            | some (x, []) =>
              let P : FmtParams := {
                strDebug := fun s => ((st.find? (·.1 == (if s.isEmpty then "-" else Wire.hexOfStr s))).map (·.2)).getD ['?'],
                floatDebug := fun f => ((fl.find? (·.1 == Wire.natHex16 f.toBits)).map (·.2)).getD ['?'],
                lossy := fun _ => ['?'] }
              let out := fmtValue P x
              "ok " ++ (if out.isEmpty then "-" else Wire.hexOfStr out)
            | _ => "bad-value"
          | none => "bad-args"
        | none => "bad-args"
      | _ => "bad-args"
    | none => "bad-args"
  | "arg" :: ty :: rest =>
    match Wire.parseValue rest with
    | some (x, []) =>
      let r : Option (Except ArgErr SVal) :=
        if ty == "f32" then some (argF32 casts x)
        else if ty == "f64" then some (argF64 x)
        else if ty == "bool" then some (argBool x)
        else (parseIntTy ty).map fun t => argInt t x
      match r with
      | some (.ok y) => "ok " ++ showVal y
      | some (.error .invalidType) => "err type"
      | some (.error .outOfRange) => "err range"
      | none => "bad-type"
    | _ => "bad-value"
  | "reser" :: rest =>
    match Wire.parseValue rest with
    | some (x, []) =>
      match ser (valueSer x) with
      | .ok y => "ok " ++ Wire.showValue (canonValue y)
      | .error _ => "err badkey"
    | _ => "bad-value"
  | "ctx" :: rest =>
    match parseVal rest with
    | some (v, []) =>
      match ctxFromSerialize v with
      | some c =>
        let shown := c.map fun (k, x) => (showName k, Wire.showValue (canonValue x))
        let sorted := shown.foldl (fun acc e => insertSorted e acc) []
        s!"ok {c.length}" ++ String.join (sorted.map fun (k, x) => " " ++ k ++ " " ++ x)
      | none => "err"
    | _ => "bad-args"
  | _ => "bad-request"

partial def loop (h : IO.FS.Stream) (out : IO.FS.Stream) : IO Unit := do
  let line ← h.getLine
  if line.isEmpty then return ()
  out.putStrLn (handle line)
  loop h out

def main : IO Unit := do
  let stdin ← IO.getStdin
  let stdout ← IO.getStdout
  loop stdin stdout
