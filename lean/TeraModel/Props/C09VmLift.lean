/-
C09VmLift: the run-preservation theorems of Props/C09Vm.lean / Props/C09VmErr.lean WITHOUT the
assumption on nested `interpret` calls, at EVERY nesting depth, for chunks that hold no
`RenderBlock` and no `super()` call (the two instructions that enter another chunk with the
caller's whole state).  `Include` and component calls are covered: their callee starts on a fresh
state (chained to the includer's scope for reads / holding the bound arguments) and only the text
it writes is used, so what is needed of the nested interpreter is

* component call: nothing (the same call on both sides);
* `Include`: that a run does not depend on the `end_ip`s of the loops in the include parent chain
  (the optimised includer hands down its scope with renumbered `end_ip`s) — `run_parent_insensitive`,
  proved for EVERY chunk by induction on the nesting fuel from the per-instruction lemma with the
  identity renaming (Lemmas/OptimizeSimVmParent.lean).

Setting as in C09Vm: ONE environment on both sides (the nested chunks are whatever the environment
holds — e.g. all stored, optimised chunks — and are the same for the two runs); the chunk under
study is run unoptimised and optimised.  The two-environment statement `optimize_preserves_render`
stays a named proposition (Props/C09Vm.lean, with the list of what its proof needs).
-/
import TeraModel.Props.C09VmErr
import TeraModel.Lemmas.OptimizeSimVmParent
namespace Tera.C09Vm
open Tera Tera.Optimize Tera.OptimizeVWF Tera.OptimizeWF Tera.OptimizeSimVm Tera.ChunkVm

/-- the chunk holds no `RenderBlock` and no `CallFunction("super")` -/
def NoBlockCalls (code : List Vm.VEntry) : Prop := ∀ e ∈ code, isBlockCall e.1 = false

/-- `run_parent_insensitive`: for every chunk, environment, fuel and state, mapping the scopes of
the include parent chain by any map that keeps the value of every name (`PMap`; in particular
renumbering the `end_ip` of their loops) does not change the outcome: same result kind, same
error, and the final state is the original's with the same map applied. -/
theorem run_parent_insensitive (fuel : Vm.Fuel) (env : Vm.Env) (vm : Vm.VmCtx) (ch : Vm.Chunk)
    (π : PMap) (s : Vm.State) :
    RunRelG Eq π ch ch id Eq (Vm.run fuel env vm ch s) (Vm.run fuel env vm ch (mapStateP id π s)) :=
  interp_parent env fuel.steps fuel.depth π vm ch s

/-- the `Include` / component half of `NestedOKE` holds for `Vm.interp`, unconditionally -/
theorem nested_fresh_ok (env : Vm.Env) (steps d : Nat) (c : List Entry) (C C' : Vm.Chunk) :
    FreshOK errClassRel idP (Vm.interp env steps d) (Vm.interp env steps d) C C' (imapFn c) (PcRel c) :=
  freshOK_interp env errClassRel_refl steps d idP C C' _ _

section chunk
variable (dec : Instr → Option Vm.VInstr) (hD : DecOK dec) (c c' : List Entry)
  (code code' : List Vm.VEntry) (name : String)
  (hT : C09.TargetsInRange c) (hS : PathVm.PathSpans c) (hO : OtherNoTarget dec c)
  (hdec : c.mapM (fun e => (dec e.1).map (·, e.2)) = some code)
  (hopt : optimize c = .ok c')
  (hdec' : c'.mapM (fun e => (dec e.1).map (·, e.2)) = some code')
  (hnb : NoBlockCalls code)
include hD hT hS hO hdec hopt hdec' hnb

/-- `optimize_preserves_run_noblocks`: one `interpret` call, ANY fuel (any nesting depth), no
assumption on nested calls; outcome with the error class. -/
theorem optimize_preserves_run_noblocks (fuel : Vm.Fuel) (env : Vm.Env) (vm : Vm.VmCtx) (st : Vm.State)
    (hst : GoodState c ⟨name, code⟩ ⟨name, code'⟩ st)
    (hne : Vm.run fuel env vm ⟨name, code⟩ st ≠ .outOfFuel) :
    SameOutcomeE c ⟨name, code⟩ ⟨name, code'⟩ (Vm.run fuel env vm ⟨name, code⟩ st)
      (Vm.run fuel env vm ⟨name, code'⟩ (renameState c st)) := by
  obtain ⟨depth, steps⟩ := fuel
  cases depth with
  | zero => exact absurd rfl hne
  | succ d =>
    simp only [Vm.run, Vm.interp] at hne ⊢
    have hc' : c' = optCode c := C09.optimize_ok c c' hopt
    subst hc'
    have hd := decoded_of_mapM dec c code hdec
    have hd' := decoded_of_mapM dec _ code' hdec'
    obtain ⟨m, hm, hrr⟩ := sim_forwardG dec hD c hT hS hO ⟨name, code⟩ ⟨name, code'⟩ rfl hd hd' (π := idP)
      errClassRel_refl (fun _ _ => errClassRel_undef) env vm
      (nested_fresh_ok env steps d c _ _)
      (fun ⟨e, he, hb⟩ => by rw [hnb e he] at hb; cases hb)
      steps 0 0 st (PcRel_zero c) hst hne
    rw [mapStateP_id] at hrr
    have hne' : Vm.runLoop (Vm.interp env steps d) env vm ⟨name, code'⟩ m 0 (renameState c st) ≠ .outOfFuel := by
      intro h
      rw [h] at hrr
      revert hrr hne
      cases Vm.runLoop (Vm.interp env steps d) env vm ⟨name, code⟩ steps 0 st <;> intro hne hrr <;>
        first | exact hrr.elim | exact hne rfl
    rw [runLoop_mono _ env vm ⟨name, code'⟩ m 0 _ hne' steps hm]
    exact hrr

/-- the same with the coarser outcome relation of Props/C09Vm.lean -/
theorem optimize_preserves_run_noblocks' (fuel : Vm.Fuel) (env : Vm.Env) (vm : Vm.VmCtx) (st : Vm.State)
    (hst : GoodState c ⟨name, code⟩ ⟨name, code'⟩ st)
    (hne : Vm.run fuel env vm ⟨name, code⟩ st ≠ .outOfFuel) :
    SameOutcome c ⟨name, code⟩ ⟨name, code'⟩ (Vm.run fuel env vm ⟨name, code⟩ st)
      (Vm.run fuel env vm ⟨name, code'⟩ (renameState c st)) :=
  sameOutcomeE_weaken
    (optimize_preserves_run_noblocks dec hD c c' code code' name hT hS hO hdec hopt hdec' hnb fuel env vm st hst hne)

/-- `optimize_preserves_output_noblocks`: entry states (empty stack, no open loop), the SAME start
state on both sides, any fuel, no assumption on nested calls: same output text (and capture
buffers, block buffer, block stack), or both a rendering error of the same class, or both a panic,
or both outside the model. -/
theorem optimize_preserves_output_noblocks (fuel : Vm.Fuel) (env : Vm.Env) (vm : Vm.VmCtx) (st : Vm.State)
    (h1 : st.stack = []) (h2 : st.scope.forLoops = [])
    (hne : Vm.run fuel env vm ⟨name, code⟩ st ≠ .outOfFuel) :
    match Vm.run fuel env vm ⟨name, code⟩ st, Vm.run fuel env vm ⟨name, code'⟩ st with
    | .done a, .done b => b.out = a.out ∧ b.captures = a.captures ∧ b.blockBuffer = a.blockBuffer ∧
        b.blocks = a.blocks
    | .err e, .err e' => errClassRel e e'
    | .panic _, .panic _ => True
    | .unmodelled _, .unmodelled _ => True
    | _, _ => False := by
  obtain ⟨he, hg⟩ := renameState_entry c ⟨name, code⟩ ⟨name, code'⟩ st h1 h2
  have h := optimize_preserves_run_noblocks dec hD c c' code code' name hT hS hO hdec hopt hdec' hnb fuel env
    vm st hg hne
  rw [he] at h
  revert h hne
  cases Vm.run fuel env vm ⟨name, code⟩ st <;> cases Vm.run fuel env vm ⟨name, code'⟩ st <;>
    intro hne h <;> first | exact h.elim | exact True.intro | exact absurd rfl hne | skip
  · rename_i a b
    obtain ⟨h1, h2, h3, h4, _, _⟩ := sameOutcome_done c _ _ a b (RunRelG.weaken h)
    exact ⟨h1, h2, h3, h4⟩
  · exact h

end chunk

/-- With block calls: `NestedOKE` for `Vm.interp` reduces to its block half alone. -/
theorem nestedOKE_of_block (env : Vm.Env) (steps d : Nat) (c : List Entry) (C C' : Vm.Chunk)
    (hbl : BlockOK errClassRel idP (Vm.interp env steps d) (Vm.interp env steps d) C C' (imapFn c) (PcRel c)) :
    NestedOKE c C C' (Vm.interp env steps d) (Vm.interp env steps d) :=
  ⟨hbl, (nested_fresh_ok env steps d c C C').incl⟩

/-- the new hypothesis is satisfiable together with the others: the `for` chunk of Props/C09WF.lean
(see the example in Props/C09Vm.lean) decodes to a code without block calls -/
example : (match C09WF.exC.mapM (fun e => ((Vm.decodeWith (fun _ => none)) e.1).map (·, e.2)) with
    | some code => code.all (fun e => !isBlockCall e.1)
    | none => false) = true := by decide

end Tera.C09Vm
