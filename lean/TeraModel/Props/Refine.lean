/-
Compiler correctness: running the model COMPILER's output (Model/Compiler.lean `exprCode`,
`nodeCode`) on the model VM (Model/Vm.lean `runLoop`) computes what the AST-level EVALUATOR
(Model/Eval.lean `evalExpr`, `execNode`) computes.  This links two stage models of DESIGN §10.3
BY PROOF (each of them is tied to the real stage by its own correspondence harness: c07c / cvm /
c03).

What is related, and how
* Code: `exprCode base loop e` is the instruction list `compile_expr(e)` appends when the chunk
  already holds `base` instructions; jump operands are absolute and computed from `base`.  The
  chunk the VM runs is typed (`Vm.VInstr` with span lists); the typed image of a compiled
  instruction is the pipeline adapter `Pipeline.vinstr` (Model/Pipeline.lean), a span list is
  non-empty exactly when the compiler added the instruction with a span (`CodeAt`, `embed`).
  The theorems are about UNOPTIMISED code (C09 is the bridge over `Chunk::optimize`).
* Scopes: the evaluator's `Scope` and the VM state's `scope` field are the same type
  (Model/Scope.lean).  The correspondence `ScopeRel` (= `ScopeSim`, Lemmas/RefineScope.lean) is
  equality of `set` variables, context and global context, equality of the loop stack UP TO the
  `end_ip` each loop recorded (the VM records the operand of `Iterate`, the evaluator a constant;
  both are zero before the first `Iterate` and non-zero after), and the same relation between the
  includer scopes.  `StRel` adds output and capture stack for statements.
* Values: the stack relation is "same values, any span ranges": the theorem says the VM ends in
  `st.push v rg` for SOME range `rg` (of which it only promises `SpanOk`: both ends carry a span).
* Errors: classes, `errMatch` (Lemmas/RefineInstr.lean); the evaluator's `fuel` and `unsupported`
  outcomes are not errors of the engine and are excluded (`reportable`).
* Fuel: `runLoop (n + k) … = runLoop k …`: `n` steps are used; on the loop-free core (`lf = true`)
  `n ≤ |code|`.  Expressions and statements other than `include` never call the nested
  interpreter, so the equation holds for EVERY nested interpreter `rec`; with `include` it holds
  for the real one, `Vm.interp`, with any step fuel `≥ N` and nesting fuel `≥ D` (`RunI.adequate`).
* Environment: both models leave float arithmetic and float printing open; they must be given
  the same ones (`EnvRel`); the VM's tables of built-in filters / tests / functions must return
  what the evaluator's fixed table returns (`BuiltinsRel`; `venvOf`: it is satisfiable).  An error
  report must be possible at all (`reportTargetOk`: the chunk's template is the VM's or is
  registered — Props/C07Vm.lean has the same hypothesis).
-/
import TeraModel.Lemmas.RefineDomain
import TeraModel.Lemmas.EvalFuel
namespace Tera.Refine
open Tera Tera.Vm Tera.Compiler

/-! ## The correspondence between evaluator scopes / states and VM states -/

/-- The VM state `st` reads names the way the evaluator scope `sc` does: `set` variables,
includer chain, context and global context are literally the evaluator's, and so is the loop
stack except for the `end_ip` a loop recorded (see `ScopeSim`). -/
def ScopeRel (st : State) (sc : Scope) : Prop := ScopeSim sc st.scope

/-- … and for statements: corresponding scope, same output so far, same capture stack. -/
def StRel (st : State) (est : Tera.St) : Prop := StSim est st

/-- name resolution cannot tell corresponding scopes apart -/
theorem ScopeRel.getValue {st : State} {sc : Scope} (h : ScopeRel st sc) (n : String) :
    sc.getValue n = st.scope.getValue n := ScopeSim.getValue h n

/-- non-vacuity: the state `Tera::render` starts the VM in corresponds to the scope the
evaluator's `render` starts from, for every context -/
example (ctx g : Ctx) : ScopeRel (entryState none ctx g) (Scope.root ctx g) := ScopeSim.refl _
example (ctx g : Ctx) :
    StRel (entryState none ctx g) { scope := Scope.root ctx g, out := [], captures := [] } :=
  ⟨ScopeSim.refl _, rfl, rfl⟩
/-- inside a loop the two scopes differ (in `endIp`) and still correspond -/
example : ScopeRel (State.fresh (.mk [{ ForLoop.new [] with endIp := 7 }] [] none [] none))
    (.mk [{ ForLoop.new [] with endIp := ITERATE_END_IP }] [] none [] none) :=
  .root [] [] none ⟨⟨rfl, by simp [ITERATE_END_IP]⟩, trivial⟩
/-- … and it is not the trivial relation -/
example : ¬ ScopeRel (entryState none [("x", .u64 1)] []) (Scope.root [] []) := by
  intro h
  have := ScopeSim.context_eq h
  simp [entryState, State.fresh, Scope.root, Scope.context] at this

/-! ## R1: `compile_expr_correct` -/

/-- The statement, for the expressions satisfying `P`: for every code context (`pre`, `post`),
every loop context of the compiler, every VM state whose scope corresponds to the evaluator's,
every value stack, every evaluator fuel.  `bounded`: the step fuel is at most `|code|`. -/
def CompileExprCorrect (P : Expr → Prop) (bounded : Bool) : Prop :=
  ∀ (venv : Vm.Env) (eenv : Tera.Env) (vm : VmCtx)
    (name : String) (pre post vcode : List VEntry) (loop : Option Nat) (e : Expr),
    P e → EnvRel venv eenv → BuiltinsRel venv eenv →
    embed (exprCode pre.length loop e) = some vcode →
    reportTargetOk venv vm ⟨name, pre ++ vcode ++ post⟩ = true →
    ∀ (st : State) (sc : Scope), ScopeRel st sc → ∀ (fuel : Nat),
      (∀ v, evalExpr fuel eenv sc e = .ok v →
        ∃ n rg, (bounded = true → n ≤ vcode.length) ∧ SpanOk ⟨name, pre ++ vcode ++ post⟩ rg ∧
          ∀ rec k, runLoop rec venv vm ⟨name, pre ++ vcode ++ post⟩ (n + k) pre.length st
            = runLoop rec venv vm ⟨name, pre ++ vcode ++ post⟩ k (pre.length + vcode.length)
                (st.push v rg))
      ∧ (∀ err, evalExpr fuel eenv sc e = .error err → reportable err = true →
        ∃ n re, (bounded = true → n ≤ vcode.length) ∧ errMatch err re = true ∧
          ∀ rec k, runLoop rec venv vm ⟨name, pre ++ vcode ++ post⟩ (n + k) pre.length st = .err re)

/-- Full strength: every expression the parser can produce (`exprScoped`: no binary `Is` /
`Pipe` node).  NOT proved in full: `compile_expr_correct_core` proves it for `InCore`. -/
def compile_expr_correct_full : Prop := CompileExprCorrect (fun e => exprScoped e = true) false

/-- `compile_expr_correct` on the core `InCore lf`: constants, variables, (optional) attribute
access, `not`, unary minus, `* / // % + - **`, `< > <= >=`, `== !=`, `~`, `in`, `and`, `or`
(short-circuit jumps), the ternary, (optional) subscripts and slices, array and map literals with
spreads, filters / tests / function calls with keyword arguments (parametric in the built-in
table: `BuiltinsRel`), and — with `lf = false` — list comprehensions (with key, condition),
nested arbitrarily; with `lf = true` (no comprehension) the step fuel is at most `|code|`.
Not covered: component calls. -/
theorem compile_expr_correct_core (lf : Bool) : CompileExprCorrect (InCore lf) lf := by
  intro venv eenv vm name pre post vcode loop e hcore hE hB hemb ht st sc hsc fuel
  have hlen := embed_length hemb
  have hcode := codeAt_of_embed (name := name) (pre := pre) (post := post) hemb
  have hsim := expr_sim hE hB ht fuel e hcore pre.length loop st sc hsc hcode
  constructor
  · intro v hv
    rw [hv] at hsim
    obtain ⟨tr, rg, hrun, hsp, _, hl⟩ := hsim
    refine ⟨tr.length, rg, fun h => by have := hl h; omega, hsp, fun rec k => ?_⟩
    rw [hlen]
    exact hrun.runLoop rec k
  · intro err hv hrep
    rw [hv] at hsim
    obtain ⟨tr, re, hf, hm, _, hl⟩ := hsim hrep
    exact ⟨tr.length, re, fun h => by have := hl h; omega, hm, fun rec k => hf.runLoop rec k⟩

/-- The same with the code anywhere in any chunk (`CodeAt`) and with the trace: the run executes
only instructions of the expression's own range (at most `|code|` of them when `lf = true`). -/
theorem compile_expr_correct_at {venv : Vm.Env}
    {eenv : Tera.Env} {vm : VmCtx} {c : Chunk} {lf : Bool} (hE : EnvRel venv eenv)
    (hB : BuiltinsRel venv eenv) (ht : reportTargetOk venv vm c = true) (fuel : Nat) (e : Expr)
    (hcore : InCore lf e) (base : Nat) (loop : Option Nat) (st : State) (sc : Scope)
    (hsc : ScopeRel st sc) (hcode : CodeAt c base (exprCode base loop e)) :
    ExprOutcome venv vm c lf (evalExpr fuel eenv sc e) base (exprCode base loop e).length st :=
  expr_sim hE hB ht fuel e hcore base loop st sc hsc hcode

/-- never a panic, never `unmodelled`, never out of step fuel: on the loop-free core, with
`|code|` units of step fuel the loop is past the expression's code (with the evaluator's value on
the stack) or has returned a rendering error, whenever the evaluator gives a value or a
reportable error — whatever the nested interpreter `rec` is -/
theorem compile_expr_no_panic {venv : Vm.Env}
    {eenv : Tera.Env} {vm : VmCtx} {c : Chunk} (hE : EnvRel venv eenv) (hB : BuiltinsRel venv eenv)
    (ht : reportTargetOk venv vm c = true) (fuel : Nat) (e : Expr) (hcore : InCore true e)
    (base : Nat) (loop : Option Nat) (st : State) (sc : Scope) (hsc : ScopeRel st sc)
    (hcode : CodeAt c base (exprCode base loop e))
    (hrep : ∀ err, evalExpr fuel eenv sc e = .error err → reportable err = true)
    (rec : VmCtx → Chunk → State → RunRes) (k : Nat) :
    (∃ v rg n, n ≤ (exprCode base loop e).length ∧ evalExpr fuel eenv sc e = .ok v ∧
        runLoop rec venv vm c ((exprCode base loop e).length + k) base st
          = runLoop rec venv vm c ((exprCode base loop e).length - n + k)
              (base + (exprCode base loop e).length) (st.push v rg))
    ∨ (∃ re, runLoop rec venv vm c ((exprCode base loop e).length + k) base st = .err re) := by
  have hsim := expr_sim hE hB ht fuel e hcore base loop st sc hsc hcode
  cases hv : evalExpr fuel eenv sc e with
  | ok v =>
    rw [hv] at hsim
    obtain ⟨tr, rg, hrun, _, _, hl⟩ := hsim
    have hl := hl rfl
    refine .inl ⟨v, rg, tr.length, hl, rfl, ?_⟩
    have := hrun.runLoop rec ((exprCode base loop e).length - tr.length + k)
    rw [← this]; congr 1; omega
  | error err =>
    rw [hv] at hsim
    obtain ⟨tr, re, hf, _, _, hl⟩ := hsim (hrep err hv)
    have hl := hl rfl
    refine .inr ⟨re, ?_⟩
    have := hf.runLoop rec ((exprCode base loop e).length - tr.length + k)
    rw [← this]; congr 1; omega

/-! ## R2: evaluator theorems transferred to the compiled code -/

section
variable {venv : Vm.Env} {eenv : Tera.Env} {vm : VmCtx}
  {c : Chunk} {lf : Bool}

/-- `and_or_short_circuit_compiled` (`and`): when the left operand (in the core) evaluates to a
falsy `a`, the compiled `l and r` leaves `a` itself on the stack and NO instruction of `r`'s code
range `[base + |l| + 1, end)` is executed — for EVERY right operand `r`, in the core or not. -/
theorem and_short_circuit_compiled (hE : EnvRel venv eenv) (hB : BuiltinsRel venv eenv)
    (ht : reportTargetOk venv vm c = true)
    (fuel : Nat) (l r : Expr) (hl : InCore lf l) (base : Nat) (loop : Option Nat) (st : State)
    (sc : Scope) (hsc : ScopeRel st sc)
    (hcode : CodeAt c base (exprCode base loop (.binary .And l r)))
    (a : Value) (hev : evalExpr fuel eenv sc l = .ok a) (hfalsy : a.isTruthy = false) :
    ∃ tr rg, Run venv vm c base st tr (base + (exprCode base loop (.binary .And l r)).length)
        (st.push a rg)
      ∧ ∀ p, base + (exprCode base loop l).length + 1 ≤ p → p ∉ tr := by
  rw [exprCode_and] at hcode ⊢
  rw [CodeAt.append, CodeAt.append] at hcode
  obtain ⟨⟨hc1, hc2⟩, _⟩ := hcode
  have hent := CodeAt.single.mp hc2
  have h1 := expr_sim hE hB ht fuel l hl base loop st sc hsc hc1
  rw [hev] at h1
  obtain ⟨tr1, rg1, hrun1, _, hw1, _⟩ := h1
  refine ⟨tr1 ++ [_], rg1, ((hrun1.trans (run_jumpIfFalseOrPop_false hent st a rg1 hfalsy)).cast ?_), ?_⟩
  · simp only [List.length_append, List.length_singleton]; omega
  · intro p hp hm
    rcases List.mem_append.mp hm with h | h
    · have := hw1 p h; omega
    · simp only [List.mem_singleton] at h; omega

/-- `and_or_short_circuit_compiled` (`or`): dually, a truthy left operand is the result and `r`'s
code is not executed. -/
theorem or_short_circuit_compiled (hE : EnvRel venv eenv) (hB : BuiltinsRel venv eenv)
    (ht : reportTargetOk venv vm c = true)
    (fuel : Nat) (l r : Expr) (hl : InCore lf l) (base : Nat) (loop : Option Nat) (st : State)
    (sc : Scope) (hsc : ScopeRel st sc)
    (hcode : CodeAt c base (exprCode base loop (.binary .Or l r)))
    (a : Value) (hev : evalExpr fuel eenv sc l = .ok a) (htruthy : a.isTruthy = true) :
    ∃ tr rg, Run venv vm c base st tr (base + (exprCode base loop (.binary .Or l r)).length)
        (st.push a rg)
      ∧ ∀ p, base + (exprCode base loop l).length + 1 ≤ p → p ∉ tr := by
  rw [exprCode_or] at hcode ⊢
  rw [CodeAt.append, CodeAt.append] at hcode
  obtain ⟨⟨hc1, hc2⟩, _⟩ := hcode
  have hent := CodeAt.single.mp hc2
  have h1 := expr_sim hE hB ht fuel l hl base loop st sc hsc hc1
  rw [hev] at h1
  obtain ⟨tr1, rg1, hrun1, _, hw1, _⟩ := h1
  refine ⟨tr1 ++ [_], rg1, ((hrun1.trans (run_jumpIfTrueOrPop_true hent st a rg1 htruthy)).cast ?_), ?_⟩
  · simp only [List.length_append, List.length_singleton]; omega
  · intro p hp hm
    rcases List.mem_append.mp hm with h | h
    · have := hw1 p h; omega
    · simp only [List.mem_singleton] at h; omega

/-- the evaluator agrees (Props/C02Eval.lean `and_or_short_circuit`): that value is `l and r` -/
theorem and_short_circuit_value (fuel : Nat) (sc : Scope) (l r : Expr) (a : Value)
    (hev : evalExpr fuel eenv sc l = .ok a) (hfalsy : a.isTruthy = false) :
    evalExpr (fuel + 1) eenv sc (.binary .And l r) = .ok a := by
  simp [evalExpr, hev, hfalsy]

/-- `ternary_lazy_compiled`, condition truthy: the VM's result is the `t` branch's (value or error
class), and no instruction of `f`'s code range is executed — for EVERY `f`, in the core or not. -/
theorem ternary_lazy_compiled_true (hE : EnvRel venv eenv) (hB : BuiltinsRel venv eenv)
    (ht : reportTargetOk venv vm c = true)
    (fuel : Nat) (cnd t f : Expr) (hc : InCore lf cnd) (htc : InCore lf t) (base : Nat)
    (loop : Option Nat) (st : State) (sc : Scope) (hsc : ScopeRel st sc)
    (hcode : CodeAt c base (exprCode base loop (.ternary cnd t f)))
    (a : Value) (hev : evalExpr fuel eenv sc cnd = .ok a) (htruthy : a.isTruthy = true) :
    let fStart := base + (exprCode base loop cnd).length + 1
      + (exprCode (base + (exprCode base loop cnd).length + 1) loop t).length + 1
    (∀ v, evalExpr fuel eenv sc t = .ok v →
      ∃ tr rg, Run venv vm c base st tr (base + (exprCode base loop (.ternary cnd t f)).length)
          (st.push v rg) ∧ ∀ p, fStart ≤ p → p ∉ tr)
    ∧ (∀ err, evalExpr fuel eenv sc t = .error err → reportable err = true →
      ∃ tr re, Fails venv vm c base st tr re ∧ errMatch err re = true
        ∧ ∀ p, fStart ≤ p → p ∉ tr) := by
  intro fStart
  simp only [exprCode] at hcode ⊢
  rw [CodeAt.append, CodeAt.append, CodeAt.append, CodeAt.append] at hcode
  obtain ⟨⟨⟨⟨hc1, hc2⟩, hc3⟩, hc4⟩, _⟩ := hcode
  have hent2 := CodeAt.single.mp hc2
  have hent4 := CodeAt.single.mp hc4
  simp only [List.length_append, List.length_singleton, ← Nat.add_assoc] at hc3 hent4 ⊢
  have h1 := expr_sim hE hB ht fuel cnd hc base loop st sc hsc hc1
  rw [hev] at h1
  obtain ⟨tr1, rg1, hrun1, _, hw1, _⟩ := h1
  have hP := run_popJumpIfFalse (venv := venv) (vm := vm) hent2 st a rg1
  simp only [htruthy, if_true] at hP
  have h2 := expr_sim hE hB ht fuel t htc _ loop st sc hsc hc3
  constructor
  · intro v hv
    rw [hv] at h2
    obtain ⟨tr2, rg2, hrun2, _, hw2, _⟩ := h2
    refine ⟨tr1 ++ [_] ++ tr2 ++ [_], rg2,
      ((((hrun1.trans hP).trans hrun2).trans (run_jump hent4 _)).cast (by omega)), ?_⟩
    intro p hp hm
    simp only [fStart] at hp
    simp only [List.mem_append, List.mem_singleton] at hm
    rcases hm with ((h | h) | h) | h
    · have := hw1 p h; omega
    · omega
    · have := hw2 p h; omega
    · omega
  · intro err hv hrep
    rw [hv] at h2
    obtain ⟨tr2, re, hf, hm, hw2, _⟩ := h2 hrep
    refine ⟨tr1 ++ [_] ++ tr2, re, (hrun1.trans hP).fails hf, hm, ?_⟩
    intro p hp hmem
    simp only [fStart] at hp
    simp only [List.mem_append, List.mem_singleton] at hmem
    rcases hmem with (h | h) | h
    · have := hw1 p h; omega
    · omega
    · have := hw2 p h; omega

/-- `ternary_lazy_compiled`, condition falsy: the result is the `f` branch's and no instruction
of `t`'s code range (nor the `Jump` closing it) is executed — for EVERY `t`. -/
theorem ternary_lazy_compiled_false (hE : EnvRel venv eenv) (hB : BuiltinsRel venv eenv)
    (ht : reportTargetOk venv vm c = true)
    (fuel : Nat) (cnd t f : Expr) (hc : InCore lf cnd) (hfc : InCore lf f) (base : Nat)
    (loop : Option Nat) (st : State) (sc : Scope) (hsc : ScopeRel st sc)
    (hcode : CodeAt c base (exprCode base loop (.ternary cnd t f)))
    (a : Value) (hev : evalExpr fuel eenv sc cnd = .ok a) (hfalsy : a.isTruthy = false) :
    let tStart := base + (exprCode base loop cnd).length + 1
    let tEnd := tStart + (exprCode tStart loop t).length + 1
    (∀ v, evalExpr fuel eenv sc f = .ok v →
      ∃ tr rg, Run venv vm c base st tr (base + (exprCode base loop (.ternary cnd t f)).length)
          (st.push v rg) ∧ ∀ p, tStart ≤ p → p < tEnd → p ∉ tr)
    ∧ (∀ err, evalExpr fuel eenv sc f = .error err → reportable err = true →
      ∃ tr re, Fails venv vm c base st tr re ∧ errMatch err re = true
        ∧ ∀ p, tStart ≤ p → p < tEnd → p ∉ tr) := by
  intro tStart tEnd
  simp only [exprCode] at hcode ⊢
  rw [CodeAt.append, CodeAt.append, CodeAt.append, CodeAt.append] at hcode
  obtain ⟨⟨⟨⟨hc1, hc2⟩, _⟩, _⟩, hc5⟩ := hcode
  have hent2 := CodeAt.single.mp hc2
  simp only [List.length_append, List.length_singleton, ← Nat.add_assoc] at hc5 ⊢
  have h1 := expr_sim hE hB ht fuel cnd hc base loop st sc hsc hc1
  rw [hev] at h1
  obtain ⟨tr1, rg1, hrun1, _, hw1, _⟩ := h1
  have hP := run_popJumpIfFalse (venv := venv) (vm := vm) hent2 st a rg1
  simp only [hfalsy, Bool.false_eq_true, if_false] at hP
  have h2 := expr_sim hE hB ht fuel f hfc _ loop st sc hsc hc5
  constructor
  · intro v hv
    rw [hv] at h2
    obtain ⟨tr2, rg2, hrun2, _, hw2, _⟩ := h2
    refine ⟨tr1 ++ [_] ++ tr2, rg2, (((hrun1.trans hP).trans hrun2).cast (by omega)), ?_⟩
    intro p hp hp2 hm
    simp only [tStart, tEnd] at hp hp2
    simp only [List.mem_append, List.mem_singleton] at hm
    rcases hm with (h | h) | h
    · have := hw1 p h; omega
    · omega
    · have := hw2 p h; omega
  · intro err hv hrep
    rw [hv] at h2
    obtain ⟨tr2, re, hf, hm, hw2, _⟩ := h2 hrep
    refine ⟨tr1 ++ [_] ++ tr2, re, (hrun1.trans hP).fails hf, hm, ?_⟩
    intro p hp hp2 hmem
    simp only [tStart, tEnd] at hp hp2
    simp only [List.mem_append, List.mem_singleton] at hmem
    rcases hmem with (h | h) | h
    · have := hw1 p h; omega
    · omega
    · have := hw2 p h; omega

/-- `one_level_undefined_compiled`: the compiled code keeps the evaluator's undefined rules
(Props/C02Eval.lean `access_on_undefined_errors`, `optional_chaining`, `undefined_tolerated`,
`math_expr_on_undefined_errors`).  For `e` in the core evaluating to undefined:
`e.name` ends in an undefined-class rendering error; `e?.name` pushes undefined; `not e` pushes
`true`; `e + r` is an error. -/
theorem one_level_undefined_compiled (hE : EnvRel venv eenv) (hB : BuiltinsRel venv eenv)
    (ht : reportTargetOk venv vm c = true) (fuel : Nat) (e : Expr) (he : InCore lf e)
    (name : String) (base : Nat) (loop : Option Nat) (st : State) (sc : Scope)
    (hsc : ScopeRel st sc) (hu : evalExpr fuel eenv sc e = .ok .undef) :
    (CodeAt c base (exprCode base loop (.getAttr e name false)) →
      ∃ tr re, Fails venv vm c base st tr re ∧ errMatch .undefined re = true)
    ∧ (CodeAt c base (exprCode base loop (.getAttr e name true)) →
      ∃ tr rg, Run venv vm c base st tr
        (base + (exprCode base loop (.getAttr e name true)).length) (st.push .undef rg))
    ∧ (CodeAt c base (exprCode base loop (.unary .Not e)) →
      ∃ tr rg, Run venv vm c base st tr
        (base + (exprCode base loop (.unary .Not e)).length) (st.push (.bool true) rg))
    ∧ (∀ r, InCore lf r → CodeAt c base (exprCode base loop (.binary .Plus e r)) →
      ∀ v, evalExpr fuel eenv sc r = .ok v →
      ∃ tr re, Fails venv vm c base st tr re ∧ errMatch (.num .notNumber) re = true) := by
  refine ⟨fun hcode => ?_, fun hcode => ?_, fun hcode => ?_, fun r hr hcode v hv => ?_⟩
  · have h := expr_sim hE hB ht (fuel + 1) _ (InCore.getAttr name false he) base loop st sc hsc hcode
    have hval : evalExpr (fuel + 1) eenv sc (.getAttr e name false) = .error .undefined := by
      simp [evalExpr, hu, Value.isUndef]
    rw [hval] at h
    obtain ⟨tr, re, hf, hm, _, _⟩ := h rfl
    exact ⟨tr, re, hf, hm⟩
  · have h := expr_sim hE hB ht (fuel + 1) _ (InCore.getAttr name true he) base loop st sc hsc hcode
    have hval : evalExpr (fuel + 1) eenv sc (.getAttr e name true) = .ok .undef := by
      simp [evalExpr, hu, Value.isUndef]
    rw [hval] at h
    obtain ⟨tr, rg, hrun, _, _, _⟩ := h
    exact ⟨tr, rg, hrun⟩
  · have h := expr_sim hE hB ht (fuel + 1) _ (InCore.unary .Not he) base loop st sc hsc hcode
    have hval : evalExpr (fuel + 1) eenv sc (.unary .Not e) = .ok (.bool true) := by
      simp [evalExpr, hu, Value.isTruthy]
    rw [hval] at h
    obtain ⟨tr, rg, hrun, _, _, _⟩ := h
    exact ⟨tr, rg, hrun⟩
  · have h := expr_sim hE hB ht (fuel + 1) _ (InCore.binary .Plus rfl he hr) base loop st sc hsc hcode
    have hval : evalExpr (fuel + 1) eenv sc (.binary .Plus e r) = .error (.num .notNumber) := by
      simp [evalExpr, hu, hv, binop, Value.isNumber]
    rw [hval] at h
    obtain ⟨tr, re, hf, hm, _, _⟩ := h rfl
    exact ⟨tr, re, hf, hm⟩

end

/-! ## R3: `compile_node_correct` -/

/-- The statement, for statement lists all of whose members satisfy `P`: the evaluator's
`execNodes` on the statement state `est` against the VM on a state `st` related to it.  When the
evaluator ends normally in `est'`, the VM ends at the end of the code in `withSc st est' sc'`:
value stack and block bookkeeping untouched; output and capture stack are the evaluator's (so the
text appended is the evaluator's), and the scope `sc'` corresponds to the evaluator's (so the
variables assigned are the evaluator's).  The nested interpreter is the real one, `Vm.interp`,
with any step fuel `≥ N` and any nesting fuel `≥ D` (`N`, `D` depend on the run only: the
includes it goes through). -/
def CompileNodesCorrect (lf : Bool) (Inc : String → Prop) (P : Node → Prop) : Prop :=
  ∀ (venv : Vm.Env) (eenv : Tera.Env) (vm : VmCtx)
    (name : String) (pre post vcode : List VEntry) (loop : Option Nat) (ns : List Node),
    (∀ n ∈ ns, P n) → EnvRel venv eenv → BuiltinsRel venv eenv → TemplatesRel venv eenv lf Inc →
    embed (nodesCode pre.length loop ns) = some vcode →
    reportTargetOk venv vm ⟨name, pre ++ vcode ++ post⟩ = true → vm.autoescapeOverride = none →
    ∀ (st : State) (est : Tera.St), StRel st est → ∀ (fuel : Nat),
      (∀ est', execNodes fuel eenv vm.autoescape est ns = .ok (est', .normal) →
        ∃ n sc' N D, ScopeSim est'.scope sc' ∧
          ∀ steps depth, N ≤ steps → D ≤ depth → ∀ k,
            runLoop (interp venv steps depth) venv vm ⟨name, pre ++ vcode ++ post⟩ (n + k) pre.length st
              = runLoop (interp venv steps depth) venv vm ⟨name, pre ++ vcode ++ post⟩ k
                  (pre.length + vcode.length) (withSc st est' sc'))
      ∧ (∀ err, execNodes fuel eenv vm.autoescape est ns = .error err → reportable err = true →
        ∃ n re N D, errMatch err re = true ∧
          ∀ steps depth, N ≤ steps → D ≤ depth → ∀ k,
            runLoop (interp venv steps depth) venv vm ⟨name, pre ++ vcode ++ post⟩ (n + k) pre.length st
              = .err re)

/-- Full strength: every statement list the parser can produce outside a loop body
(`nodesScoped false`: no stray `break` / `continue`, no binary `Is` / `Pipe`), every template
may be included.  NOT proved in full: `compile_nodes_correct_core` proves it for `InCoreNode` (no
block, no component call). -/
def compile_nodes_correct_full : Prop :=
  ∀ (ns : List Node), nodesScoped false ns = true →
    CompileNodesCorrect false (fun _ => True) (fun n => n ∈ ns)

/-- `compile_node_correct` on the statement core `InCoreNode lf Inc false` (outside a loop body):
template text, `{{ e }}`, `{% set %}` / `{% set_global %}`, `{% if %}` / `{% elif %}` /
`{% else %}`, filter sections, set blocks with filter chains, and — with `lf = false` — `for`
loops (key / value, `else`, nested) with `break` / `continue` in their bodies and `include` of the
templates `Inc` (which `TemplatesRel` relates), over `InCore lf` expressions.  Not covered: `block`,
component calls. -/
theorem compile_nodes_correct_core (lf : Bool) (Inc : String → Prop) :
    CompileNodesCorrect lf Inc (InCoreNode lf Inc false) := by
  intro venv eenv vm name pre post vcode loop ns hcore hE hB hT hemb ht hov st est hrel fuel
  have hlen := embed_length hemb
  have hcode := codeAt_of_embed (name := name) (pre := pre) (post := post) hemb
  have hsim := nodes_sim hE hB hT ht hov fuel false ns hcore pre.length loop st est hrel
    (fun h => by cases h) hcode
  constructor
  · intro est' hv
    rw [hv] at hsim
    obtain ⟨tr, sc', hsc', _, hrun, _, _⟩ := hsim
    have hrun' : RunI venv vm ⟨name, pre ++ vcode ++ post⟩ pre.length st tr
        (pre.length + (nodesCode pre.length loop ns).length) (withSc st est' sc') := hrun
    obtain ⟨N, D, hND⟩ := hrun'.adequate
    refine ⟨tr.length, sc', N, D, hsc', fun steps depth hN hD k => ?_⟩
    rw [hlen]
    exact hND steps depth hN hD k
  · intro err hv hrep
    rw [hv] at hsim
    obtain ⟨tr, re, hf, hm, _, _⟩ := hsim hrep
    obtain ⟨N, D, hND⟩ := hf.adequate
    exact ⟨tr.length, re, N, D, hm, hND⟩

/-- The same with the code anywhere in any chunk, inside or outside a loop body, with the trace
and with the `break` / `continue` signals (`NodeOutcome`: where the run stops for each signal; on
the loop-free core at most `|code|` instructions are executed).  `RunI` / `FailsI`
(Lemmas/RefineRunI.lean) are runs in which a turn at an `Include` is a complete run of the
included chunk. -/
theorem compile_nodes_correct_at {venv : Vm.Env}
    {eenv : Tera.Env} {vm : VmCtx} {c : Chunk} {lf : Bool} {Inc : String → Prop}
    (hE : EnvRel venv eenv) (hB : BuiltinsRel venv eenv) (hT : TemplatesRel venv eenv lf Inc)
    (ht : reportTargetOk venv vm c = true) (hov : vm.autoescapeOverride = none) (fuel : Nat)
    (inLoop : Bool) (ns : List Node) (hns : ∀ n ∈ ns, InCoreNode lf Inc inLoop n) (base : Nat)
    (loop : Option Nat) (st : State) (est : Tera.St) (hst : StRel st est)
    (hctx : LoopCtx inLoop loop st) (hcode : CodeAt c base (nodesCode base loop ns)) :
    NodeOutcome venv vm c lf loop (execNodes fuel eenv vm.autoescape est ns) base
      (nodesCode base loop ns).length st :=
  nodes_sim hE hB hT ht hov fuel inLoop ns hns base loop st est hst hctx hcode

/-- One statement. -/
theorem compile_node_correct_at {venv : Vm.Env}
    {eenv : Tera.Env} {vm : VmCtx} {c : Chunk} {lf : Bool} {Inc : String → Prop}
    (hE : EnvRel venv eenv) (hB : BuiltinsRel venv eenv) (hT : TemplatesRel venv eenv lf Inc)
    (ht : reportTargetOk venv vm c = true) (hov : vm.autoescapeOverride = none) (fuel : Nat)
    (inLoop : Bool) (n : Node) (hn : InCoreNode lf Inc inLoop n) (base : Nat)
    (loop : Option Nat) (st : State) (est : Tera.St) (hst : StRel st est)
    (hctx : LoopCtx inLoop loop st) (hcode : CodeAt c base (nodeCode base loop n)) :
    NodeOutcome venv vm c lf loop (execNode fuel eenv vm.autoescape est n) base
      (nodeCode base loop n).length st :=
  node_sim hE hB hT ht hov fuel inLoop n hn base loop st est hst hctx hcode

/-- no template may be included: `TemplatesRel` asks nothing -/
theorem templatesRel_none (venv : Vm.Env) (eenv : Tera.Env) (lf : Bool) :
    TemplatesRel venv eenv lf (fun _ => False) := ⟨fun _ h => h.elim⟩

/-- `TemplatesRel` is satisfiable, for every body of the core (which may include itself): the two
tables holding that one template under the name `inc` -/
theorem templatesRel_single (lf ae : Bool) (inc : String) (ns : List Node) (vcode : List VEntry)
    (hemb : embed (nodesCode 0 none ns) = some vcode)
    (hcore : ∀ n ∈ ns, InCoreNode lf (· = inc) false n) (vbase : Vm.Env) (ebase : Tera.Env) :
    TemplatesRel
      { vbase with templates := [(inc, { name := inc, chunk := ⟨inc, vcode⟩, autoescape := ae,
                                         parents := [], blockLineage := [], components := [] })] }
      { ebase with templates := [(inc, ⟨ns, ae⟩)] } lf (· = inc) := by
  refine ⟨fun name hname => ?_⟩
  subst hname
  have he : ({ ebase with templates := [(name, ⟨ns, ae⟩)] } : Tera.Env).template name = some ⟨ns, ae⟩ := by
    simp [Tera.Env.template, List.find?]
  rw [he]
  refine ⟨{ name := name, chunk := ⟨name, vcode⟩, autoescape := ae, parents := [], blockLineage := [],
            components := [] }, vcode, ?_, rfl, hemb, rfl, hcore⟩
  simp [Vm.Env.template, assoc]
/-- End to end for a template of the core: when the VM's template table holds, under `name`, a
template without parents whose chunk is the compiled body (`nodesCode 0 none nodes`, embedded),
and the evaluator's table holds the same body with the same autoescape flag, and the templates
that may be included are related the same way (`TemplatesRel`), then whatever `Tera.render`
(Model/Eval.lean) gives, `Vm.render` (Model/Vm.lean) gives: the same text, or an error of the
same class — with any step fuel `≥ N` and nesting fuel `> D`, which do not depend on the fuel
given. -/
theorem render_correct_core (venv : Vm.Env) (eenv : Tera.Env) (hE : EnvRel venv eenv)
    (hB : BuiltinsRel venv eenv) (lf : Bool) (Inc : String → Prop)
    (hT : TemplatesRel venv eenv lf Inc)
    (name : String) (tpl : TemplateInfo) (nodes : List Node) (vcode : List VEntry)
    (hv : venv.template name = some tpl) (hpar : tpl.parents = [])
    (hchunk : tpl.chunk = ⟨tpl.name, vcode⟩)
    (hemb : embed (nodesCode 0 none nodes) = some vcode)
    (he : eenv.template name = some ⟨nodes, tpl.autoescape⟩)
    (hcore : ∀ n ∈ nodes, InCoreNode lf Inc false n) (ctx g : Ctx) (fuel : Nat) :
    (∀ text, Tera.render fuel eenv name ctx g = .ok text →
      ∃ N D, ∀ steps depth, N ≤ steps → D ≤ depth →
        Vm.render ⟨depth + 1, steps⟩ venv name none ctx g = .ok text)
    ∧ (∀ err, Tera.render fuel eenv name ctx g = .error err → reportable err = true →
      ∃ re N D, errMatch err re = true ∧ ∀ steps depth, N ≤ steps → D ≤ depth →
        Vm.render ⟨depth + 1, steps⟩ venv name none ctx g = .err re) := by
  have hcode := codeAt_of_embed (name := tpl.name) (pre := []) (post := []) hemb
  simp only [List.nil_append, List.append_nil, List.length_nil] at hcode
  have hlen := embed_length hemb
  let vm : VmCtx := { template := tpl, autoescapeOverride := none, depth := 0 }
  have ht : reportTargetOk venv vm ⟨tpl.name, vcode⟩ = true := by simp [reportTargetOk, vm]
  have hsim : NodeOutcome venv vm ⟨tpl.name, vcode⟩ lf none
      (execNodes fuel eenv tpl.autoescape { scope := Scope.root ctx g, out := [], captures := [] } nodes)
      0 (nodesCode 0 none nodes).length (entryState none ctx g) :=
    nodes_sim (vm := vm) hE hB hT ht rfl fuel false nodes hcore 0 none
      (entryState none ctx g) { scope := Scope.root ctx g, out := [], captures := [] }
      ⟨ScopeSim.refl _, rfl, rfl⟩ (fun h => by cases h) hcode
  have hrender : ∀ depth steps, Vm.render ⟨depth + 1, steps⟩ venv name none ctx g
      = outcomeOf none (runLoop (interp venv steps depth) venv vm ⟨tpl.name, vcode⟩ steps 0
          (entryState none ctx g)) := by
    intro depth steps
    simp only [Vm.render, hv, lineageMissing, Bool.false_eq_true, if_false, entryChunk, hpar,
      List.head?_nil, hchunk, run, interp]
    rfl
  constructor
  · intro text htext
    simp only [Tera.render, he] at htext
    cases hr : execNodes fuel eenv tpl.autoescape
        { scope := Scope.root ctx g, out := [], captures := [] } nodes with
    | error err => simp [hr] at htext
    | ok p =>
      obtain ⟨est', sig⟩ := p
      cases sig with
      | normal =>
        simp only [hr, Except.ok.injEq] at htext
        rw [hr] at hsim
        obtain ⟨tr, sc', _, _, hrun, _, _⟩ := hsim
        have hrun' : RunI venv vm ⟨tpl.name, vcode⟩ 0 (entryState none ctx g) tr
            (0 + (nodesCode 0 none nodes).length) (withSc (entryState none ctx g) est' sc') := hrun
        obtain ⟨N, D, hND⟩ := hrun'.adequate
        refine ⟨max N tr.length, D, fun steps depth hN hD => ?_⟩
        rw [hrender]
        have := hND steps depth (by omega) hD (steps - tr.length)
        have hdone : ∀ (rec : VmCtx → Chunk → State → RunRes) (k : Nat) (st' : State),
            runLoop rec venv vm ⟨tpl.name, vcode⟩ k (0 + vcode.length) st' = .done st' :=
          fun rec k st' => runLoop_off_end rec venv vm _ k _ st' (by simp)
        rw [show tr.length + (steps - tr.length) = steps by omega, ← hlen, hdone] at this
        rw [this]
        simp only [outcomeOf, Option.isSome_none, Bool.false_eq_true, if_false, withSc, htext]
      | brk => simp [hr] at htext
      | cont => simp [hr] at htext
  · intro err herr hrep
    simp only [Tera.render, he] at herr
    cases hr : execNodes fuel eenv tpl.autoescape
        { scope := Scope.root ctx g, out := [], captures := [] } nodes with
    | ok p =>
      obtain ⟨est', sig⟩ := p
      cases sig <;> simp only [hr] at herr
      · cases herr
      · cases herr; simp [reportable] at hrep
      · cases herr; simp [reportable] at hrep
    | error err' =>
      simp only [hr, Except.error.injEq] at herr
      subst herr
      rw [hr] at hsim
      obtain ⟨tr, re, hf, hm, _, _⟩ := hsim hrep
      obtain ⟨N, D, hND⟩ := hf.adequate
      refine ⟨re, max N tr.length, D, hm, fun steps depth hN hD => ?_⟩
      rw [hrender]
      have := hND steps depth (by omega) hD (steps - tr.length)
      rw [show tr.length + (steps - tr.length) = steps by omega] at this
      rw [this]
      rfl

/-- … on the loop-free core, for a chunk without `Include`: any nesting depth `≥ 1` and any step
fuel `≥ |code|` will do. -/
theorem render_correct_core_bounded (venv : Vm.Env) (eenv : Tera.Env) (hE : EnvRel venv eenv)
    (hB : BuiltinsRel venv eenv)
    (name : String) (tpl : TemplateInfo) (nodes : List Node) (vcode : List VEntry)
    (hv : venv.template name = some tpl) (hpar : tpl.parents = [])
    (hchunk : tpl.chunk = ⟨tpl.name, vcode⟩)
    (hemb : embed (nodesCode 0 none nodes) = some vcode) (hno : noInclude vcode = true)
    (he : eenv.template name = some ⟨nodes, tpl.autoescape⟩)
    (hcore : ∀ n ∈ nodes, InCoreNode true (fun _ => False) false n) (ctx g : Ctx)
    (fuel depth steps : Nat) (hsteps : vcode.length ≤ steps) :
    (∀ text, Tera.render fuel eenv name ctx g = .ok text →
      Vm.render ⟨depth + 1, steps⟩ venv name none ctx g = .ok text)
    ∧ (∀ err, Tera.render fuel eenv name ctx g = .error err → reportable err = true →
      ∃ re, errMatch err re = true ∧ Vm.render ⟨depth + 1, steps⟩ venv name none ctx g = .err re) := by
  have hcode := codeAt_of_embed (name := tpl.name) (pre := []) (post := []) hemb
  simp only [List.nil_append, List.append_nil, List.length_nil] at hcode
  have hlen := embed_length hemb
  let vm : VmCtx := { template := tpl, autoescapeOverride := none, depth := 0 }
  have ht : reportTargetOk venv vm ⟨tpl.name, vcode⟩ = true := by simp [reportTargetOk, vm]
  have hsim : NodeOutcome venv vm ⟨tpl.name, vcode⟩ true none
      (execNodes fuel eenv tpl.autoescape { scope := Scope.root ctx g, out := [], captures := [] } nodes)
      0 (nodesCode 0 none nodes).length (entryState none ctx g) :=
    nodes_sim (vm := vm) hE hB (templatesRel_none venv eenv true) ht rfl fuel false nodes hcore 0 none
      (entryState none ctx g) { scope := Scope.root ctx g, out := [], captures := [] }
      ⟨ScopeSim.refl _, rfl, rfl⟩ (fun h => by cases h) hcode
  have hrender : Vm.render ⟨depth + 1, steps⟩ venv name none ctx g
      = outcomeOf none (runLoop (interp venv steps depth) venv vm ⟨tpl.name, vcode⟩ steps 0
          (entryState none ctx g)) := by
    simp only [Vm.render, hv, lineageMissing, Bool.false_eq_true, if_false, entryChunk, hpar,
      List.head?_nil, hchunk, run, interp]
    rfl
  constructor
  · intro text htext
    simp only [Tera.render, he] at htext
    cases hr : execNodes fuel eenv tpl.autoescape
        { scope := Scope.root ctx g, out := [], captures := [] } nodes with
    | error err => simp [hr] at htext
    | ok p =>
      obtain ⟨est', sig⟩ := p
      cases sig with
      | normal =>
        simp only [hr, Except.ok.injEq] at htext
        rw [hr] at hsim
        obtain ⟨tr, sc', _, _, hrun, _, hl⟩ := hsim
        have hl := hl rfl
        have hrun' : RunI venv vm ⟨tpl.name, vcode⟩ 0 (entryState none ctx g) tr
            (0 + (nodesCode 0 none nodes).length) (withSc (entryState none ctx g) est' sc') := hrun
        have hrun'' := hrun'.toRun hno
        rw [hrender]
        have := hrun''.runLoop (interp venv steps depth) (steps - tr.length)
        rw [← hlen] at hl
        have hdone : ∀ (rec : VmCtx → Chunk → State → RunRes) (k : Nat) (st' : State),
            runLoop rec venv vm ⟨tpl.name, vcode⟩ k (0 + vcode.length) st' = .done st' :=
          fun rec k st' => runLoop_off_end rec venv vm _ k _ st' (by simp)
        rw [show tr.length + (steps - tr.length) = steps by omega, ← hlen, hdone] at this
        rw [this]
        simp only [outcomeOf, Option.isSome_none, Bool.false_eq_true, if_false, withSc, htext]
      | brk => simp [hr] at htext
      | cont => simp [hr] at htext
  · intro err herr hrep
    simp only [Tera.render, he] at herr
    cases hr : execNodes fuel eenv tpl.autoescape
        { scope := Scope.root ctx g, out := [], captures := [] } nodes with
    | ok p =>
      obtain ⟨est', sig⟩ := p
      cases sig <;> simp only [hr] at herr
      · cases herr
      · cases herr; simp [reportable] at hrep
      · cases herr; simp [reportable] at hrep
    | error err' =>
      simp only [hr, Except.error.injEq] at herr
      subst herr
      rw [hr] at hsim
      obtain ⟨tr, re, hf, hm, _, hl⟩ := hsim hrep
      have hl := hl rfl
      have hf' := hf.toFails hno
      refine ⟨re, hm, ?_⟩
      rw [hrender]
      have := hf'.runLoop (interp venv steps depth) (steps - tr.length)
      rw [← hlen] at hl
      rw [show tr.length + (steps - tr.length) = steps by omega] at this
      rw [this]
      rfl

/-- … in particular for what the model compiler makes of a parsed template: `compileTemplate`
(Model/Compiler.lean, `Template::new` up to the optimisation pass) puts `nodesCode 0 none t.nodes`
into the main chunk, so a VM template whose chunk is that main chunk (embedded) renders what the
evaluator renders from the AST `t.nodes`. -/
theorem render_correct_compiled (venv : Vm.Env) (eenv : Tera.Env) (hE : EnvRel venv eenv)
    (hB : BuiltinsRel venv eenv) (lf : Bool) (Inc : String → Prop)
    (hT : TemplatesRel venv eenv lf Inc) (name : String) (tpl : TemplateInfo) (t : Template)
    (comp : Compiled) (vcode : List VEntry) (hcomp : compileTemplate t = .ok comp)
    (hv : venv.template name = some tpl) (hpar : tpl.parents = [])
    (hchunk : tpl.chunk = ⟨tpl.name, vcode⟩) (hemb : embed comp.main = some vcode)
    (he : eenv.template name = some ⟨t.nodes, tpl.autoescape⟩)
    (hcore : ∀ n ∈ t.nodes, InCoreNode lf Inc false n) (ctx g : Ctx) (fuel : Nat) :
    (∀ text, Tera.render fuel eenv name ctx g = .ok text →
      ∃ N D, ∀ steps depth, N ≤ steps → D ≤ depth →
        Vm.render ⟨depth + 1, steps⟩ venv name none ctx g = .ok text)
    ∧ (∀ err, Tera.render fuel eenv name ctx g = .error err → reportable err = true →
      ∃ re N D, errMatch err re = true ∧ ∀ steps depth, N ≤ steps → D ≤ depth →
        Vm.render ⟨depth + 1, steps⟩ venv name none ctx g = .err re) := by
  have hmain : comp.main = nodesCode 0 none t.nodes := by
    unfold compileTemplate at hcomp
    split at hcomp
    · cases hcomp
    · simp only [Except.ok.injEq] at hcomp
      rw [← hcomp]
  rw [hmain] at hemb
  exact render_correct_core venv eenv hE hB lf Inc hT name tpl t.nodes vcode hv hpar hchunk hemb he
    hcore ctx g fuel

/-! ## The domain as a check

`exprInCore` / `nodesInCore` (Lemmas/RefineDomain.lean) are executable: a harness can evaluate
them on the AST of every template it renders and so measure how much of its corpus is inside the
proved domain.  What fails the check: component calls, `include`, `block`, and shapes the parser
never produces (binary `Is` / `Pipe`, stray `break` / `continue`, a repeated keyword-argument
name, a non-filter in a set block's filter chain). -/

/-- `compile_expr_correct` for every expression that passes the check -/
theorem compile_expr_correct_checked : CompileExprCorrect (fun e => exprInCore e = true) false :=
  fun venv eenv vm name pre post vcode loop e hP =>
    compile_expr_correct_core false venv eenv vm name pre post vcode loop e (exprInCore_sound e hP)

/-- `compile_node_correct` for every statement list that passes the check (`incs`: the names that
may be included) -/
theorem compile_nodes_correct_checked (incs : List String) :
    CompileNodesCorrect false (· ∈ incs) (fun n => nodeInCore incs false n = true) :=
  fun venv eenv vm name pre post vcode loop ns hP =>
    compile_nodes_correct_core false (· ∈ incs) venv eenv vm name pre post vcode loop ns
      (fun n hn => nodeInCore_sound incs false n (hP n hn))

/-- `Tera.render` = `Vm.render` on the model compiler's output for every template whose body
passes the check, the included templates being related by `TemplatesRel` -/
theorem render_correct_checked (venv : Vm.Env) (eenv : Tera.Env) (hE : EnvRel venv eenv)
    (hB : BuiltinsRel venv eenv) (incs : List String)
    (hT : TemplatesRel venv eenv false (· ∈ incs)) (name : String) (tpl : TemplateInfo)
    (t : Template)
    (comp : Compiled) (vcode : List VEntry) (hcomp : compileTemplate t = .ok comp)
    (hv : venv.template name = some tpl) (hpar : tpl.parents = [])
    (hchunk : tpl.chunk = ⟨tpl.name, vcode⟩) (hemb : embed comp.main = some vcode)
    (he : eenv.template name = some ⟨t.nodes, tpl.autoescape⟩)
    (hcheck : nodesInCore incs false t.nodes = true) (ctx g : Ctx) (fuel : Nat) :
    (∀ text, Tera.render fuel eenv name ctx g = .ok text →
      ∃ N D, ∀ steps depth, N ≤ steps → D ≤ depth →
        Vm.render ⟨depth + 1, steps⟩ venv name none ctx g = .ok text)
    ∧ (∀ err, Tera.render fuel eenv name ctx g = .error err → reportable err = true →
      ∃ re N D, errMatch err re = true ∧ ∀ steps depth, N ≤ steps → D ≤ depth →
        Vm.render ⟨depth + 1, steps⟩ venv name none ctx g = .err re) :=
  render_correct_compiled venv eenv hE hB false (· ∈ incs) hT name tpl t comp vcode hcomp hv hpar
    hchunk hemb he (nodesInCore_sound incs false t.nodes hcheck) ctx g fuel

/-! ## Spot checks: concrete expressions through both models (kernel-evaluated)

`agree e ctx`: evaluate `e` with the evaluator in `Scope.root ctx []`; compile it at index 0,
embed the code, run the VM's interpreter loop on it from the fresh state over the same scope with
exactly `|code|` units of step fuel (400 when `loops` is set); compare: a value with the single slot left on the stack, an
error with the rendering error's class. -/

def exF : FloatOps :=
  { add := fun a _ => a, sub := fun a _ => a, mul := fun a _ => a, div := fun a _ => a,
    remEuclid := fun a _ => a, divEuclid := fun a _ => a, powf := fun a _ => a, neg := fun a => a }

def exEenv : Tera.Env := { templates := [], F := exF, fmtF64 := fun _ => [] }

/-- a built-in's result in the evaluator's table as a result of the VM's table -/
def callOf (r : Except Err Value) : CallRes :=
  match r with
  | .ok v => .ok v
  | .error (.unsupported _) => .unmodelled
  | .error .fuel => .unmodelled
  | .error _ => .err

/-- the VM environment whose built-in tables ARE the evaluator's (nothing registered as safe: the
evaluator's `safe` returns a safe string itself) -/
def venvOf (eenv : Tera.Env) : Vm.Env :=
  { templates := [], components := [],
    hasFilter := fun _ => true, hasTest := fun _ => true, hasFunction := fun _ => true,
    callFilter := fun n v kw => callOf (applyFilter eenv n v kw), filterIsSafe := fun _ => false,
    callTest := fun n v _ => callOf ((applyTest n v).map Value.bool),
    callFunction := fun n kw => callOf (applyFunction n kw), functionIsSafe := fun _ => false,
    F := eenv.F, fmtF64 := eenv.fmtF64 }

/-- `BuiltinsRel` and `EnvRel` are satisfiable, for every evaluator environment -/
theorem builtinsRel_venvOf (eenv : Tera.Env) : BuiltinsRel (venvOf eenv) eenv := by
  refine ⟨?_, ?_, ?_⟩
  · intro name v kw _
    cases hr : applyFilter eenv name v kw with
    | ok r => exact ⟨rfl, r, by simp [venvOf, callOf, hr], rfl⟩
    | error err =>
      intro hrep
      refine ⟨rfl, .inr ?_⟩
      cases err <;> simp [reportable] at hrep <;> simp [venvOf, callOf, hr]
  · intro name v kw _
    cases hr : applyTest name v with
    | ok b => exact ⟨rfl, by simp [venvOf, callOf, hr, Except.map]⟩
    | error err =>
      intro hrep
      refine ⟨rfl, .inr ?_⟩
      cases err <;> simp [reportable] at hrep <;> simp [venvOf, callOf, hr, Except.map]
  · intro name kw _
    cases hr : applyFunction name kw with
    | ok r => exact ⟨rfl, r, by simp [venvOf, callOf, hr], rfl⟩
    | error err =>
      intro hrep
      refine ⟨rfl, .inr ?_⟩
      cases err <;> simp [reportable] at hrep <;> simp [venvOf, callOf, hr]

theorem envRel_venvOf (eenv : Tera.Env) : EnvRel (venvOf eenv) eenv := ⟨rfl, rfl⟩

def exVenv : Vm.Env := venvOf exEenv

def exVm : VmCtx :=
  { template := { name := "t", chunk := ⟨"t", []⟩, autoescape := true, parents := [],
                  blockLineage := [], components := [] },
    autoescapeOverride := none, depth := 0 }

def agree (e : Expr) (ctx : Ctx) (loops : Bool := false) : Bool :=
  match embed (exprCode 0 none e) with
  | none => false
  | some vcode =>
    match evalExpr 20 exEenv (Scope.root ctx []) e,
        runLoop (fun _ _ _ => .outOfFuel) exVenv exVm ⟨"t", vcode⟩ (if loops then 400 else vcode.length) 0
          (State.fresh (Scope.root ctx [])) with
    | .ok v, .done st' => (match st'.stack with | [(w, _)] => v == w | _ => false)
    | .error err, .err re => errMatch err re
    | _, _ => false

/-- the hypotheses of the theorems are satisfiable -/
example : EnvRel exVenv exEenv := envRel_venvOf _
example : BuiltinsRel exVenv exEenv := builtinsRel_venvOf _
example (code : List VEntry) : reportTargetOk exVenv exVm ⟨"t", code⟩ = true := by
  simp [reportTargetOk, exVm]

def num (n : Int) : Expr := .const (.i64 n)
def strLit (s : String) : Expr := .const (.str false s.toList)

/-- `1 + 2 * 3` -/
def ex1 : Expr := .binary .Plus (num 1) (.binary .Mul (num 2) (num 3))
example : InCore true ex1 := .binary _ rfl (.const _) (.binary _ rfl (.const _) (.const _))
example : agree ex1 [] = true := by decide +kernel
example : (match evalExpr 20 exEenv (Scope.root [] []) ex1 with | .ok (.i128 7) => true | _ => false) = true := by
  decide +kernel

/-- `a and b.c or "x"` -/
def ex2 : Expr :=
  .binary .Or (.binary .And (.var "a") (.getAttr (.var "b") "c" false)) (strLit "x")
example : InCore true ex2 := .or (.and (.var _) (.getAttr _ _ (.var _))) (.const _)
/-- `a` truthy, `b.c` truthy: the result is `b.c` -/
example : agree ex2 [("a", .bool true), ("b", .map [(.str ['c'], .u64 5)])] = true := by decide +kernel
/-- `a` falsy: `b.c` is skipped (here `b` is undefined: evaluating `b.c` would be an error) -/
example : agree ex2 [("a", .u64 0)] = true := by decide +kernel
/-- `a` truthy, `b` undefined: an undefined-class error in both models -/
example : agree ex2 [("a", .bool true)] = true := by decide +kernel
example : (match evalExpr 20 exEenv (Scope.root [("a", .bool true)] []) ex2 with
    | .error .undefined => true | _ => false) = true := by decide +kernel
/-- `a` truthy, `b.c` missing (undefined, one level): the result is `"x"` -/
example : agree ex2 [("a", .bool true), ("b", .map [])] = true := by decide +kernel

/-- `x if c else y.z` -/
def ex3 : Expr := .ternary (.var "c") (.var "x") (.getAttr (.var "y") "z" false)
example : InCore true ex3 := .ternary (.var _) (.var _) (.getAttr _ _ (.var _))
/-- `c` truthy: `y.z` is not evaluated although `y` is undefined -/
example : agree ex3 [("c", .bool true), ("x", .u64 1)] = true := by decide +kernel
/-- `c` falsy, `y` undefined: error in both -/
example : agree ex3 [("c", .bool false), ("x", .u64 1)] = true := by decide +kernel
example : agree ex3 [("c", .bool false), ("y", .map [(.str ['z'], .str false ['o', 'k'])])] = true := by
  decide +kernel

/-- `-(a // 0)`, `not (1 < "a")`, `"n=" ~ 1`, `2 ** 3 ** 2 == 512`, `a?.b?.c` -/
example : agree (.unary .Minus (.binary .FloorDiv (.var "a") (num 0))) [("a", .i64 4)] = true := by
  decide +kernel
example : agree (.unary .Not (.binary .LessThan (num 1) (strLit "a"))) [] = true := by decide +kernel
example : agree (.binary .StrConcat (strLit "n=") (num 1)) [] = true := by decide +kernel
example : agree (.binary .Equal (.binary .Power (num 2) (.binary .Power (num 3) (num 2))) (num 512)) [] = true := by
  decide +kernel
example : agree (.getAttr (.getAttr (.var "a") "b" true) "c" true) [] = true := by decide +kernel
example : agree (.getAttr (.getAttr (.var "a") "b" false) "c" false) [("a", .map [])] = true := by
  decide +kernel

/-- `a[1]`, `a[i]` with `i` undefined, `s[1:]`, `s[::-1]`, `a?[0]`, `a[::0]` (step 0), `m["k"]` -/
example : agree (.getItem (.var "a") (num 1) false) [("a", .arr [.u64 7, .u64 8])] = true := by
  decide +kernel
example : agree (.getItem (.var "a") (.var "i") false) [("a", .arr [.u64 7, .u64 8])] = true := by
  decide +kernel
example : agree (.slice (.var "s") (some (num 1)) none none false) [("s", .str false ['a', 'b', 'c'])] = true := by
  decide +kernel
example : agree (.slice (.var "s") none none (some (num (-1))) false) [("s", .arr [.u64 1, .u64 2])] = true := by
  decide +kernel
example : agree (.getItem (.var "a") (num 0) true) [] = true := by decide +kernel
example : agree (.slice (.var "s") none none (some (num 0)) false) [("s", .arr [.u64 1, .u64 2])] = true := by
  decide +kernel
example : agree (.slice (.var "s") (some (.var "u")) none none false) [("s", .arr [.u64 1, .u64 2])] = true := by
  decide +kernel
example : agree (.getItem (.var "m") (strLit "k") false) [("m", .map [(.str ['k'], .bool true)])] = true := by
  decide +kernel

/-- array and map literals with spreads; `in` on a literal; a spread of a non-array is an error in
both models -/
example : agree (.array [.item (num 1), .item (.var "a"), .spread (.var "b")])
    [("a", .bool true), ("b", .arr [.u64 7, .u64 8])] = true := by decide +kernel
example : agree (.array [.item (num 1), .spread (.var "b")]) [("b", .u64 7)] = true := by decide +kernel
example : agree (.array []) [] = true := by decide +kernel
example : agree (.binary .In (num 2) (.array [.item (num 1), .item (num 2)])) [] = true := by
  decide +kernel
example : agree (.map [.keyValue (.str ['k']) (num 1), .keyValue (.str ['k']) (num 2),
    .keyValue (.u64 3) (.var "a")]) [("a", .bool true)] = true := by decide +kernel
example : agree (.map [.keyValue (.str ['k']) (num 1), .spread (.var "m"), .keyValue (.str ['j']) (num 2)])
    [("m", .map [(.str ['k'], .u64 9), (.str ['z'], .u64 8)])] = true := by decide +kernel
example : agree (.map [.spread (.var "m")]) [("m", .u64 1)] = true := by decide +kernel
example : agree (.map []) [] = true := by decide +kernel

/-- filters, tests and functions with keyword arguments (the VM's table is `venvOf`) -/
example : agree (.filter (.var "x") "default" [("value", strLit "d")]) [] = true := by decide +kernel
example : agree (.filter (.var "x") "default" [("boolean", .const (.bool true)), ("value", strLit "d")])
    [("x", .u64 0)] = true := by decide +kernel
example : agree (.filter (.var "s") "upper" []) [("s", .str false ['a', 'b'])] = true := by decide +kernel
example : agree (.filter (.var "s") "upper" []) [("s", .u64 1)] = true := by decide +kernel
example : agree (.filter (.array [.item (num 1), .item (num 2)]) "join" [("sep", strLit ", ")]) [] = true := by
  decide +kernel
example : agree (.filter (.filter (.var "s") "safe" []) "length" []) [("s", .str false ['a', 'b'])] = true := by
  decide +kernel
example : agree (.test (.var "x") "defined" []) [] = true := by decide +kernel
example : agree (.test (.getAttr (.var "x") "y" false) "defined" []) [] = true := by decide +kernel
example : agree (.test (num 3) "odd" []) [] = true := by decide +kernel
example : agree (.test (strLit "a") "odd" []) [] = true := by decide +kernel
example : agree (.functionCall "range" [("end", num 3)]) [] = true := by decide +kernel
example : agree (.functionCall "range" [("end", num 3), ("start", .var "u")]) [] = true := by decide +kernel
example : agree (.functionCall "throw" [("message", strLit "boom")]) [] = true := by decide +kernel
example : agree (.binary .Or (.var "a") (.functionCall "throw" [("message", strLit "boom")]))
    [("a", .u64 1)] = true := by decide +kernel

/-- list comprehensions: `[x * 2 for x in xs if x > 1]`, over a map with key and value, over a
non-iterable (error), with an error in the body, nested, with the loop variable shadowing -/
def exCompr : Expr :=
  .listComprehension (.binary .Mul (.var "x") (num 2)) none "x" (.var "xs")
    (some (.binary .GreaterThan (.var "x") (num 1)))
example : InCore false exCompr :=
  .compr _ _ rfl (.binary _ rfl (.var _) (.const _)) (.var _)
    (fun x hx => by cases hx; exact .binary _ rfl (.var _) (.const _))
example : agree exCompr [("xs", .arr [.u64 1, .u64 2, .u64 3])] true = true := by decide +kernel
example : (match evalExpr 20 exEenv (Scope.root [("xs", .arr [.u64 1, .u64 2, .u64 3])] []) exCompr with
    | .ok (.arr [.i128 4, .i128 6]) => true | _ => false) = true := by decide +kernel
example : agree exCompr [("xs", .arr [])] true = true := by decide +kernel
example : agree exCompr [("xs", .u64 3)] true = true := by decide +kernel
example : agree exCompr [("xs", .arr [.u64 5, .str false ['a']])] true = true := by decide +kernel
example : agree (.listComprehension (.binary .StrConcat (.var "k") (.var "v")) (some "k") "v" (.var "m") none)
    [("m", .map [(.str ['b'], .u64 2), (.str ['a'], .u64 1)])] true = true := by decide +kernel
example : agree (.listComprehension (.var "v") (some "k") "v" (.var "m") none)
    [("m", .arr [.u64 1])] true = true := by decide +kernel
example : agree (.listComprehension
      (.listComprehension (.binary .Plus (.var "x") (.var "y")) none "y" (.var "x2") none)
      none "x" (.var "xs") none)
    [("xs", .arr [.u64 1, .u64 2]), ("x2", .arr [.u64 10, .u64 20])] true = true := by decide +kernel
example : agree (.binary .Plus (.var "x")
      (.filter (.listComprehension (.var "x") none "x" (.var "xs") none) "length" []))
    [("x", .u64 100), ("xs", .arr [.u64 1, .u64 2])] true = true := by decide +kernel

/-! ### whole templates of the statement core through `Tera.render` and `Vm.render` -/

def agreeT (nodes : List Node) (ae : Bool) (ctx : Ctx) (loops : Bool := false) : Bool :=
  match embed (nodesCode 0 none nodes) with
  | none => false
  | some vcode =>
    let tpl : TemplateInfo := { name := "t", chunk := ⟨"t", vcode⟩, autoescape := ae, parents := [],
                                blockLineage := [], components := [] }
    match Tera.render 40 { exEenv with templates := [("t", ⟨nodes, ae⟩)] } "t" ctx [],
        Vm.render ⟨1, if loops then 2000 else vcode.length⟩ { exVenv with templates := [("t", tpl)] } "t" none ctx [] with
    | .ok text, .ok text' => text == text' && !text.isEmpty
    | .error err, .err re => errMatch err re
    | _, _ => false

/-- `Hello {{ name }}!{% if a and b.c %}X{% elif z %}Y{% else %}{{ 1 + 2 * 3 }}{% endif %}`
`{% set q = a or "<d>" %}{{ q }}` -/
def exBody : List Node :=
  [.content "Hello ", .expression (.var "name"), .content "!",
   .if ex2body [.content "X"] [.if (.var "z") [.content "Y"] [.expression ex1]],
   .set "q" (.binary .Or (.var "a") (strLit "<d>")) false, .expression (.var "q")]
where ex2body : Expr := .binary .And (.var "a") (.getAttr (.var "b") "c" false)

example : ∀ n ∈ exBody, InCoreNode true (fun _ => False) false n := by
  intro n hn
  simp only [exBody, List.mem_cons, List.not_mem_nil, or_false] at hn
  rcases hn with rfl | rfl | rfl | rfl | rfl | rfl
  · exact .content _
  · exact .expression (.var _)
  · exact .content _
  · refine .if (.and (.var _) (.getAttr _ _ (.var _))) ?_ ?_
    · intro m hm; simp only [List.mem_singleton] at hm; subst hm; exact .content _
    · intro m hm; simp only [List.mem_singleton] at hm; subst hm
      refine .if (.var _) ?_ ?_
      · intro k hk; simp only [List.mem_singleton] at hk; subst hk; exact .content _
      · intro k hk; simp only [List.mem_singleton] at hk; subst hk
        exact .expression (.binary _ rfl (.const _) (.binary _ rfl (.const _) (.const _)))
  · exact .set _ _ (.or (.var _) (.const _))
  · exact .expression (.var _)

/-- first branch; autoescape on (the `<d>` default is not reached: `a` is truthy) -/
example : agreeT exBody true [("name", .str false ['<', 'b', '>']), ("a", .u64 1),
    ("b", .map [(.str ['c'], .bool true)])] = true := by decide +kernel
/-- `elif` branch -/
example : agreeT exBody true [("name", .str false ['x']), ("a", .u64 0), ("z", .bool true)] = true := by
  decide +kernel
/-- `else` branch, `q` gets the (escaped) default -/
example : agreeT exBody true [("name", .str false ['x'])] = true := by decide +kernel
example : agreeT exBody false [("name", .str false ['x'])] = true := by decide +kernel
/-- `name` undefined: printing it is an undefined-class error in both -/
example : agreeT exBody true [("a", .u64 1)] = true := by decide +kernel
/-- `a` truthy, `b` undefined: `b.c` is an error in both -/
example : agreeT exBody true [("name", .str false ['x']), ("a", .u64 1)] = true := by decide +kernel

/-- `{% for k, v in m %}{{ loop.index }}:{{ k }}={{ v }}{% if v == 2 %}{% continue %}{% endif %}`
`{% if v > 2 %}{% break %}{% endif %},{% else %}none{% endfor %}|`
`{% for x in xs %}{% set s = x %}{% for y in [1, 2] %}{{ x * y }} {% endfor %}{% endfor %}{{ s }}` -/
def exLoops : List Node :=
  [.forLoop (some "k") "v" (.var "m")
     [.expression (.var "__tera_loop_index"), .content ":", .expression (.var "k"), .content "=",
      .expression (.var "v"),
      .if (.binary .Equal (.var "v") (num 2)) [.continue] [],
      .if (.binary .GreaterThan (.var "v") (num 2)) [.break] [],
      .content ","]
     [.content "none"],
   .content "|",
   .forLoop none "x" (.var "xs")
     [.set "s" (.var "x") false,
      .forLoop none "y" (.array [.item (num 1), .item (num 2)])
        [.expression (.binary .Mul (.var "x") (.var "y")), .content " "] []]
     [],
   .expression (.test (.var "s") "defined" [])]

example : ∀ n ∈ exLoops, InCoreNode false (fun _ => False) false n := by
  intro n hn
  simp only [exLoops, List.mem_cons, List.not_mem_nil, or_false] at hn
  rcases hn with rfl | rfl | rfl | rfl
  · refine .forLoop _ _ rfl (.var _) ?_ ?_
    · intro m hm
      simp only [List.mem_cons, List.not_mem_nil, or_false] at hm
      rcases hm with rfl | rfl | rfl | rfl | rfl | rfl | rfl | rfl
      · exact .expression (.var _)
      · exact .content _
      · exact .expression (.var _)
      · exact .content _
      · exact .expression (.var _)
      · refine .if (.binary _ rfl (.var _) (.const _)) ?_ ?_
        · intro k hk; simp only [List.mem_singleton] at hk; subst hk; exact .continue
        · intro k hk; cases hk
      · refine .if (.binary _ rfl (.var _) (.const _)) ?_ ?_
        · intro k hk; simp only [List.mem_singleton] at hk; subst hk; exact .break
        · intro k hk; cases hk
      · exact .content _
    · intro m hm; simp only [List.mem_singleton] at hm; subst hm; exact .content _
  · exact .content _
  · refine .forLoop _ _ rfl (.var _) ?_ ?_
    · intro m hm
      simp only [List.mem_cons, List.not_mem_nil, or_false] at hm
      rcases hm with rfl | rfl
      · exact .set _ _ (.var _)
      · refine .forLoop _ _ rfl (.array ?_) ?_ ?_
        · intro it hit
          simp only [List.mem_cons, List.not_mem_nil, or_false] at hit
          rcases hit with rfl | rfl <;> exact .const _
        · intro k hk
          simp only [List.mem_cons, List.not_mem_nil, or_false] at hk
          rcases hk with rfl | rfl
          · exact .expression (.binary _ rfl (.var _) (.var _))
          · exact .content _
        · intro k hk; cases hk
    · intro m hm; cases hm
  · exact .expression (.test _ (.var _) (fun p hp => by cases hp) (by simp))

/-- `break` at the third entry, `continue` at the second; nested loops; `s` is loop-local -/
example : agreeT exLoops false [("m", .map [(.str ['a'], .u64 1), (.str ['b'], .u64 2),
    (.str ['c'], .u64 3), (.str ['d'], .u64 4)]), ("xs", .arr [.u64 3, .u64 4])] true = true := by
  decide +kernel
example : (match Tera.render 40 { exEenv with templates := [("t", ⟨exLoops, false⟩)] } "t"
      [("m", .map [(.str ['a'], .u64 1), (.str ['b'], .u64 2), (.str ['c'], .u64 3), (.str ['d'], .u64 4)]),
       ("xs", .arr [.u64 3, .u64 4])] [] with
    | .ok text => text == "1:a=1,2:b=23:c=3|3 6 4 8 false".toList
    | _ => false) = true := by decide +kernel
/-- empty map: the else branch; empty `xs` -/
example : agreeT exLoops false [("m", .map []), ("xs", .arr [])] true = true := by decide +kernel
/-- `m` not a map with key/value iteration: an iteration error in both -/
example : agreeT exLoops false [("m", .arr [.u64 1]), ("xs", .arr [])] true = true := by decide +kernel
/-- an error inside the inner loop body (`x * y` with a string) -/
example : agreeT exLoops false [("m", .map []), ("xs", .arr [.str false ['a']])] true = true := by
  decide +kernel

/-- `{% filter upper %}a{{ x }}{% endfilter %}{% set t | trim | upper %} b{{ x }} {% endset %}[{{ t }}]`
`{% set_global u %}{% filter length %}xyz{% endfilter %}{% endset %}{{ u }}` -/
def exCaptures : List Node :=
  [.filterSection "upper" [] [.content "a", .expression (.var "x")],
   .blockSet "t" [.filter (.const .none) "trim" [], .filter (.const .none) "upper" []]
     [.content " b", .expression (.var "x"), .content " "] false,
   .content "[", .expression (.var "t"), .content "]",
   .blockSet "u" [] [.filterSection "length" [] [.content "xyz"]] true,
   .expression (.var "u")]

example : ∀ n ∈ exCaptures, InCoreNode true (fun _ => False) false n := by
  intro n hn
  simp only [exCaptures, List.mem_cons, List.not_mem_nil, or_false] at hn
  rcases hn with rfl | rfl | rfl | rfl | rfl | rfl | rfl
  · refine .filterSection _ (fun p hp => by cases hp) (by simp) ?_
    intro m hm
    simp only [List.mem_cons, List.not_mem_nil, or_false] at hm
    rcases hm with rfl | rfl
    · exact .content _
    · exact .expression (.var _)
  · refine .blockSet _ _ ?_ ?_
    · intro f hf
      simp only [List.mem_cons, List.not_mem_nil, or_false] at hf
      rcases hf with rfl | rfl
      · exact ⟨_, _, _, rfl, (fun p hp => by cases hp), List.nodup_nil⟩
      · exact ⟨_, _, _, rfl, (fun p hp => by cases hp), List.nodup_nil⟩
    · intro m hm
      simp only [List.mem_cons, List.not_mem_nil, or_false] at hm
      rcases hm with rfl | rfl | rfl
      · exact .content _
      · exact .expression (.var _)
      · exact .content _
  · exact .content _
  · exact .expression (.var _)
  · exact .content _
  · refine .blockSet _ _ (fun f hf => by cases hf) ?_
    intro m hm
    simp only [List.mem_singleton] at hm
    subst hm
    refine .filterSection _ (fun p hp => by cases hp) (by simp) ?_
    intro k hk
    simp only [List.mem_singleton] at hk
    subst hk
    exact .content _
  · exact .expression (.var _)

example : agreeT exCaptures true [("x", .str false ['<', 'q'])] = true := by decide +kernel
/-- `x` undefined inside the capture: the error surfaces in both -/
example : agreeT exCaptures true [] = true := by decide +kernel
/-- a filter that rejects its input (`upper` of the captured text is fine, `length` of it too; make
`x` a number so that `upper` still sees a string but the set block's `trim` sees text): -/
example : agreeT exCaptures false [("x", .u64 5)] = true := by decide +kernel

/-! ### `include`: several templates -/

/-- both template tables from one list of ASTs (autoescape on) -/
def agreeTs (tpls : List (String × List Node)) (main : String) (ctx : Ctx) : Bool :=
  let venvTpls := tpls.filterMap fun (n, nodes) =>
    (embed (nodesCode 0 none nodes)).map fun vcode =>
      (n, ({ name := n, chunk := ⟨n, vcode⟩, autoescape := true, parents := [], blockLineage := [],
             components := [] } : TemplateInfo))
  match Tera.render 60 { exEenv with templates := tpls.map fun (n, nodes) => (n, ⟨nodes, true⟩) } main ctx [],
      Vm.render ⟨4, 3000⟩ { exVenv with templates := venvTpls } main none ctx [] with
  | .ok text, .ok text' => text == text' && !text.isEmpty
  | .error err, .err re => errMatch err re
  | _, _ => false

/-- `main`: `{% set t = "T" %}{% for x in xs %}{% include "row" %}{% endfor %}{% include "foot" %}`
`row`: `[{{ loop.index }}:{{ x }}{{ t }}{% set t = x %}{{ t }}]`   (reads the includer's loop and
variables; its own `set` stays its own)
`foot`: `{{ t }}{% include "missing" %}` -/
def exIncl : List (String × List Node) :=
  [("main", [.set "t" (strLit "T") false,
             .forLoop none "x" (.var "xs") [.include "row"] [],
             .include "foot"]),
   ("row", [.content "[", .expression (.var "__tera_loop_index"), .content ":", .expression (.var "x"),
            .expression (.var "t"), .set "t" (.var "x") false, .expression (.var "t"), .content "]"]),
   ("foot", [.expression (.var "t")])]

example : agreeTs exIncl "main" [("xs", .arr [.u64 7, .u64 8])] = true := by decide +kernel
example : (match Tera.render 60 { exEenv with templates := exIncl.map fun (n, nodes) => (n, ⟨nodes, true⟩) }
      "main" [("xs", .arr [.u64 7, .u64 8])] [] with
    | .ok text => text == "[1:7T7][2:8T8]T".toList
    | _ => false) = true := by decide +kernel
/-- an error inside the included template (`x` is a map: `{{ x }}` prints, `xs` not iterable) -/
example : agreeTs exIncl "main" [("xs", .u64 1)] = true := by decide +kernel
/-- including a template that does not exist: `missingTemplate` / `templateNotFound` -/
example : agreeTs (exIncl ++ [("m2", [.content "a", .include "nope"])]) "m2" [] = true := by decide +kernel
example : nodesInCore ["row", "foot"] false (exIncl.head!.2) = true := by decide

/-! ### from SOURCE TEXT

`agreeSrc src ctx`: the lexer, whitespace-filter and parser models (Model/Pipeline.lean `front`)
turn the source into an AST; the AST must pass the domain check `nodesInCore`; then the evaluator
on the AST against compiler + VM, as above (autoescape on).  So these are spot checks of
`render_correct_checked` on ASTs the parser model really produces. -/

def srcOf (s : String) : List Nat := s.toList.map fun c => c.toNat

def agreeSrc (src : String) (ctx : Ctx) : Bool :=
  match Pipeline.front Generated.defaultDelims (srcOf src) with
  | .ok t => nodesInCore [] false t.nodes && agreeT t.nodes true ctx true
  | _ => false

def srcCtx : Ctx :=
  [("name", .str false ['b', '<', 'b']), ("xs", .arr [.u64 1, .u64 2, .u64 3]),
   ("a", .map [(.str ['b'], .str false [])]), ("m", .map [(.str ['k'], .u64 7), (.str ['j'], .u64 8)])]

example : agreeSrc ("Hello {{ name | upper }}! {% for x in xs %}{{ loop.index }}={{ x * 2 }}"
    ++ "{% if not loop.last %}, {% endif %}{% else %}none{% endfor %}") srcCtx = true := by decide +kernel
example : agreeSrc ("{{ [y + 1 for y in xs if y > 1] | length }} {% set t = a.b or 'd' %}"
    ++ "{{ t if t else 'z' }}") srcCtx = true := by decide +kernel
example : agreeSrc ("{% for k, v in m %}{{ k ~ '=' ~ v }}{% if v == 7 %}{% continue %}{% endif %};"
    ++ "{% endfor %}") srcCtx = true := by decide +kernel
example : agreeSrc ("{% filter upper %}x{{ name }}{% endfilter %}{% set_global g %}{{ xs | length }}"
    ++ "{% endset %}{{ g }}") srcCtx = true := by decide +kernel
example : agreeSrc ("{{ 1 + 2 * 3 }} {{ 2 ** 3 ** 2 }} {{ not a.b }} {{ xs[1:] | join(sep='-') }} "
    ++ "{{ xs[-1] }} {{ m['k'] }} {{ name is defined and zz is not defined }}") srcCtx = true := by
  decide +kernel
example : agreeSrc ("{% for x in xs %}{% if x == 2 %}{% break %}{% endif %}{{ x }}{% endfor %}"
    ++ "{{ range(end=3) | last }}{{ 7 // 2 }}{{ 7 % 4 }}{{ 1 in xs }}{{ 'b<' in name }}") srcCtx = true := by
  decide +kernel
example : agreeSrc ("{% if xs | length > 2 %}big{% elif xs %}small{% else %}none{% endif %}"
    ++ "{% set mm = {\"a\": 1, ...m} %}{{ mm.a }}{{ mm.k }}{{ [0, ...xs][3] }}") srcCtx = true := by
  decide +kernel
example : agreeSrc ("{{ name | safe }}{{ name }}{{ name | default(value=\"q\") }}"
    ++ "{{ qq | default(value=name) }}{{ -xs[0] }}{{ xs?.a }}{{ a?.b?.c is defined }}") srcCtx = true := by
  decide +kernel
/-- errors from source: an undefined base, a type error -/
example : agreeSrc "{{ zz.y }}" srcCtx = true := by decide +kernel
example : agreeSrc "{{ xs | first + 'a' }}" srcCtx = true := by decide +kernel

/-! ### the domain check on the examples above, and on what it must refuse -/
example : exprInCore ex1 = true ∧ exprInCore ex2 = true ∧ exprInCore ex3 = true
    ∧ exprInCore exCompr = true := by decide
example : nodesInCore [] false exBody = true ∧ nodesInCore [] false exLoops = true
    ∧ nodesInCore [] false exCaptures = true := by decide
example : exprInCore (.componentCall "c" [] [] true) = false := by decide
example : exprInCore (.binary .Is (.var "a") (.var "b")) = false := by decide
example : exprInCore (.functionCall "f" [("a", num 1), ("a", num 2)]) = false := by decide
example : nodesInCore [] false [.include "x"] = false ∧ nodesInCore [] false [.block "b" []] = false
    ∧ nodesInCore [] false [.break] = false ∧ nodesInCore [] false [.forLoop none "x" (.var "xs") [.break] []] = true
    ∧ nodesInCore [] false [.forLoop none "x" (.var "xs") [.filterSection "upper" [] [.break]] []] = false := by
  decide

end Tera.Refine
