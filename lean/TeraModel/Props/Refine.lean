/-
Compiler correctness: running the model COMPILER's output (Model/Compiler.lean `exprCode`) on the
model VM (Model/Vm.lean `runLoop`) computes what the AST-level EVALUATOR (Model/Eval.lean
`evalExpr`) computes.  This links two stage models of DESIGN §10.3 BY PROOF (each of them is tied
to the real stage by its own correspondence harness: c07c / cvm / c03).

What is related, and how
* Code: `exprCode base loop e` is the instruction list `compile_expr(e)` appends when the chunk
  already holds `base` instructions; jump operands are absolute and computed from `base`.  The
  chunk the VM runs is typed (`Vm.VInstr` with span lists); the typed image of a compiled
  instruction is the pipeline adapter `Pipeline.vinstr` (Model/Pipeline.lean), a span list is
  non-empty exactly when the compiler added the instruction with a span (`CodeAt`, `embed`).
  The theorems are about UNOPTIMISED code (C09 is the bridge over `Chunk::optimize`).
* Scopes: the evaluator's `Scope` and the VM state's `scope` field are the same type
  (Model/Scope.lean), so the correspondence `ScopeRel` is equality of that component; `StRel`
  adds output and capture stack for statements.
* Values: the stack relation is "same values, any span ranges": the theorem says the VM ends in
  `st.push v rg` for SOME range `rg` (of which it only promises `SpanOk`: both ends carry a span).
* Errors: classes, `errMatch` (Lemmas/RefineInstr.lean); the evaluator's `fuel` and `unsupported`
  outcomes are not errors of the engine and are excluded (`reportable`).
* Fuel: the VM needs at most as many steps as the code has instructions (the core has no loop):
  `runLoop (n + k) … = runLoop k …` with `n ≤ |code|`.
* Environment: both models leave float arithmetic and float printing open; they must be given
  the same ones (`EnvRel`).  An error report must be possible at all (`reportTargetOk`: the
  chunk's template is the VM's or is registered — Props/C07Vm.lean has the same hypothesis).
-/
import TeraModel.Lemmas.RefineExpr
import TeraModel.Lemmas.EvalFuel
namespace Tera.Refine
open Tera Tera.Vm Tera.Compiler

/-! ## The correspondence between evaluator scopes / states and VM states -/

/-- The VM state `st` reads names the way the evaluator scope `sc` does: loop stack, `set`
variables, includer chain, context and global context are literally the evaluator's. -/
def ScopeRel (st : State) (sc : Scope) : Prop := st.scope = sc

/-- … and for statements: same scope, same output so far, same capture stack. -/
def StRel (st : State) (est : Tera.St) : Prop :=
  st.scope = est.scope ∧ st.out = est.out ∧ st.captures = est.captures

/-- non-vacuity: the state `Tera::render` starts the VM in corresponds to the scope the
evaluator's `render` starts from, for every context -/
example (ctx g : Ctx) : ScopeRel (entryState none ctx g) (Scope.root ctx g) := rfl
example (ctx g : Ctx) :
    StRel (entryState none ctx g) { scope := Scope.root ctx g, out := [], captures := [] } :=
  ⟨rfl, rfl, rfl⟩
/-- … and it is not the trivial relation -/
example : ¬ ScopeRel (entryState none [("x", .u64 1)] []) (Scope.root [] []) := by
  intro h
  simp [ScopeRel, entryState, State.fresh, Scope.root] at h

/-! ## R1: `compile_expr_correct` -/

/-- The statement, for the expressions satisfying `P`: for every code context (`pre`, `post`),
every loop context of the compiler, every VM state whose scope is the evaluator's, every value
stack, every evaluator fuel. -/
def CompileExprCorrect (P : Expr → Prop) : Prop :=
  ∀ (rec : VmCtx → Chunk → State → RunRes) (venv : Vm.Env) (eenv : Tera.Env) (vm : VmCtx)
    (name : String) (pre post vcode : List VEntry) (loop : Option Nat) (e : Expr),
    P e → EnvRel venv eenv →
    embed (exprCode pre.length loop e) = some vcode →
    reportTargetOk venv vm ⟨name, pre ++ vcode ++ post⟩ = true →
    ∀ (st : State) (sc : Scope), ScopeRel st sc → ∀ (fuel : Nat),
      (∀ v, evalExpr fuel eenv sc e = .ok v →
        ∃ n rg, n ≤ vcode.length ∧ SpanOk ⟨name, pre ++ vcode ++ post⟩ rg ∧
          ∀ k, runLoop rec venv vm ⟨name, pre ++ vcode ++ post⟩ (n + k) pre.length st
            = runLoop rec venv vm ⟨name, pre ++ vcode ++ post⟩ k (pre.length + vcode.length)
                (st.push v rg))
      ∧ (∀ err, evalExpr fuel eenv sc e = .error err → reportable err = true →
        ∃ n re, n ≤ vcode.length ∧ errMatch err re = true ∧
          ∀ k, runLoop rec venv vm ⟨name, pre ++ vcode ++ post⟩ (n + k) pre.length st = .err re)

/-- Full strength: every expression the parser can produce (`exprScoped`: no binary `Is` /
`Pipe` node).  NOT proved in full: `compile_expr_correct_core` proves it for `InCore`. -/
def compile_expr_correct_full : Prop := CompileExprCorrect (fun e => exprScoped e = true)

theorem embed_length : ∀ {code : Code} {vcode : List VEntry}, embed code = some vcode →
    vcode.length = code.length
  | [], vcode, h => by simp [embed] at h; subst h; rfl
  | ce :: rest, vcode, h => by
    simp only [embed, List.mapM_cons, Option.bind_eq_bind, Option.pure_def] at h
    cases hv : Pipeline.vinstr ce.1 with
    | none => simp [hv] at h
    | some vi =>
      simp only [hv, Option.map_some, Option.bind_some] at h
      cases hr : List.mapM (fun ce => (Pipeline.vinstr ce.1).map fun vi => (vi, Pipeline.spansOf ce.2)) rest with
      | none => simp [hr] at h
      | some vrest =>
        simp only [hr, Option.bind_some, Option.some.injEq] at h
        subst h
        simp [embed_length (code := rest) hr]

/-- `compile_expr_correct` on the core `InCore`: constants, variables, (optional) attribute
access, `not`, unary minus, `* / // % + - **`, `< > <= >=`, `== !=`, `~`, `in`, `and`, `or`
(short-circuit jumps), the ternary, nested arbitrarily. -/
theorem compile_expr_correct_core : CompileExprCorrect InCore := by
  intro rec venv eenv vm name pre post vcode loop e hcore hE hemb ht st sc hsc fuel
  have hlen := embed_length hemb
  have hcode := codeAt_of_embed (name := name) (pre := pre) (post := post) hemb
  have hsim := expr_sim (rec := rec) hE ht fuel e hcore pre.length loop st hcode
  rw [hsc] at hsim
  constructor
  · intro v hv
    rw [hv] at hsim
    obtain ⟨tr, rg, hrun, hsp, _, hl⟩ := hsim
    refine ⟨tr.length, rg, by omega, hsp, fun k => ?_⟩
    rw [hlen]
    exact hrun.runLoop k
  · intro err hv hrep
    rw [hv] at hsim
    obtain ⟨tr, re, hf, hm, _, hl⟩ := hsim hrep
    exact ⟨tr.length, re, by omega, hm, fun k => hf.runLoop k⟩

/-- The same with the code anywhere in any chunk (`CodeAt`) and with the trace: the run executes
only instructions of the expression's own range, at most `|code|` of them. -/
theorem compile_expr_correct_at {rec : VmCtx → Chunk → State → RunRes} {venv : Vm.Env}
    {eenv : Tera.Env} {vm : VmCtx} {c : Chunk} (hE : EnvRel venv eenv)
    (ht : reportTargetOk venv vm c = true) (fuel : Nat) (e : Expr) (hcore : InCore e) (base : Nat)
    (loop : Option Nat) (st : State) (hcode : CodeAt c base (exprCode base loop e)) :
    ExprOutcome rec venv vm c (evalExpr fuel eenv st.scope e) base (exprCode base loop e).length st :=
  expr_sim hE ht fuel e hcore base loop st hcode

/-- never a panic, never `unmodelled`, never out of step fuel: with `|code|` units of step fuel
the loop is past the expression's code (with the evaluator's value on the stack) or has returned
a rendering error, whenever the evaluator gives a value or a reportable error -/
theorem compile_expr_no_panic {rec : VmCtx → Chunk → State → RunRes} {venv : Vm.Env}
    {eenv : Tera.Env} {vm : VmCtx} {c : Chunk} (hE : EnvRel venv eenv)
    (ht : reportTargetOk venv vm c = true) (fuel : Nat) (e : Expr) (hcore : InCore e) (base : Nat)
    (loop : Option Nat) (st : State) (hcode : CodeAt c base (exprCode base loop e))
    (hrep : ∀ err, evalExpr fuel eenv st.scope e = .error err → reportable err = true) (k : Nat) :
    (∃ v rg n, n ≤ (exprCode base loop e).length ∧ evalExpr fuel eenv st.scope e = .ok v ∧
        runLoop rec venv vm c ((exprCode base loop e).length + k) base st
          = runLoop rec venv vm c ((exprCode base loop e).length - n + k)
              (base + (exprCode base loop e).length) (st.push v rg))
    ∨ (∃ re, runLoop rec venv vm c ((exprCode base loop e).length + k) base st = .err re) := by
  have hsim := expr_sim (rec := rec) hE ht fuel e hcore base loop st hcode
  cases hv : evalExpr fuel eenv st.scope e with
  | ok v =>
    rw [hv] at hsim
    obtain ⟨tr, rg, hrun, _, _, hl⟩ := hsim
    refine .inl ⟨v, rg, tr.length, hl, rfl, ?_⟩
    have := hrun.runLoop ((exprCode base loop e).length - tr.length + k)
    rw [← this]; congr 1; omega
  | error err =>
    rw [hv] at hsim
    obtain ⟨tr, re, hf, _, _, hl⟩ := hsim (hrep err hv)
    refine .inr ⟨re, ?_⟩
    have := hf.runLoop ((exprCode base loop e).length - tr.length + k)
    rw [← this]; congr 1; omega

/-! ## R2: evaluator theorems transferred to the compiled code -/

section
variable {rec : VmCtx → Chunk → State → RunRes} {venv : Vm.Env} {eenv : Tera.Env} {vm : VmCtx}
  {c : Chunk}

/-- `and_or_short_circuit_compiled` (`and`): when the left operand (in the core) evaluates to a
falsy `a`, the compiled `l and r` leaves `a` itself on the stack and NO instruction of `r`'s code
range `[base + |l| + 1, end)` is executed — for EVERY right operand `r`, in the core or not. -/
theorem and_short_circuit_compiled (hE : EnvRel venv eenv) (ht : reportTargetOk venv vm c = true)
    (fuel : Nat) (l r : Expr) (hl : InCore l) (base : Nat) (loop : Option Nat) (st : State)
    (hcode : CodeAt c base (exprCode base loop (.binary .And l r)))
    (a : Value) (hev : evalExpr fuel eenv st.scope l = .ok a) (hfalsy : a.isTruthy = false) :
    ∃ tr rg, Run rec venv vm c base st tr (base + (exprCode base loop (.binary .And l r)).length)
        (st.push a rg)
      ∧ ∀ p, base + (exprCode base loop l).length + 1 ≤ p → p ∉ tr := by
  rw [exprCode_and] at hcode ⊢
  rw [CodeAt.append, CodeAt.append] at hcode
  obtain ⟨⟨hc1, hc2⟩, _⟩ := hcode
  have hent := CodeAt.single.mp hc2
  have h1 := expr_sim (rec := rec) hE ht fuel l hl base loop st hc1
  rw [hev] at h1
  obtain ⟨tr1, rg1, hrun1, _, hw1, _⟩ := h1
  refine ⟨tr1 ++ [_], rg1, ((hrun1.trans (run_jumpIfFalseOrPop_false hent st a rg1 hfalsy)).cast ?_), ?_⟩
  · simp only [List.length_append, List.length_singleton]; omega
  · intro p hp hm
    rcases List.mem_append.mp hm with h | h
    · have := hw1 p h; omega
    · simp only [List.mem_singleton] at h; omega

/-- `and_or_short_circuit_compiled` (`or`): dually, a truthy left operand is the result and `r`'s
code is not executed. -/
theorem or_short_circuit_compiled (hE : EnvRel venv eenv) (ht : reportTargetOk venv vm c = true)
    (fuel : Nat) (l r : Expr) (hl : InCore l) (base : Nat) (loop : Option Nat) (st : State)
    (hcode : CodeAt c base (exprCode base loop (.binary .Or l r)))
    (a : Value) (hev : evalExpr fuel eenv st.scope l = .ok a) (htruthy : a.isTruthy = true) :
    ∃ tr rg, Run rec venv vm c base st tr (base + (exprCode base loop (.binary .Or l r)).length)
        (st.push a rg)
      ∧ ∀ p, base + (exprCode base loop l).length + 1 ≤ p → p ∉ tr := by
  rw [exprCode_or] at hcode ⊢
  rw [CodeAt.append, CodeAt.append] at hcode
  obtain ⟨⟨hc1, hc2⟩, _⟩ := hcode
  have hent := CodeAt.single.mp hc2
  have h1 := expr_sim (rec := rec) hE ht fuel l hl base loop st hc1
  rw [hev] at h1
  obtain ⟨tr1, rg1, hrun1, _, hw1, _⟩ := h1
  refine ⟨tr1 ++ [_], rg1, ((hrun1.trans (run_jumpIfTrueOrPop_true hent st a rg1 htruthy)).cast ?_), ?_⟩
  · simp only [List.length_append, List.length_singleton]; omega
  · intro p hp hm
    rcases List.mem_append.mp hm with h | h
    · have := hw1 p h; omega
    · simp only [List.mem_singleton] at h; omega

/-- the evaluator agrees (Props/C02Eval.lean `and_or_short_circuit`): that value is `l and r` -/
theorem and_short_circuit_value (fuel : Nat) (sc : Scope) (l r : Expr) (a : Value)
    (hev : evalExpr fuel eenv sc l = .ok a) (hfalsy : a.isTruthy = false) :
    evalExpr (fuel + 1) eenv sc (.binary .And l r) = .ok a := by
  simp [evalExpr, hev, hfalsy]

/-- `ternary_lazy_compiled`, condition truthy: the VM's result is the `t` branch's (value or error
class), and no instruction of `f`'s code range is executed — for EVERY `f`, in the core or not. -/
theorem ternary_lazy_compiled_true (hE : EnvRel venv eenv) (ht : reportTargetOk venv vm c = true)
    (fuel : Nat) (cnd t f : Expr) (hc : InCore cnd) (htc : InCore t) (base : Nat)
    (loop : Option Nat) (st : State)
    (hcode : CodeAt c base (exprCode base loop (.ternary cnd t f)))
    (a : Value) (hev : evalExpr fuel eenv st.scope cnd = .ok a) (htruthy : a.isTruthy = true) :
    let fStart := base + (exprCode base loop cnd).length + 1
      + (exprCode (base + (exprCode base loop cnd).length + 1) loop t).length + 1
    (∀ v, evalExpr fuel eenv st.scope t = .ok v →
      ∃ tr rg, Run rec venv vm c base st tr (base + (exprCode base loop (.ternary cnd t f)).length)
          (st.push v rg) ∧ ∀ p, fStart ≤ p → p ∉ tr)
    ∧ (∀ err, evalExpr fuel eenv st.scope t = .error err → reportable err = true →
      ∃ tr re, Fails rec venv vm c base st tr re ∧ errMatch err re = true
        ∧ ∀ p, fStart ≤ p → p ∉ tr) := by
  intro fStart
  simp only [exprCode] at hcode ⊢
  rw [CodeAt.append, CodeAt.append, CodeAt.append, CodeAt.append] at hcode
  obtain ⟨⟨⟨⟨hc1, hc2⟩, hc3⟩, hc4⟩, _⟩ := hcode
  have hent2 := CodeAt.single.mp hc2
  have hent4 := CodeAt.single.mp hc4
  simp only [List.length_append, List.length_singleton, ← Nat.add_assoc] at hc3 hent4 ⊢
  have h1 := expr_sim (rec := rec) hE ht fuel cnd hc base loop st hc1
  rw [hev] at h1
  obtain ⟨tr1, rg1, hrun1, _, hw1, _⟩ := h1
  have hP := run_popJumpIfFalse (rec := rec) (venv := venv) (vm := vm) hent2 st a rg1
  simp only [htruthy, if_true] at hP
  have h2 := expr_sim (rec := rec) hE ht fuel t htc _ loop st hc3
  constructor
  · intro v hv
    rw [hv] at h2
    obtain ⟨tr2, rg2, hrun2, _, hw2, _⟩ := h2
    refine ⟨tr1 ++ [_] ++ tr2 ++ [_], rg2,
      ((((hrun1.trans hP).trans hrun2).trans (run_jump hent4 _)).cast (by omega)), ?_⟩
    intro p hp hm
    simp only [List.mem_append, List.mem_singleton] at hm
    rcases hm with ((h | h) | h) | h
    · have := hw1 p h; omega
    · omega
    · have := hw2 p h; omega
    · omega
  · intro err hv hrep
    rw [hv] at h2
    obtain ⟨tr2, re, hf, hm, hw2, _⟩ := h2 hrep
    refine ⟨tr1 ++ [_] ++ tr2, re, (hrun1.trans hP).fails hf, hm, ?_⟩
    intro p hp hmem
    simp only [List.mem_append, List.mem_singleton] at hmem
    rcases hmem with (h | h) | h
    · have := hw1 p h; omega
    · omega
    · have := hw2 p h; omega

/-- `ternary_lazy_compiled`, condition falsy: the result is the `f` branch's and no instruction
of `t`'s code range (nor the `Jump` closing it) is executed — for EVERY `t`. -/
theorem ternary_lazy_compiled_false (hE : EnvRel venv eenv) (ht : reportTargetOk venv vm c = true)
    (fuel : Nat) (cnd t f : Expr) (hc : InCore cnd) (hfc : InCore f) (base : Nat)
    (loop : Option Nat) (st : State)
    (hcode : CodeAt c base (exprCode base loop (.ternary cnd t f)))
    (a : Value) (hev : evalExpr fuel eenv st.scope cnd = .ok a) (hfalsy : a.isTruthy = false) :
    let tStart := base + (exprCode base loop cnd).length + 1
    let tEnd := tStart + (exprCode tStart loop t).length + 1
    (∀ v, evalExpr fuel eenv st.scope f = .ok v →
      ∃ tr rg, Run rec venv vm c base st tr (base + (exprCode base loop (.ternary cnd t f)).length)
          (st.push v rg) ∧ ∀ p, tStart ≤ p → p < tEnd → p ∉ tr)
    ∧ (∀ err, evalExpr fuel eenv st.scope f = .error err → reportable err = true →
      ∃ tr re, Fails rec venv vm c base st tr re ∧ errMatch err re = true
        ∧ ∀ p, tStart ≤ p → p < tEnd → p ∉ tr) := by
  intro tStart tEnd
  simp only [exprCode] at hcode ⊢
  rw [CodeAt.append, CodeAt.append, CodeAt.append, CodeAt.append] at hcode
  obtain ⟨⟨⟨⟨hc1, hc2⟩, _⟩, _⟩, hc5⟩ := hcode
  have hent2 := CodeAt.single.mp hc2
  simp only [List.length_append, List.length_singleton, ← Nat.add_assoc] at hc5 ⊢
  have h1 := expr_sim (rec := rec) hE ht fuel cnd hc base loop st hc1
  rw [hev] at h1
  obtain ⟨tr1, rg1, hrun1, _, hw1, _⟩ := h1
  have hP := run_popJumpIfFalse (rec := rec) (venv := venv) (vm := vm) hent2 st a rg1
  simp only [hfalsy, Bool.false_eq_true, if_false] at hP
  have h2 := expr_sim (rec := rec) hE ht fuel f hfc _ loop st hc5
  constructor
  · intro v hv
    rw [hv] at h2
    obtain ⟨tr2, rg2, hrun2, _, hw2, _⟩ := h2
    refine ⟨tr1 ++ [_] ++ tr2, rg2, (((hrun1.trans hP).trans hrun2).cast (by omega)), ?_⟩
    intro p hp hp2 hm
    simp only [tStart, tEnd] at hp hp2
    simp only [List.mem_append, List.mem_singleton] at hm
    rcases hm with (h | h) | h
    · have := hw1 p h; omega
    · omega
    · have := hw2 p h; omega
  · intro err hv hrep
    rw [hv] at h2
    obtain ⟨tr2, re, hf, hm, hw2, _⟩ := h2 hrep
    refine ⟨tr1 ++ [_] ++ tr2, re, (hrun1.trans hP).fails hf, hm, ?_⟩
    intro p hp hp2 hmem
    simp only [tStart, tEnd] at hp hp2
    simp only [List.mem_append, List.mem_singleton] at hmem
    rcases hmem with (h | h) | h
    · have := hw1 p h; omega
    · omega
    · have := hw2 p h; omega

/-- `one_level_undefined_compiled`: the compiled code keeps the evaluator's undefined rules
(Props/C02Eval.lean `access_on_undefined_errors`, `optional_chaining`, `undefined_tolerated`,
`math_expr_on_undefined_errors`).  For `e` in the core evaluating to undefined:
`e.name` ends in an undefined-class rendering error; `e?.name` pushes undefined; `not e` pushes
`true`; `e or r` is whatever `r` is; `e + r` (any arithmetic operator) is an error. -/
theorem one_level_undefined_compiled (hE : EnvRel venv eenv)
    (ht : reportTargetOk venv vm c = true) (fuel : Nat) (e : Expr) (he : InCore e)
    (name : String) (base : Nat)
    (loop : Option Nat) (st : State) (hu : evalExpr fuel eenv st.scope e = .ok .undef) :
    (CodeAt c base (exprCode base loop (.getAttr e name false)) →
      ∃ tr re, Fails rec venv vm c base st tr re ∧ errMatch .undefined re = true)
    ∧ (CodeAt c base (exprCode base loop (.getAttr e name true)) →
      ∃ tr rg, Run rec venv vm c base st tr
        (base + (exprCode base loop (.getAttr e name true)).length) (st.push .undef rg))
    ∧ (CodeAt c base (exprCode base loop (.unary .Not e)) →
      ∃ tr rg, Run rec venv vm c base st tr
        (base + (exprCode base loop (.unary .Not e)).length) (st.push (.bool true) rg))
    ∧ (∀ r, InCore r → CodeAt c base (exprCode base loop (.binary .Plus e r)) →
      ∀ v, evalExpr fuel eenv st.scope r = .ok v →
      ∃ tr re, Fails rec venv vm c base st tr re ∧ errMatch (.num .notNumber) re = true) := by
  refine ⟨fun hcode => ?_, fun hcode => ?_, fun hcode => ?_, fun r hr hcode v hv => ?_⟩
  · have h := expr_sim (rec := rec) hE ht (fuel + 1) _ (InCore.getAttr name false he) base loop st hcode
    have hval : evalExpr (fuel + 1) eenv st.scope (.getAttr e name false) = .error .undefined := by
      simp [evalExpr, hu, Value.isUndef]
    rw [hval] at h
    obtain ⟨tr, re, hf, hm, _, _⟩ := h rfl
    exact ⟨tr, re, hf, hm⟩
  · have h := expr_sim (rec := rec) hE ht (fuel + 1) _ (InCore.getAttr name true he) base loop st hcode
    have hval : evalExpr (fuel + 1) eenv st.scope (.getAttr e name true) = .ok .undef := by
      simp [evalExpr, hu, Value.isUndef]
    rw [hval] at h
    obtain ⟨tr, rg, hrun, _, _, _⟩ := h
    exact ⟨tr, rg, hrun⟩
  · have h := expr_sim (rec := rec) hE ht (fuel + 1) _ (InCore.unary .Not he) base loop st hcode
    have hval : evalExpr (fuel + 1) eenv st.scope (.unary .Not e) = .ok (.bool true) := by
      simp [evalExpr, hu, Value.isTruthy]
    rw [hval] at h
    obtain ⟨tr, rg, hrun, _, _, _⟩ := h
    exact ⟨tr, rg, hrun⟩
  · have h := expr_sim (rec := rec) hE ht (fuel + 1) _ (InCore.binary .Plus rfl he hr) base loop st hcode
    have hval : evalExpr (fuel + 1) eenv st.scope (.binary .Plus e r) = .error (.num .notNumber) := by
      simp [evalExpr, hu, hv, binop, Value.isNumber]
    rw [hval] at h
    obtain ⟨tr, re, hf, hm, _, _⟩ := h rfl
    exact ⟨tr, re, hf, hm⟩

end
/-! ## Spot checks: concrete expressions through both models (kernel-evaluated)

`agree e ctx`: evaluate `e` with the evaluator in `Scope.root ctx []`; compile it at index 0,
embed the code, run the VM's interpreter loop on it from the fresh state over the same scope with
exactly `|code|` units of step fuel; compare: a value with the single slot left on the stack, an
error with the rendering error's class. -/

def exF : FloatOps :=
  { add := fun a _ => a, sub := fun a _ => a, mul := fun a _ => a, div := fun a _ => a,
    remEuclid := fun a _ => a, divEuclid := fun a _ => a, powf := fun a _ => a, neg := fun a => a }

def exEenv : Tera.Env := { templates := [], F := exF, fmtF64 := fun _ => [] }

def exVenv : Vm.Env :=
  { templates := [], components := [],
    hasFilter := fun _ => false, hasTest := fun _ => false, hasFunction := fun _ => false,
    callFilter := fun _ _ _ => .err, filterIsSafe := fun _ => false,
    callTest := fun _ _ _ => .err, callFunction := fun _ _ => .err, functionIsSafe := fun _ => false,
    F := exF, fmtF64 := fun _ => [] }

def exVm : VmCtx :=
  { template := { name := "t", chunk := ⟨"t", []⟩, autoescape := true, parents := [],
                  blockLineage := [], components := [] },
    autoescapeOverride := none, depth := 0 }

def agree (e : Expr) (ctx : Ctx) : Bool :=
  match embed (exprCode 0 none e) with
  | none => false
  | some vcode =>
    match evalExpr 20 exEenv (Scope.root ctx []) e,
        runLoop (fun _ _ _ => .outOfFuel) exVenv exVm ⟨"t", vcode⟩ vcode.length 0
          (State.fresh (Scope.root ctx [])) with
    | .ok v, .done st' => (match st'.stack with | [(w, _)] => v == w | _ => false)
    | .error err, .err re => errMatch err re
    | _, _ => false

/-- the hypotheses of the theorems are satisfiable -/
example : EnvRel exVenv exEenv := ⟨rfl, rfl⟩
example (code : List VEntry) : reportTargetOk exVenv exVm ⟨"t", code⟩ = true := by
  simp [reportTargetOk, exVm]

def num (n : Int) : Expr := .const (.i64 n)
def strLit (s : String) : Expr := .const (.str false s.toList)

/-- `1 + 2 * 3` -/
def ex1 : Expr := .binary .Plus (num 1) (.binary .Mul (num 2) (num 3))
example : InCore ex1 := .binary _ rfl (.const _) (.binary _ rfl (.const _) (.const _))
example : agree ex1 [] = true := by decide +kernel
example : (match evalExpr 20 exEenv (Scope.root [] []) ex1 with | .ok (.i128 7) => true | _ => false) = true := by
  decide +kernel

/-- `a and b.c or "x"` -/
def ex2 : Expr :=
  .binary .Or (.binary .And (.var "a") (.getAttr (.var "b") "c" false)) (strLit "x")
example : InCore ex2 := .or (.and (.var _) (.getAttr _ _ (.var _))) (.const _)
/-- `a` truthy, `b.c` truthy: the result is `b.c` -/
example : agree ex2 [("a", .bool true), ("b", .map [(.str ['c'], .u64 5)])] = true := by decide +kernel
/-- `a` falsy: `b.c` is skipped (here `b` is undefined: evaluating `b.c` would be an error) -/
example : agree ex2 [("a", .u64 0)] = true := by decide +kernel
/-- `a` truthy, `b` undefined: an undefined-class error in both models -/
example : agree ex2 [("a", .bool true)] = true := by decide +kernel
example : (match evalExpr 20 exEenv (Scope.root [("a", .bool true)] []) ex2 with
    | .error .undefined => true | _ => false) = true := by decide +kernel
/-- `a` truthy, `b.c` missing (undefined, one level): the result is `"x"` -/
example : agree ex2 [("a", .bool true), ("b", .map [])] = true := by decide +kernel

/-- `x if c else y.z` -/
def ex3 : Expr := .ternary (.var "c") (.var "x") (.getAttr (.var "y") "z" false)
example : InCore ex3 := .ternary (.var _) (.var _) (.getAttr _ _ (.var _))
/-- `c` truthy: `y.z` is not evaluated although `y` is undefined -/
example : agree ex3 [("c", .bool true), ("x", .u64 1)] = true := by decide +kernel
/-- `c` falsy, `y` undefined: error in both -/
example : agree ex3 [("c", .bool false), ("x", .u64 1)] = true := by decide +kernel
example : agree ex3 [("c", .bool false), ("y", .map [(.str ['z'], .str false ['o', 'k'])])] = true := by
  decide +kernel

/-- `-(a // 0)`, `not (1 < "a")`, `"n=" ~ 1`, `2 ** 3 ** 2 == 512`, `a?.b?.c` -/
example : agree (.unary .Minus (.binary .FloorDiv (.var "a") (num 0))) [("a", .i64 4)] = true := by
  decide +kernel
example : agree (.unary .Not (.binary .LessThan (num 1) (strLit "a"))) [] = true := by decide +kernel
example : agree (.binary .StrConcat (strLit "n=") (num 1)) [] = true := by decide +kernel
example : agree (.binary .Equal (.binary .Power (num 2) (.binary .Power (num 3) (num 2))) (num 512)) [] = true := by
  decide +kernel
example : agree (.getAttr (.getAttr (.var "a") "b" true) "c" true) [] = true := by decide +kernel
example : agree (.getAttr (.getAttr (.var "a") "b" false) "c" false) [("a", .map [])] = true := by
  decide +kernel

end Tera.Refine
