/-
C05 — Components: arguments checked and bound, scope isolated, recursion bounded.

Theorems are about `Model/Component.lean` (mirror of `build_context`, of the component table of
`finalize_templates` and of the recursion guard; type tables and the limit come from the
generated `ComponentLimits.lean`) and, for isolation, about the component call of the SafeFlow
machine (`Model/SafeFlow.lean`).  The harness `harness/src/bin/c05.rs` ties them to the engine.
-/
import TeraModel.Lemmas.Component
import TeraModel.Lemmas.SafeFlow
namespace Tera.C05
open Tera.Component

/-! ## Binding -/

/-- **Binding, success side.**  `build_context` succeeds exactly when none of the three error
conditions applies, and then the context is *exactly* the prescribed one: each declared
parameter ↦ the supplied value (which matches its declared, or else inferred, type), else its
default; the rest parameter ↦ the map of the supplied string-keyed arguments that are not
declared, when a rest parameter is declared; `body` when the call has a body; nothing else. -/
theorem C05_binding (d : Def) (kwargs : List (Key × Value)) (body : Option Value)
    (ctx : List (String × Value)) :
    buildContext d kwargs body = .ok ctx ↔
      (¬ HasUnknown d kwargs ∧ ¬ HasMissing d kwargs ∧ ¬ HasMismatch d kwargs) ∧
      ctx = prescribed d kwargs body := by
  unfold buildContext
  simp only
  constructor
  · intro h
    split at h
    · cases h
    · rename_i hunk
      split at h
      · cases h
      · rename_i bound hb
        cases h
        obtain ⟨hfine, hbound⟩ := bindParams_ok _ _ _ hb
        refine ⟨⟨?_, ?_, ?_⟩, ?_⟩
        · rintro ⟨hr, e, he, hdecl⟩
          apply hunk
          simp only [hr, Option.isNone_none, Bool.true_and, Bool.not_eq_true', List.isEmpty_eq_false_iff]
          intro hempty
          have : e ∈ extras d (strEntries kwargs) := by
            simp only [extras, List.mem_filter, hdecl, Bool.not_false, and_true]
            exact he
          rw [hempty] at this
          cases this
        · rintro ⟨p, hp, h1, h2⟩
          exact (hfine p hp).1 ⟨h1, h2⟩
        · rintro ⟨p, hp, v, h1, h2⟩
          have := (hfine p hp).2 v h1
          rw [h2] at this
          cases this
        · rw [hbound]; rfl
  · rintro ⟨⟨hu, hmi, hmm⟩, rfl⟩
    have hfine : ParamsFine d.params kwargs := by
      intro p hp
      refine ⟨fun h => hmi ⟨p, hp, h⟩, fun v hv => ?_⟩
      cases hm : p.typeMatches v with
      | true => rfl
      | false => exact absurd ⟨p, hp, v, hv, hm⟩ hmm
    have hcond : (d.rest.isNone && !(extras d (strEntries kwargs)).isEmpty) = false := by
      cases hr : d.rest with
      | some r => simp
      | none =>
        simp only [Option.isNone_none, Bool.true_and, Bool.not_eq_false', List.isEmpty_iff]
        cases hx : extras d (strEntries kwargs) with
        | nil => rfl
        | cons e es =>
          exfalso
          apply hu
          refine ⟨hr, e, ?_, ?_⟩
          · have : e ∈ extras d (strEntries kwargs) := by rw [hx]; simp
            exact (List.mem_filter.1 this).1
          · have : e ∈ extras d (strEntries kwargs) := by rw [hx]; simp
            simpa using (List.mem_filter.1 this).2
    simp only [hcond, Bool.false_eq_true, if_false, bindParams_of_fine _ _ hfine]
    rfl

/-- **Binding, error side.**  An error is reported exactly when one of the three conditions
applies, and the class reported is one that does apply: unknown argument without a rest
parameter; missing required argument; supplied value not matching the declared / inferred type. -/
theorem C05_binding_errors (d : Def) (kwargs : List (Key × Value)) (body : Option Value) :
    ((∃ e, buildContext d kwargs body = .error e) ↔
      (HasUnknown d kwargs ∨ HasMissing d kwargs ∨ HasMismatch d kwargs)) ∧
    (∀ e, buildContext d kwargs body = .error e →
      (e = .unknown → HasUnknown d kwargs) ∧ (e = .missing → HasMissing d kwargs) ∧
      (e = .mismatch → HasMismatch d kwargs)) := by
  have key := C05_binding d kwargs body
  constructor
  · constructor
    · rintro ⟨e, he⟩
      by_cases h : HasUnknown d kwargs ∨ HasMissing d kwargs ∨ HasMismatch d kwargs
      · exact h
      · have : buildContext d kwargs body = .ok (prescribed d kwargs body) :=
          (key _).2 ⟨⟨fun x => h (Or.inl x), fun x => h (Or.inr (Or.inl x)),
            fun x => h (Or.inr (Or.inr x))⟩, rfl⟩
        rw [this] at he
        cases he
    · intro h
      cases hb : buildContext d kwargs body with
      | error e => exact ⟨e, rfl⟩
      | ok ctx =>
        have := ((key ctx).1 hb).1
        rcases h with h | h | h
        · exact absurd h this.1
        · exact absurd h this.2.1
        · exact absurd h this.2.2
  · intro e he
    unfold buildContext at he
    simp only at he
    split at he
    · rename_i hunk
      cases he
      refine ⟨fun _ => ?_, fun h => (by cases h), fun h => (by cases h)⟩
      simp only [Bool.and_eq_true, Option.isNone_iff_eq_none, Bool.not_eq_true',
        List.isEmpty_eq_false_iff] at hunk
      refine ⟨hunk.1, ?_⟩
      cases hx : extras d (strEntries kwargs) with
      | nil => exact absurd hx hunk.2
      | cons x xs =>
        have : x ∈ extras d (strEntries kwargs) := by rw [hx]; simp
        exact ⟨x, (List.mem_filter.1 this).1, by simpa using (List.mem_filter.1 this).2⟩
    · split at he
      · rename_i e' hb
        cases he
        rcases bindParams_error _ _ _ hb with ⟨rfl, h⟩ | ⟨rfl, h⟩
        · exact ⟨fun h => (by cases h), fun _ => h, fun h => (by cases h)⟩
        · exact ⟨fun h => (by cases h), fun h => (by cases h), fun _ => h⟩
      · cases he

/-- **Non-string keys are dropped.**  An argument that reaches the call under a bool / integer
key (only possible through a spread) has no effect at all: it is not bound, not collected into
the rest map and not reported as unknown — the outcome is the one for the kwargs without it. -/
theorem C05_nonstring_keys_dropped (d : Def) (kwargs : List (Key × Value)) (body : Option Value) :
    buildContext d kwargs body = buildContext d (kwargs.filter (fun e => isStrKey e.1)) body := by
  unfold buildContext
  rw [strEntries_filter]

/-- **At the call site the right-most attribute wins.**  Whatever mixture of `name="…"`,
`name={…}`, shorthand and `{...spread}` attributes a call is written with, the value the
component is supplied with under a name is the one given by the right-most attribute that
mentions the name (an explicit attribute after a spread overrides it, a spread after an explicit
attribute overrides that). -/
theorem C05_call_rightmost_wins (attrs : List Attr) (k : String) :
    supplied (kwargsOf attrs) k = rightmost attrs k := by
  unfold kwargsOf rightmost
  rw [supplied_foldl]
  simp [supplied, strEntries, lookupStr]

/-! ## Priority -/

/-- **The table holds, for each component name, the definition of minimal prefix priority.**
If the first loop of `finalize_templates` accepts the definitions `defs` (pairs component /
template, in any order), then for every definition `(c, tpl)` the table has an entry for `c`
whose template really defines `c`, whose recorded priority is that template's, is ≤ the priority
of `tpl`, and is shared by no other definition of `c`. -/
theorem C05_priority (prio : String → Nat) (defs : List (String × String)) (T : Table)
    (h : buildTable prio [] defs = some T) :
    ∀ c tpl, (c, tpl) ∈ defs →
      ∃ s p, lookupStr c T = some (s, p) ∧ (c, s) ∈ defs ∧ p = prio s ∧ p ≤ prio tpl ∧
        (prio tpl = p → tpl = s) := by
  have inv := buildTable_inv defs [] T [] (tableInv_empty prio) h
  intro c tpl hm
  obtain ⟨s, p, hl, hle, huniq⟩ := inv.covers c tpl (by simpa using hm)
  obtain ⟨hs, hp⟩ := inv.sound c s p hl
  exact ⟨s, p, hl, by simpa using hs, hp, hle, huniq⟩

/-- **Equal priority ⇒ add fails** (one step): a definition is rejected exactly when the table
already holds a definition of that component at the same priority. -/
theorem C05_priority_equal_rejected (prio : String → Nat) (T : Table) (c tpl : String) :
    addDef prio T c tpl = none ↔ ∃ s, lookupStr c T = some (s, prio tpl) := by
  unfold addDef
  cases hl : lookupStr c T with
  | none => simp
  | some e =>
    obtain ⟨s, p⟩ := e
    simp only [Option.some.injEq, Prod.mk.injEq, exists_eq_left']
    by_cases h1 : prio tpl < p
    · simp only [h1, if_true, reduceCtorEq, false_iff]; omega
    · by_cases h2 : prio tpl > p
      · simp only [h1, h2, if_false, if_true, reduceCtorEq, false_iff]; omega
      · simp only [h1, h2, if_false, true_iff]; omega

/-- … hence two different templates defining the same component at the *best* priority are
never both accepted. -/
theorem C05_priority_no_tie_at_best (prio : String → Nat) (defs : List (String × String))
    (c t1 t2 : String) (h1 : (c, t1) ∈ defs) (h2 : (c, t2) ∈ defs) (hne : t1 ≠ t2)
    (heq : prio t1 = prio t2) (hbest : ∀ t, (c, t) ∈ defs → prio t1 ≤ prio t) :
    buildTable prio [] defs = none := by
  cases hb : buildTable prio [] defs with
  | none => rfl
  | some T =>
    exfalso
    obtain ⟨s, p, hl, hs, hp, hle, hu⟩ := C05_priority prio defs T hb c t1 h1
    obtain ⟨s', p', hl', _, _, hle', hu'⟩ := C05_priority prio defs T hb c t2 h2
    have hps : prio t1 ≤ p := by rw [hp]; exact hbest s hs
    have e1 : t1 = s := hu (by omega)
    rw [hl] at hl'
    simp only [Option.some.injEq, Prod.mk.injEq] at hl'
    obtain ⟨rfl, rfl⟩ := hl'
    have e2 : t2 = s := hu' (by omega)
    exact hne (e1.trans e2.symm)

/-- `get_template_priority`: a template that matches no fallback prefix has priority 0, the
highest. -/
theorem C05_priority_unprefixed (prefixes : List String) (name : String)
    (h : ∀ p ∈ prefixes, name.startsWith p = false) : priority prefixes name = 0 := by
  unfold priority
  suffices ∀ i, priorityFrom i prefixes name = 0 from this 0
  induction prefixes with
  | nil => intro i; rfl
  | cons p ps ih =>
    intro i
    simp only [priorityFrom, h p (by simp), Bool.false_eq_true, if_false]
    exact ih (fun q hq => h q (by simp [hq])) (i + 1)

/-! ## Recursion -/

/-- **Nesting depth is bounded.**  Whatever the components and templates do (self recursion,
mutual recursion, recursion through includes) and however long the run, no VM ever interprets a
chunk with `component_recursion_depth` above the limit in the source
(`MAX_COMPONENT_RECURSION_DEPTH`, extracted by the translator); the counter is carried through
includes. -/
theorem C05_recursion_bounded (w : World) (fuel depth : Nat) (nodes : List Node)
    (h : depth ≤ MAX) : (runNodes w fuel depth nodes).1 ≤ MAX := by
  induction fuel generalizing depth nodes with
  | zero => simpa [runNodes] using h
  | succ fuel ih =>
    cases nodes with
    | nil => simpa [runNodes] using h
    | cons n rest =>
      cases n with
      | text => simpa [runNodes] using ih depth rest h
      | comp c =>
        unfold runNodes
        split
        · exact h
        · rename_i hlt
          split
          · exact h
          · rename_i body _
            have h1 := ih (depth + 1) body (by omega)
            have h2 := ih depth rest h
            split
            · rename_i m hm
              rw [hm] at h1
              simp only at h1 ⊢
              exact Nat.max_le.2 ⟨h1, h2⟩
            · rename_i m e hm
              rw [hm] at h1
              exact h1
      | incl t =>
        unfold runNodes
        split
        · exact h
        · rename_i body _
          have h1 := ih depth body h
          have h2 := ih depth rest h
          split
          · rename_i m hm
            rw [hm] at h1
            simp only at h1 ⊢
            exact Nat.max_le.2 ⟨h1, h2⟩
          · rename_i m e hm
            rw [hm] at h1
            exact h1

/-- **Beyond the limit ⇒ the error.**  A component call made by a VM already at the limit is
answered with the recursion error (an `Err`, not a panic: the model's outcome type has no other
failure at this point, like the Rust, which returns `Err(Error::message(..))` before creating the
new VM). -/
theorem C05_recursion_error_at_limit (w : World) (fuel : Nat) (c : String) (rest : List Node) :
    runNodes w (fuel + 1) MAX (.comp c :: rest) = (MAX, .error .recursionLimit) := by
  simp [runNodes]

/-- A self-recursive component, called from anywhere within the limit, ends in the recursion
error as soon as the run is long enough to get there — it neither succeeds nor runs for ever. -/
theorem C05_self_recursion_stops (w : World) (f : String) (hf : w.comp f = some [.comp f])
    (k d fuel : Nat) (hd : d + k = MAX) (hfuel : k + 1 ≤ fuel) :
    runNodes w fuel d [.comp f] = (MAX, .error .recursionLimit) := by
  induction k generalizing d fuel with
  | zero =>
    have : d = MAX := by omega
    subst this
    obtain ⟨fuel', rfl⟩ : ∃ n, fuel = n + 1 := ⟨fuel - 1, by omega⟩
    exact C05_recursion_error_at_limit w fuel' f []
  | succ k ih =>
    obtain ⟨fuel', rfl⟩ : ∃ n, fuel = n + 1 := ⟨fuel - 1, by omega⟩
    have hlt : ¬ d + 1 > MAX := by omega
    have := ih (d + 1) fuel' (by omega) (by omega)
    simp [runNodes, hlt, hf, this]

/-! ## Isolation -/

open Tera.SafeFlow in
/-- **Component evaluation depends on the built context only.**  Two callers in arbitrary,
different states (own variables, include parents, context, capture buffers, output so far, rest
of the value stack) that pass the same argument values get the same answer: the same error, or
the same result text, pushed as a Safe string (so it is inserted without being escaped again)
on top of each caller's own untouched state. -/
theorem C05_isolation (env : Env) (ae : Bool) (params : List String) (defn : Prog)
    (vals : List TVal) (hlen : vals.length = params.length) (st₁ st₂ : St) (s₁ s₂ : List TVal)
    (h₁ : st₁.stack = vals.reverse ++ s₁) (h₂ : st₂.stack = vals.reverse ++ s₂) :
    (∃ e, run env ae (.comp false .done .done params defn .done) st₁ = .error e ∧
          run env ae (.comp false .done .done params defn .done) st₂ = .error e) ∨
    (∃ out, run env ae (.comp false .done .done params defn .done) st₁
              = .ok { st₁ with stack := .str true out :: s₁ } ∧
            run env ae (.comp false .done .done params defn .done) st₂
              = .ok { st₂ with stack := .str true out :: s₂ }) := by
  have p₁ : popN params.length st₁.stack = some (vals, s₁) := by
    rw [h₁, ← hlen, ← List.length_reverse]
    simpa using popN_append vals.reverse s₁
  have p₂ : popN params.length st₂.stack = some (vals, s₂) := by
    rw [h₂, ← hlen, ← List.length_reverse]
    simpa using popN_append vals.reverse s₂
  cases hd : run env ae defn { vars := params.zip vals ++ bodyCtx Option.none } with
  | error e =>
    left
    exact ⟨e, by simp [run, compCall, p₁, hd], by simp [run, compCall, p₂, hd]⟩
  | ok st₃ =>
    right
    exact ⟨st₃.out, by simp [run, compCall, p₁, hd], by simp [run, compCall, p₂, hd]⟩

open Tera.SafeFlow in
/-- **The result is inserted without being escaped again.**  `{{ <c …/> }}`: what reaches the
caller's sink is, byte for byte and tag for tag, the output of the component's own run — in
every escaping mode and for every escape function. -/
theorem C05_result_not_reescaped (env : Env) (ae : Bool) (params : List String) (defn : Prog)
    (vals : List TVal) (hlen : vals.length = params.length) (st : St) (s : List TVal)
    (h : st.stack = vals.reverse ++ s) (st₃ : St)
    (hd : run env ae defn { vars := params.zip vals ++ bodyCtx Option.none } = .ok st₃) :
    run env ae (.comp false .done .done params defn (.op .write .done)) st
      = .ok (emit { st with stack := s } st₃.out) := by
  have p : popN params.length st.stack = some (vals, s) := by
    rw [h, ← hlen, ← List.length_reverse]
    simpa using popN_append vals.reverse s
  simp [run, compCall, p, hd, step, sinkBytes, isSafe, fmtT]

open Tera.SafeFlow in
/-- **API = template call.**  `Tera::render_component(name, ctx, body, f)` runs the component's
chunk, with the context `build_context` made, in a VM whose `autoescape_override` is `some f`; a
call from a template runs the same chunk with the same context in a VM without override whose
template flag decides.  If that flag is `f` (and so is the flag of every template the component
includes, which the override would otherwise overrule) the two runs are the same run: same
outcome, same text, same tags — for every chunk, context and escape function. -/
theorem C05_api_equiv (escape : List Nat → List Nat) (f : Bool) (defn : Prog)
    (hincl : defn.inclAll f = true) (ctx : List (String × TVal)) :
    run { escape := escape, override := some f } f defn { vars := ctx }
      = run { escape := escape, override := Option.none } f defn { vars := ctx } :=
  run_override escape f defn hincl _

/-! ## The hypotheses are satisfiable, and spot checks -/

/-- `c(a: integer = 1, b, ...rest)` called with `b="x", z=true`: a ↦ 1, b ↦ "x", rest ↦ {z: true};
the three "no error" hypotheses of `C05_binding` are satisfiable -/
example :
    buildContext { params := [⟨"a", some "Integer", some (.i64 1)⟩, ⟨"b", none, none⟩], rest := some "rest" }
      [(.str ['b'], .str false ['x']), (.str ['z'], .bool true)] none
    = .ok [("a", .i64 1), ("b", .str false ['x']), ("rest", .map [(.str ['z'], .bool true)])] := by rfl

/-- inferred type: default `1` makes `a` an integer parameter; a string is rejected -/
example : buildContext { params := [⟨"a", none, some (.i64 1)⟩], rest := none }
    [(.str ['a'], .str false ['x'])] none = .error .mismatch := by rfl

/-- an int-keyed entry (through a spread) is neither bound nor unknown -/
example : buildContext { params := [], rest := none } [(.i64 3, .bool true)] none = .ok [] := by rfl

/-- `<c {...{a: 1}} a={2} {...{a: 3}}/>` supplies a = 3; without the trailing spread, a = 2 -/
example : supplied (kwargsOf [.spread [(.str ['a'], .i64 1)], .kv "a" (.i64 2), .spread [(.str ['a'], .i64 3)]]) "a"
    = some (.i64 3) := by rw [C05_call_rightmost_wins]; rfl
example : supplied (kwargsOf [.spread [(.str ['a'], .i64 1)], .kv "a" (.i64 2)]) "a" = some (.i64 2) := by
  rw [C05_call_rightmost_wins]; rfl

/-- lowest number wins whatever the order; equal numbers are rejected -/
example : buildTable (fun t => if t == "y.html" then 0 else 1) [] [("Btn", "themes/x.html"), ("Btn", "y.html")]
    = some [("Btn", ("y.html", 0))] := by rfl
example : buildTable (fun t => if t == "y.html" then 0 else 1) [] [("Btn", "y.html"), ("Btn", "themes/x.html")]
    = some [("Btn", ("y.html", 0))] := by rfl
example : buildTable (fun _ => 1) [] [("Btn", "a/x.html"), ("Btn", "a/y.html")] = none := by rfl

/-- the limit in the source is what the theorems are about -/
example : MAX = 20 := by decide

end Tera.C05
