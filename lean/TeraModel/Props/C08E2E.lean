/-
C08 — "Template text is reproduced verbatim except for whitespace next to `-` markers", the stages
COMPOSED into one statement, from the source bytes to the stored chunks of the whole-engine model
(Model/Pipeline.lean):

  for a source the front end accepts (no component definition), the `WriteText` payloads of ALL
  the stored, optimised chunks of the template (main chunk and the chunk of every block, nested
  ones included) are, as a multiset, exactly the non-empty literal texts of the filtered token
  stream — none dropped, none added, none altered; inside each chunk they stand in source order.

Links, all proved:
* lexer + whitespace filter (bB_lexer, Props/C08.lean): the filtered items are `specFilter` of the
  tokenizer's items (`ws_filter_spec`), whose Content payloads are source slices
  (`content_is_source_slice`);
* parser (bG1_parser, Props/C08Parser.lean `content_tokens_are_ast_texts`): the non-empty Content
  payloads of the token list = `Node.allTextsList t.nodes`, the fully deep walk of the tree, in
  order;
* compiler (Lemmas/PipelineC08Deep.lean `deep_texts`, with `TParser.parse_sc`): the deep walk =
  the texts of the main chunk + the texts of the chunks of all recorded blocks, as multisets —
  across chunks there is no order to keep, a block chunk is a unit of its own;
* optimiser, encoding, decoding, store (Lemmas/PipelineC08.lean `storeChunk_texts`): every stored
  chunk writes exactly the texts of its compiled chunk, in order;
* VM: `C08Pipeline.write_text_is_verbatim`.

The per-chunk, order-preserving statement stays `C08Pipeline.text_reaches_output_verbatim`.
The earlier named Prop `C08Pipeline.content_tokens_are_ast_texts_full` (a walk that is too shallow)
is FALSE: `shallow_walk_statement_is_false` (bG1_parser's counterexample).

Scope: templates without component definitions (the parser link; a definition's body is moved out
of the node list).
-/
import TeraModel.Props.C08Parser
import TeraModel.Props.C08
import TeraModel.Lemmas.PipelineC08Deep
namespace Tera.C08E2E
open Tera Tera.Pipeline Tera.Compiler

/-- the literal texts of a list of lexer items as the parser will see them: the payloads of the
Content items (a raw block is one, a comment is an empty one — after the whitespace filter only
`Content` is left, Props/C06.lean `filter_removes_raw_and_comment`), decoded, the empty ones
dropped -/
def itemTexts : List (Token × Lexer.Span) → List String
  | [] => []
  | (.content s, _) :: rest => if (strOf s).isEmpty then itemTexts rest else strOf s :: itemTexts rest
  | (.rawContent _ s _, _) :: rest =>
    if (strOf s).isEmpty then itemTexts rest else strOf s :: itemTexts rest
  | _ :: rest => itemTexts rest

theorem contentPayloads_append (a b : List Tok) :
    C08Pipeline.contentPayloads (a ++ b) = C08Pipeline.contentPayloads a ++ C08Pipeline.contentPayloads b := by
  induction a with
  | nil => rfl
  | cons t rest ih =>
    cases t <;> simp only [List.cons_append, C08Pipeline.contentPayloads, ih]
    split <;> simp

theorem contentPayloads_tokOfOp (o : Op) (rest : List Tok) :
    C08Pipeline.contentPayloads (tokOfOp o :: rest) = C08Pipeline.contentPayloads rest := by
  cases o <;> rfl

/-- the parser's view of the items: the non-empty Content payloads of `toksOf items` are
`itemTexts items` (a trailing lexer-error item carries no text) -/
theorem contentPayloads_toksOf (items : List (Token × Lexer.Span)) (errored : Bool) :
    C08Pipeline.contentPayloads (toksOf items errored) = itemTexts items := by
  unfold toksOf
  rw [contentPayloads_append]
  have htail : C08Pipeline.contentPayloads (if errored then [Tok.error] else []) = [] := by
    cases errored <;> rfl
  rw [htail, List.append_nil]
  induction items with
  | nil => rfl
  | cons it rest ih =>
    obtain ⟨tk, sp⟩ := it
    rw [List.map_cons]
    generalize List.map (fun it : Token × Lexer.Span => tokOf it.1) rest = R at ih ⊢
    cases tk <;>
      simp only [tokOf, C08Pipeline.contentPayloads, itemTexts, ih, contentPayloads_tokOfOp]
    · rfl

/-- every stored block chunk writes the texts of its compiled chunk, in order -/
theorem storeNamed_texts (name : String) (l : List (String × Code)) (chs : List (String × Vm.Chunk))
    (h : storeNamed name l = .ok chs) :
    chs.map (·.1) = l.map (·.1) ∧
    chs.flatMap (fun p => vtexts p.2.code) = (l.flatMap fun p => ctexts p.2).map String.toList := by
  induction l generalizing chs with
  | nil =>
    simp only [storeNamed] at h
    cases h
    exact ⟨rfl, rfl⟩
  | cons p rest ih =>
    obtain ⟨n, code⟩ := p
    simp only [storeNamed] at h
    cases hc : storeChunk name code with
    | ok ch =>
      cases hr : storeNamed name rest with
      | ok chs' =>
        rw [hc, hr] at h
        cases h
        obtain ⟨i1, i2⟩ := ih chs' hr
        refine ⟨by simp [i1], ?_⟩
        simp only [List.flatMap_cons, List.map_append, i2, storeChunk_texts name code ch hc]
      | panic s => rw [hc, hr] at h; cases h
      | internal w => rw [hc, hr] at h; cases h
    | panic s => rw [hc] at h; cases h
    | internal w => rw [hc] at h; cases h

/-! ## AST → stored chunks: the flattening over chunks -/

/-- **`chunk_texts_are_ast_texts`.**  For EVERY template the parser model accepts and every
template name: the compiler model answers, the main chunk and every block chunk are stored (one
chunk per `{% block %}` of the tree, in the order the compiler records them), and the `WriteText`
payloads of all these chunks together are a permutation of `Node.allTextsList t.nodes`, ALL the
literal texts of the tree (through `if` / `for` / `else`, set-block, filter-section, component-call
and block bodies wherever they sit).  No text of the tree is missing from the chunks, no chunk
writes a text that is not in the tree, none is altered; the order INSIDE each chunk is the source
order (`C08Pipeline.text_reaches_output_verbatim`). -/
theorem chunk_texts_are_ast_texts (maxDepth : Nat) (toks : List Tok) (t : Template)
    (s : TParser.TState) (h : TParser.parse maxDepth toks = .ok t s) (name : String) :
    ∃ c main blocks, compileTemplate t = .ok c ∧ storeChunk name c.main = .ok main ∧
      storeNamed name c.blocks = .ok blocks ∧ blocks.map (·.1) = c.blocks.map (·.1) ∧
      ((Node.allTextsList t.nodes).map String.toList).Perm
        (vtexts main.code ++ blocks.flatMap fun p => vtexts p.2.code) := by
  obtain ⟨h1, h2⟩ := TParser.parse_scoped maxDepth toks t s h
  obtain ⟨c, hc⟩ := compile_ok_of_scoped t h1 h2
  obtain ⟨hmain, hblocks, _⟩ := chunks_are_nodes t c hc
  obtain ⟨main, hm⟩ := storeChunk_nodes name t.nodes
  obtain ⟨blocks, hb⟩ := storeNamed_ok name c.blocks hblocks
  obtain ⟨hn, ht⟩ := storeNamed_texts name c.blocks blocks hb
  refine ⟨c, main, blocks, hc, by rw [hmain]; exact hm, hb, hn, ?_⟩
  have hcb : c.blocks = blockDefs (nodesEvents false 0 t.nodes) := by
    unfold compileTemplate at hc
    split at hc
    · cases hc
    · cases hc; rfl
  have hsc := (TParser.parse_sc maxDepth toks t s h).1
  have hp := deep_texts false 0 t.nodes hsc
  rw [ht, storeChunk_texts name _ main hm, texts_nodes, ← List.map_append, hcb]
  exact hp.map _

/-! ## source bytes → stored chunks -/

/-- **`source_text_reaches_chunks`: C08 from the source to the stored chunks, one statement.**
For every delimiter set, every source the front end (lexer, whitespace filter, parser) accepts
with no component definition, and every template name: the template compiles, its main chunk and
all its block chunks are stored, and
* the `WriteText` payloads of all the stored chunks together are a permutation of `itemTexts` of
  the FILTERED token stream — the non-empty literal texts the lexer and the whitespace filter
  produce, decoded;
* the filtered stream is `specFilter` of the tokenizer's items: each text trimmed at an end iff
  the directly neighbouring token carries a `-` marker there, comments emptied, everything else
  untouched (bB_lexer's `ws_filter_spec`);
* every Content item of the tokenizer is, byte for byte, the slice of the source its span
  designates (`content_is_source_slice`).
So every byte of literal text of the source reaches a `WriteText` instruction unchanged, except
whitespace next to a `-` marker, and nothing else is written as text; `write_text_is_verbatim`
is the last step (the VM appends the payload unchanged to the current sink). -/
theorem source_text_reaches_chunks (d : Delims) (src : Bytes) (t : Template) (name : String)
    (hf : front d src = .ok t) (hd : t.componentDefinitions = []) :
    ∃ c main blocks, compileTemplate t = .ok c ∧ storeChunk name c.main = .ok main ∧
      storeNamed name c.blocks = .ok blocks ∧
      ((itemTexts (WsFilter.tokenize d src).tokens).map String.toList).Perm
        (vtexts main.code ++ blocks.flatMap fun p => vtexts p.2.code) ∧
      (WsFilter.tokenize d src).tokens = WsSpec.specFilter none (Lexer.basicTokenize d src).tokens ∧
      (∀ s sp, (Token.content s, sp) ∈ (Lexer.basicTokenize d src).tokens →
        s = (src.drop sp.rangeStart).take (sp.rangeEnd - sp.rangeStart)) := by
  -- the parse the front end ran
  have hparse : ∃ e s, TParser.parse Gen.MAX_RECURSION_DEPTH
      (toksOf (WsFilter.tokenize d src).tokens e) = .ok t s := by
    unfold front at hf
    simp only at hf
    split at hf
    · split at hf <;> try cases hf
      rename_i t' s' hp
      exact ⟨false, s', hp⟩
    · split at hf <;> try cases hf
      rename_i t' s' hp
      exact ⟨true, s', hp⟩
    · cases hf
    · cases hf
  obtain ⟨e, s, hp⟩ := hparse
  obtain ⟨c, main, blocks, hc, hm, hb, _, hperm⟩ :=
    chunk_texts_are_ast_texts _ _ t s hp name
  refine ⟨c, main, blocks, hc, hm, hb, ?_, ?_, ?_⟩
  · rw [← contentPayloads_toksOf _ e,
      ← C08Parser.content_tokens_are_ast_texts _ _ t s hp hd]
    exact hperm
  · show WsFilter.filterGo false _ = _
    exact C08.ws_filter_spec _
  · intro s' sp hmem
    exact (C08.content_is_source_slice d src s' sp hmem).1

/-! ## the earlier, too shallow statement -/

/-- `C08Pipeline.content_tokens_are_ast_texts_full` (stated with a walk that descends into a block
only where it is an element of the list it walks) does NOT hold — bG1_parser's counterexample
`{% filter upper %}{% block a %}text{% endblock %}{% endfilter %}`.  The true parser link is
`C08Parser.content_tokens_are_ast_texts`, used above. -/
theorem shallow_walk_statement_is_false : ¬ C08Pipeline.content_tokens_are_ast_texts_full :=
  C08Parser.not_content_tokens_are_ast_texts_full

end Tera.C08E2E
