/-
C07, compiler half, VALUE-LEVEL checker — for every program, the chunks the compiler produces pass
the checker of Model/VmCheck.lean (`Vm.verify`: the abstract interpretation with the per-slot flags
`arr / map / sp / okb` whose soundness, Props/C07Vm.lean, is "the value-level VM never panics").

`compile_vverify`: for every scoped template, every compiled chunk (main, every block, every
component body), in the typed form the VM model executes (`Pipeline.vinstr` for the instruction,
`Pipeline.spansOf` for the span list — exactly the conversion of Model/Pipeline.lean), has a table
that passes `Vm.verify`.  It is the induction of T1 (Props/C07Compile.lean) with a tag per slot; what
it shows the compiler guarantees, arm by arm of `Vm.astep`:
* every value that reaches `WriteTop`, `LoadAttr`, `BinarySubscript`, `Slice` (as the sliced value),
  an arithmetic / comparison operator, `In`, `Negative`, `StartIterate`, a spread, or `ApplyFilter` /
  `RunTest` (as the filtered value) was produced by an instruction added with a span or combines
  such values (`tagR`); an omitted slice bound is one of the two span-less constants `none` / `1`,
  which are fine as bounds (`tagB`);
* the kwargs operand of `ApplyFilter` / `RunTest` / `CallFunction` / `Render*Component` is the map a
  `BuildMap` / `BuildMapWithSpreads` built (`tagM`), and those five instructions have a span;
* `AppendToList` finds the comprehension's list (`tagL`) under the value;
* the `EndCapture` of a set block has a span exactly when a filter chain follows.
No arm of `astep` demands a flag the compiler does not guarantee: no finding.
The tables are given explicitly (`V.nodesTab`), nothing depends on `Vm.infer`.
-/
import TeraModel.Lemmas.CompilerVSound
import TeraModel.Props.C07Compile
namespace Tera.C07CompileV
open Tera Tera.Compiler Tera.Vm

/-- One compiled node list (a whole chunk): its typed form exists (`Pipeline.vinstr` is defined on
every emitted instruction) and has a `Vm.verify` table.  The witnesses are `V.tcodeOf` and
`V.nodesTab 0 none ASt.empty ns`. -/
theorem nodes_vverify (ns : List Node) (hsc : nodesScoped false ns = true) :
    ∃ tcode table,
      (nodesCode 0 none ns).mapM (fun e => (Pipeline.vinstr e.1).map (·, Pipeline.spansOf e.2))
        = some tcode ∧
      Vm.verify tcode table = true :=
  ⟨_, _, V.mapM_vinstr _ (valid_nodes ns 0 none), V.nodes_vverify ns hsc⟩

/-- **`compile_vverify`**: every chunk of every scoped template passes the value-level checker. -/
theorem compile_vverify (t : Template) (hs : templateScoped t = true) :
    ∃ c, compileTemplate t = .ok c ∧ ∀ ch ∈ c.chunks,
      ∃ tcode table,
        ch.mapM (fun e => (Pipeline.vinstr e.1).map (·, Pipeline.spansOf e.2)) = some tcode ∧
        Vm.verify tcode table = true := by
  obtain ⟨c, hc, _⟩ := C07Compile.compile_stack_discipline t hs
  refine ⟨c, hc, ?_⟩
  intro ch hch
  obtain ⟨ns, rfl, hsc⟩ := C07Compile.chunks_are_scoped_nodes t hs c hc ch hch
  exact nodes_vverify ns hsc

/-- **Names** (`Vm.namesOk`): in any environment in which every name of the template's call tables is
registered — what `finalize_templates` validates at add time —, every instruction of every typed
chunk passes `namesOk` (T2 `refs_complete` read on the typed form).  `super` is the one function
name that needs no registration. -/
theorem compile_namesOk (env : Vm.Env) (t : Template) (c : Compiled) (hc : compileTemplate t = .ok c)
    (hf : ∀ n ∈ c.filterCalls, env.hasFilter n = true)
    (ht : ∀ n ∈ c.testCalls, env.hasTest n = true)
    (hfn : ∀ n ∈ c.functionCalls, (n == "super" || env.hasFunction n) = true)
    (hcm : ∀ n ∈ c.componentCalls, (assoc n env.components).isSome = true) :
    ∀ ch ∈ c.chunks, ∀ e ∈ V.tcodeOf ch, Vm.namesOk env e.1 = true := by
  intro ch hch e he
  simp only [V.tcodeOf, List.mem_map] at he
  obtain ⟨y, hy, rfl⟩ := he
  have href := C07Compile.refs_complete t c hc ch hch y hy
  obtain ⟨i, b⟩ := y
  cases i <;> simp only [V.vi, Vm.namesOk, C07Compile.RefOK] at href ⊢
  case callFunction n => exact hfn n href
  case renderInlineComponent n => exact hcm n href
  case renderBodyComponent n => exact hcm n href
  case applyFilter n => exact hf n href
  case runTest n => exact ht n href
  case binop op => cases op <;> rfl

/-- the typed form of `compile_namesOk`'s chunks is the one of `compile_vverify` -/
theorem tcodeOf_is_typed_form (ns : List Node) :
    (nodesCode 0 none ns).mapM (fun e => (Pipeline.vinstr e.1).map (·, Pipeline.spansOf e.2))
      = some (V.tcodeOf (nodesCode 0 none ns)) :=
  V.mapM_vinstr _ (valid_nodes ns 0 none)

/-! ## Spot checks -/

/-- `{% set v | upper %}x{% endset %}{{ v[1:] }}`: a set block with a filter chain and a slice with
omitted bounds — the hypotheses are satisfiable and the table is a concrete object -/
def exNodes : List Node :=
  [.blockSet "v" [.filter (.const .none) "upper" []] [.content "x"] false,
   .expression (.slice (.var "v") (some (.const (.i64 1))) none none false)]

example : nodesScoped false exNodes = true := by decide
example : (V.nodesTab 0 none ASt.empty exNodes).length = (nodesCode 0 none exNodes).length := by decide

/-- the checker is not vacuous on compiled shapes: without the span of `LoadName` the `WriteTop` of
`{{ a }}` is refused (`expect("to have a span")` could be reached) -/
example : Vm.astep .writeTop false 0 1 ⟨[⟨false, false, false, false⟩], [], 0⟩ = none := by decide

end Tera.C07CompileV
