/-
C09 — Bytecode optimisation never changes what a template renders.

Property theorems only (helper lemmas: Lemmas/Optimize.lean, Lemmas/OptimizeSem.lean,
Lemmas/OptimizeSim.lean).  The structural statements are about `Optimize.optimize`
(Model/Optimize.lean), which the harness (harness/src/bin/c09.rs) ties to `Chunk::optimize` on
every run: the model applied to the real pre-pass listing of every chunk (recorded inside the real
pass) must give the real stored listing, and the same on synthetic instruction windows pushed
through the real `Chunk::optimize`.  The semantic statements are about the VM model of
Model/PathVm.lean (the five path instructions, compared with the real VM value by value and
text by text in the harness's "pathvm" stage) and Model/ChunkVm.lean (the interpreter loop with
every other instruction abstract); the property itself is also evaluated directly on the
implementation (pass on vs pass off over generated templates and contexts).
-/
import TeraModel.Lemmas.Optimize
import TeraModel.Lemmas.OptimizeSem
import TeraModel.Lemmas.OptimizeSim
namespace Tera.C09
open Tera Tera.Optimize Tera.PathVm Tera.ChunkVm

/-! ## Hypotheses used below (each is satisfiable, see the `example`s at the end, and each is
checked by the harness on every real listing) -/

/-- Every jump operand is an instruction index or the one-past-the-end index. -/
def TargetsInRange (c : List Entry) : Prop :=
  ∀ e ∈ c, ∀ t, e.1.target? = some t → t ≤ c.length

/-- The input holds no `LoadPath` / `WritePath` (the compiler never emits them). -/
def NoFused (c : List Entry) : Prop := ∀ e ∈ c, e.1.isFused = false

/-- The cut of `c` into groups computed by the pass is a valid cut. -/
theorem groups_parsed (c : List Entry) : Parsed (isTarget c) 0 c (groups c) :=
  loop_parsed (isTarget c) c.length 0 c (Nat.le_refl _)

/-! ## Structure: only variable paths are merged -/

/-- For every instruction list: the groups, laid end to end, are the original code, and every
group is an instruction kept as it is, or `LoadName LoadAttr⁺` replaced by one `LoadPath` with the
same names and spans in order, or `LoadName LoadAttr* WriteTop` replaced by one `WritePath`.
Nothing else is ever merged, dropped, duplicated or reordered. -/
theorem optimize_merges_only_paths (c : List Entry) :
    (groups c).flatMap (·.orig) = c ∧ ∀ g ∈ groups c, GroupShape g :=
  ⟨(groups_parsed c).concat, (groups_parsed c).shapes⟩

/-- `index_map` has one entry per old instruction plus the one-past-the-end entry: every write
`index_map[i] = …`, `index_map[j] = …`, `index_map[len] = …` of the Rust loop is in bounds. -/
theorem indexMap_length (c : List Entry) : (indexMap c).length = c.length + 1 := by
  unfold indexMap
  rw [indexMapGo_length, (groups_parsed c).concat]

/-- The one-past-the-end entry is the length of the optimised code. -/
theorem indexMap_last (c : List Entry) : (indexMap c)[c.length]? = some (groups c).length := by
  have := indexMapGo_last (groups c) 0
  rw [(groups_parsed c).concat] at this
  simpa [indexMap] using this

theorem out_target_mem (c : List Entry) (e : Entry) (t : Nat)
    (he : e ∈ (groups c).map (·.out)) (ht : e.1.target? = some t) : e ∈ c := by
  obtain ⟨g, hg, rfl⟩ := List.mem_map.mp he
  have hk := ((groups_parsed c).shapes g hg).target_keep (Or.inr ⟨t, ht⟩)
  rw [← (groups_parsed c).concat]
  exact List.mem_flatMap.mpr ⟨g, hg, by rw [hk]; simp⟩

theorem mem_out_of_target (c : List Entry) (e : Entry) (t : Nat)
    (he : e ∈ c) (ht : e.1.target? = some t) : e ∈ (groups c).map (·.out) := by
  rw [← (groups_parsed c).concat] at he
  obtain ⟨g, hg, heg⟩ := List.mem_flatMap.mp he
  have hk := ((groups_parsed c).shapes g hg).target_keep (Or.inl ⟨e, heg, t, ht⟩)
  rw [hk] at heg
  have : e = g.out := by simpa using heg
  exact List.mem_map.mpr ⟨g, hg, this.symm⟩

/-- The pass panics exactly when some jump operand lies beyond the one-past-the-end index
(`index_map[*target]` out of bounds, instructions.rs:329); nothing else in it can panic. -/
theorem optimize_panics_iff (c : List Entry) :
    (∃ s, optimize c = .panic s) ↔ ∃ e ∈ c, ∃ t, e.1.target? = some t ∧ c.length < t := by
  unfold optimize
  rw [remap_panic_iff, indexMap_length]
  constructor
  · rintro ⟨e, he, t, ht, hl⟩
    exact ⟨e, out_target_mem c e t he ht, t, ht, by omega⟩
  · rintro ⟨e, he, t, ht, hl⟩
    exact ⟨e, mem_out_of_target c e t he ht, t, ht, by omega⟩

/-- `optimize_no_panic`: with every jump operand at most `len` (targets equal to `len` included)
the pass returns, and what it returns is the pushed instructions with every jump operand `t`
replaced by `index_map[t]`. -/
theorem optimize_no_panic (c : List Entry) (h : TargetsInRange c) :
    optimize c = .ok (((groups c).map (·.out)).map (remapTotal (indexMap c))) := by
  unfold optimize
  apply remap_total
  intro e he t ht
  rw [indexMap_length]
  have := h e (out_target_mem c e t he ht) t ht
  omega

/-- Whatever the pass returns is that list. -/
theorem optimize_ok (c r : List Entry) (h : optimize c = .ok r) :
    r = ((groups c).map (·.out)).map (remapTotal (indexMap c)) :=
  remap_ok _ _ _ h

/-- `optimize_expand`: un-fusing the optimised code gives the original code with every jump
operand `t` replaced by `index_map[t]` (and nothing else changed). -/
theorem optimize_expand (c r : List Entry) (h : optimize c = .ok r) (hnf : NoFused c) :
    r.flatMap (fun e => unfuse e.1)
      = c.map (fun e => e.1.mapTarget (fun t => (indexMap c).getD t 0)) := by
  rw [optimize_ok c r h]
  have hp := groups_parsed c
  have hu := unfuse_groups (groups c) hp.shapes (by rw [hp.concat]; exact hnf)
  rw [hp.concat] at hu
  simp only [List.flatMap_map, remapTotal, unfuse_mapTarget]
  rw [← List.map_flatMap, hu]
  simp

/-- The optimised code has one instruction per group. -/
theorem optimize_length (c r : List Entry) (h : optimize c = .ok r) :
    r.length = (groups c).length := by
  rw [optimize_ok c r h]; simp

/-! ## Jump targets -/

/-- `no_target_inside_group`: no instruction merged into a group other than its first is the
operand of any jump of the original code. -/
theorem no_target_inside_group (c : List Entry) (pre post : List Group) (g : Group)
    (hsplit : groups c = pre ++ g :: post) (d : Nat) (h0 : 0 < d) (h1 : d < g.orig.length) :
    ∀ e ∈ c, e.1.target? ≠ some ((pre.flatMap (·.orig)).length + d) := by
  have hni := (groups_parsed c).noInterior
  rw [hsplit] at hni
  have hT := NoInterior.at pre g post 0 d hni h0 h1
  have hlen : (pre.flatMap (·.orig)).length + d < c.length := by
    have := congrArg List.length (groups_parsed c).concat
    rw [hsplit] at this
    simp only [List.flatMap_append, List.flatMap_cons, List.length_append] at this
    omega
  intro e he ht
  simp only [Nat.zero_add, isTarget, hlen, decide_true, Bool.true_and] at hT
  have : (c.any fun e => e.1.target? == some ((pre.flatMap (·.orig)).length + d)) = true :=
    List.any_eq_true.mpr ⟨e, he, by simp [ht]⟩
  rw [this] at hT; cases hT

/-- `jumps_land_same`: for every jump `j ↦ t` of the original code (`t ≤ len`), the remapped
operand `k = index_map[t]` is the number of the group that *starts* at `t`: the first `k`
groups are exactly the first `t` old instructions.  (So the instruction the optimised jump
lands on expands back to the code starting at `t`; for `t = len` both fall off the end.) -/
theorem jumps_land_same (c : List Entry) (e : Entry) (he : e ∈ c) (t : Nat)
    (ht : e.1.target? = some t) (hr : t ≤ c.length) :
    ∃ k, (indexMap c)[t]? = some k ∧ k ≤ (groups c).length ∧
      ((groups c).take k).flatMap (·.orig) = c.take t := by
  have hp := groups_parsed c
  by_cases hlt : t < c.length
  · have hT : isTarget c (0 + t) = true := by
      simp only [Nat.zero_add, isTarget, hlt, decide_true, Bool.true_and]
      exact List.any_eq_true.mpr ⟨e, he, by simp [ht]⟩
    obtain ⟨m, hm, hlook, htake⟩ := indexMapGo_boundary (isTarget c) (groups c) 0 0 t hp.noInterior
      (fun g hg => (hp.shapes g hg).orig_ne_nil) (by rw [hp.concat]; exact hlt) hT
    refine ⟨m, by simpa [indexMap] using hlook, by omega, ?_⟩
    rw [htake, hp.concat]
  · have : t = c.length := by omega
    subst this
    refine ⟨(groups c).length, indexMap_last c, Nat.le_refl _, ?_⟩
    simp [hp.concat]

/-- The same, read on the optimised code: the optimised instructions before the new operand
un-fuse to exactly the original instructions before the old operand. -/
theorem jumps_land_same_code (c r : List Entry) (h : optimize c = .ok r) (hnf : NoFused c)
    (e : Entry) (he : e ∈ c) (t : Nat) (ht : e.1.target? = some t) (hr : t ≤ c.length) :
    ∃ k, (indexMap c)[t]? = some k ∧ k ≤ r.length ∧
      (r.take k).flatMap (fun e => unfuse e.1)
        = (c.take t).map (fun e => e.1.mapTarget (fun t => (indexMap c).getD t 0)) := by
  obtain ⟨k, hk, hkl, htake⟩ := jumps_land_same c e he t ht hr
  refine ⟨k, hk, by rw [optimize_length c r h]; exact hkl, ?_⟩
  have hp := groups_parsed c
  have hs : ∀ g ∈ (groups c).take k, GroupShape g := fun g hg => hp.shapes g (List.mem_of_mem_take hg)
  have hu := unfuse_groups ((groups c).take k) hs (by
    rw [htake]; intro e he; exact hnf e (List.mem_of_mem_take he))
  rw [htake] at hu
  rw [optimize_ok c r h]
  simp only [← List.map_take, List.flatMap_map, remapTotal, unfuse_mapTarget]
  rw [← List.map_flatMap, hu]
  simp [Function.comp_def]

/-- The jump itself: the instruction at old index `p` that carries operand `t` sits at new index
`index_map[p]` in the optimised code, is the same instruction (same kind, same spans), and its
operand is `index_map[t]`. -/
theorem jump_remapped (c r : List Entry) (h : optimize c = .ok r) (p : Nat) (e : Entry)
    (hp : c[p]? = some e) (t : Nat) (ht : e.1.target? = some t) :
    ∃ m, (indexMap c)[p]? = some m ∧
      r[m]? = some (e.1.mapTarget (fun _ => (indexMap c).getD t 0), e.2) := by
  have hpar := groups_parsed c
  have hpl : p < ((groups c).flatMap (·.orig)).length := by
    rw [hpar.concat]
    exact (List.getElem?_eq_some_iff.mp hp).1
  obtain ⟨m, g, d, hlook, hg, hd, hdl⟩ := indexMapGo_elem (groups c) 0 p hpl
  rw [hpar.concat, hp] at hd
  have hgm : g ∈ groups c := List.mem_of_getElem? hg
  have hk := (hpar.shapes g hgm).target_keep (Or.inl ⟨e, List.mem_of_getElem? hd, t, ht⟩)
  rw [hk] at hd hdl
  have hd0 : d = 0 := by simpa using hdl
  subst hd0
  have heq : g.out = e := by simpa using hd
  refine ⟨m, by simpa [indexMap] using hlook, ?_⟩
  rw [optimize_ok c r h]
  simp only [List.getElem?_map, hg, Option.map_some, remapTotal, heq]
  rw [mapTarget_of_some _ _ t ht]

/-! ## Spans -/

/-- `spans_preserved`: a fused instruction carries exactly the spans of its path elements, in
order (the spans of an absorbed `WriteTop` — the compiler gives it none — are not kept), its path
is the variable name followed by the attribute names in order, and an instruction that is not
fused keeps its spans. -/
theorem spans_preserved (c : List Entry) (g : Group) (hg : g ∈ groups c) :
    (g.orig = [g.out]) ∨
    (∃ (n : String) (s : List Span) (taken : List (String × List Span)),
      g.orig = (.loadName n, s) :: taken.map attrEntry ∧
      g.out = (.loadPath (n :: taken.map (·.1)), s ++ taken.flatMap (·.2))) ∨
    (∃ (n : String) (s w : List Span) (taken : List (String × List Span)),
      g.orig = (.loadName n, s) :: (taken.map attrEntry ++ [(.writeTop, w)]) ∧
      g.out = (.writePath (n :: taken.map (·.1)), s ++ taken.flatMap (·.2))) := by
  cases (groups_parsed c).shapes g hg with
  | keep e => exact Or.inl rfl
  | path n s taken _ _ => exact Or.inr (Or.inl ⟨n, s, taken, rfl, rfl⟩)
  | write n s w taken _ => exact Or.inr (Or.inr ⟨n, s, w, taken, rfl, rfl⟩)

/-- Per path element: when every path instruction has exactly one span (as compiled), the
`k`-th span of a fused instruction is the span of the `k`-th instruction it replaces — what
`get_span_at(ip, k)` relies on for error locations (C12). -/
theorem spans_preserved_per_element (c : List Entry)
    (hone : ∀ e ∈ c, (∃ n, e.1 = .loadName n) ∨ (∃ a, e.1 = .loadAttr a) → e.2.length = 1)
    (g : Group) (hg : g ∈ groups c) (hf : g.orig ≠ [g.out])
    (k : Nat) (hk : k < g.out.2.length) :
    g.out.2[k]? = (g.orig[k]?).bind (fun (e : Entry) => e.2.head?) := by
  have hmem : ∀ e ∈ g.orig, e ∈ c := by
    intro e he
    rw [← (groups_parsed c).concat]
    exact List.mem_flatMap.mpr ⟨g, hg, he⟩
  cases (groups_parsed c).shapes g hg with
  | keep e' => exact absurd rfl hf
  | path n s taken _ _ =>
    have h1 : ∀ e ∈ ((Instr.loadName n, s) :: taken.map attrEntry), e.2.length = 1 := by
      intro e he
      refine hone e (hmem e he) ?_
      simp only [List.mem_cons, List.mem_map] at he
      rcases he with rfl | ⟨a, _, rfl⟩
      · exact Or.inl ⟨n, rfl⟩
      · exact Or.inr ⟨a.1, rfl⟩
    have := flatMap_spans_getElem? _ h1 k
    simpa [flatMap_attrEntry_spans] using this
  | write n s w taken _ =>
    have h1 : ∀ e ∈ ((Instr.loadName n, s) :: taken.map attrEntry), e.2.length = 1 := by
      intro e he
      refine hone e (hmem e ?_) ?_
      · simp only [List.mem_cons, List.mem_append, List.mem_map] at he ⊢
        rcases he with rfl | ⟨a, ha, rfl⟩
        · exact Or.inl rfl
        · exact Or.inr (Or.inl ⟨a, ha, rfl⟩)
      · simp only [List.mem_cons, List.mem_map] at he
        rcases he with rfl | ⟨a, _, rfl⟩
        · exact Or.inl ⟨n, rfl⟩
        · exact Or.inr ⟨a.1, rfl⟩
    have hflat := flatMap_spans_getElem? _ h1 k
    simp only [List.flatMap_cons, flatMap_attrEntry_spans] at hflat
    have hlen : k < ((Instr.loadName n, s) :: taken.map attrEntry).length := by
      have hs : s.length = 1 := h1 (Instr.loadName n, s) (by simp)
      have hcount : (s ++ taken.flatMap (·.2)).length
          = ((Instr.loadName n, s) :: taken.map attrEntry).length := by
        have h2 : ∀ (t : List (String × List Span)), (∀ a ∈ t, a.2.length = 1) →
            (t.flatMap (·.2)).length = t.length := by
          intro t
          induction t with
          | nil => intro _; rfl
          | cons a t ih =>
            intro h
            simp only [List.flatMap_cons, List.length_append, List.length_cons]
            rw [ih (fun b hb => h b (List.mem_cons_of_mem _ hb)), h a (by simp)]; omega
        have h3 : ∀ a ∈ taken, a.2.length = 1 := fun a ha =>
          h1 (attrEntry a) (List.mem_cons_of_mem _ (List.mem_map.mpr ⟨a, ha, rfl⟩))
        simp only [List.length_append, List.length_cons, List.length_map]
        rw [h2 taken h3, hs]; omega
      simp only at hk
      omega
    have h2 : ((Instr.loadName n, s) :: (taken.map attrEntry ++ [(Instr.writeTop, w)]))
        = ((Instr.loadName n, s) :: taken.map attrEntry) ++ [(Instr.writeTop, w)] := by simp
    simp only
    rw [h2, List.getElem?_append_left hlen]
    exact hflat

/-! ## Semantics of the fused instructions -/

section Semantics
variable {V σ : Type}

/-- `loadpath_eq_unfused`: in every state (any stack, any variables, any value of any kind at
any depth), `LoadPath [n, a₁ … aₘ]` gives the same stack and the same ok-vs-error as
`LoadName n; LoadAttr a₁; …; LoadAttr aₘ` — provided `n` is not the magic dump variable (the
optimiser's guard) and each replaced instruction has a span. -/
theorem loadpath_eq_unfused (env : Env V σ) (hU : env.isUndef env.undef = true)
    (n : String) (hn : n ≠ MAGICAL_DUMP_VAR) (sp : List Span) (hsp : sp ≠ [])
    (taken : List (String × List Span)) (ht : ∀ a ∈ taken, a.2 ≠ [])
    (stack : List (V × Bool)) (s : σ) :
    runSeq env ((.loadName n, sp) :: taken.map attrEntry) stack s
      = some (loadPath env (n :: taken.map (·.1)) (sp ++ taken.flatMap (·.2)) stack s) :=
  loadPath_eq_runSeq env hU n hn sp hsp taken ht stack s

/-- `writepath_eq_unfused`: in every state, `WritePath [n, a₁ … aₘ]` (`m ≥ 0`) gives the same
stack, the same output and the same ok-vs-error as `LoadName n; LoadAttr a₁; …; LoadAttr aₘ;
WriteTop` — including a root that is missing, an intermediate field that is missing or holds
`undefined`, and a last field that exists and holds `undefined` (F3).  The sink is
`Env.write v = emit (autoescape && !isSafe v) v`: on both sides the escape decision is taken on
the value that is written (the leaf), never on the root.  Needs what `Value::get_attr`
guarantees: an undefined value has no attributes. -/
theorem writepath_eq_unfused (env : Env V σ) (hU : env.isUndef env.undef = true)
    (hA : ∀ v a, env.isUndef v = true → env.getAttr v a = none)
    (n : String) (hn : n ≠ MAGICAL_DUMP_VAR) (sp w : List Span) (hsp : sp ≠ [])
    (taken : List (String × List Span)) (ht : ∀ a ∈ taken, a.2 ≠ [])
    (stack : List (V × Bool)) (s : σ) :
    runSeq env ((.loadName n, sp) :: (taken.map attrEntry ++ [(.writeTop, w)])) stack s
      = some (writePath env (n :: taken.map (·.1)) (sp ++ taken.flatMap (·.2)) stack s) :=
  writePath_eq_runSeq env hU hA n hn sp w hsp taken ht stack s

/-- Every group of the optimiser, on the VM: the pushed instruction does what the instructions
it replaces do, in every state.  (For an instruction kept as it is this is trivial; for the two
fused shapes it is the two theorems above.) -/
theorem fused_group_eq_unfused (c : List Entry) (hspans : PathSpans c)
    (env : Env V σ) (hU : env.isUndef env.undef = true)
    (hA : ∀ v a, env.isUndef v = true → env.getAttr v a = none)
    (g : Group) (hg : g ∈ groups c) (stack : List (V × Bool)) (s : σ) :
    runSeq env g.orig stack s = step? env g.out stack s :=
  group_eq_runSeq c hspans env hU hA g hg stack s

end Semantics

/-! ## The whole chunk: pc-simulation -/

section Simulation
variable {V σ : Type}

/-- The two runs end alike: both run off the end with the same value stack and the same state
(`σ` is everything else in `State`: output written so far, capture buffers, variable scopes,
loops), or both return an error, or both hit the same panic. -/
def SameResult (r r' : RunRes V σ) : Prop :=
  match r, r' with
  | .done a, .done b => b.stack = a.stack ∧ b.s = a.s
  | .err, .err => True
  | .panic x, .panic y => x = y
  | _, _ => False

theorem targetsOk_of_ok (c c' : List Entry) (h : optimize c = .ok c') : TargetsOk c := by
  intro e he t ht
  apply Classical.byContradiction
  intro hlt
  have : ∃ s, optimize c = .panic s :=
    (optimize_panics_iff c).mpr ⟨e, he, t, ht, by omega⟩
  obtain ⟨s, hs⟩ := this
  rw [h] at hs; cases hs

/-- `optimize_preserves`: for every chunk the pass accepts, every semantics of the abstract
instructions, every initial stack and state: a run of the original code that ends — running off
the end, in an error, or in a panic — within `fuel` turns of the interpreter loop is matched by a
run of the optimised code that ends the same way within at most as many turns, with the same
stack and state (so the same text written, the same final scopes); and conversely every ending
run of the optimised code is matched by an ending run of the original code.  Hence rendering
with the pass yields the same text, and fails exactly when rendering without it fails.
Hypotheses: each `LoadName`/`LoadAttr` has a span (as compiled), and what `Value` guarantees
about `undefined`. -/
theorem optimize_preserves (sem : Sem V σ) (c c' : List Entry) (hopt : optimize c = .ok c')
    (hspans : PathSpans c) (hU : sem.env.isUndef sem.env.undef = true)
    (hA : ∀ v a, sem.env.isUndef v = true → sem.env.getAttr v a = none)
    (stack : List (V × Bool)) (s : σ) :
    (∀ fuel, run sem c fuel 0 ⟨stack, [], s⟩ ≠ .outOfFuel →
      ∃ fuel', fuel' ≤ fuel ∧
        SameResult (run sem c fuel 0 ⟨stack, [], s⟩) (run sem c' fuel' 0 ⟨stack, [], s⟩)) ∧
    (∀ fuel', run sem c' fuel' 0 ⟨stack, [], s⟩ ≠ .outOfFuel →
      ∃ fuel, SameResult (run sem c fuel 0 ⟨stack, [], s⟩) (run sem c' fuel' 0 ⟨stack, [], s⟩)) := by
  have hc' : c' = optCode c := optimize_ok c c' hopt
  subst hc'
  have hr := targetsOk_of_ok c _ hopt
  have hrel : CfgRel c (⟨stack, [], s⟩ : Cfg V σ) ⟨stack, [], s⟩ := ⟨rfl, rfl, rfl, by simp⟩
  constructor
  · intro fuel hne
    have h := sim_forward sem c hr hspans hU hA fuel 0 0 _ _ (PcRel_zero c) hrel
    cases hrun : run sem c fuel 0 ⟨stack, [], s⟩ with
    | outOfFuel => exact absurd hrun hne
    | done a1 =>
      rw [hrun] at h
      obtain ⟨f, b1, hf, hb, h1, h2, _⟩ := h
      exact ⟨f, hf, by rw [hb]; exact ⟨h1, h2⟩⟩
    | err =>
      rw [hrun] at h
      obtain ⟨f, hf, hb⟩ := h
      exact ⟨f, hf, by rw [hb]; trivial⟩
    | panic x =>
      rw [hrun] at h
      obtain ⟨f, hf, hb⟩ := h
      exact ⟨f, hf, by rw [hb]; rfl⟩
  · intro fuel' hne
    have h := sim_backward sem c hr hspans hU hA fuel' 0 0 _ _ (PcRel_zero c) hrel
    cases hrun : run sem (optCode c) fuel' 0 ⟨stack, [], s⟩ with
    | outOfFuel => exact absurd hrun hne
    | done b1 =>
      rw [hrun] at h
      obtain ⟨f, a1, ha, h1, h2, _⟩ := h
      exact ⟨f, by rw [ha]; exact ⟨h1, h2⟩⟩
    | err =>
      rw [hrun] at h
      obtain ⟨f, ha⟩ := h
      exact ⟨f, by rw [ha]; trivial⟩
    | panic x =>
      rw [hrun] at h
      obtain ⟨f, ha⟩ := h
      exact ⟨f, by rw [ha]; rfl⟩

end Simulation

/-! ## The hypotheses are satisfiable; spot checks on the shapes the repo's own snapshot pins -/

/-- `{{ false and user.name }}` (short_circuit_path.txt): the `WriteTop` is a jump target and is
not folded; the path before it becomes a `LoadPath`; the jump operand 4 becomes 3. -/
example :
    optimize [(.other "LoadConst" "false", ["s0"]), (.jumpIfFalseOrPop 4, []),
      (.loadName "user", ["s1"]), (.loadAttr "name", ["s2"]), (.writeTop, [])]
    = .ok [(.other "LoadConst" "false", ["s0"]), (.jumpIfFalseOrPop 3, []),
      (.loadPath ["user", "name"], ["s1", "s2"]), (.writeTop, [])] := by decide

example : TargetsInRange [(.other "LoadConst" "false", ["s0"]), (.jumpIfFalseOrPop 4, []),
    (.loadName "user", ["s1"]), (.loadAttr "name", ["s2"]), (.writeTop, [])] := by
  intro e he t ht
  simp only [List.mem_cons, List.not_mem_nil, or_false] at he
  rcases he with rfl | rfl | rfl | rfl | rfl <;> simp [Instr.target?] at ht
  subst ht; decide

example : NoFused [(.loadName "a", ["s"]), (.writeTop, [])] := by
  intro e he; simp at he; rcases he with rfl | rfl <;> rfl

/-- A jump to the one-past-the-end index is remapped through the last `index_map` entry. -/
example : optimize [(.jump 3, []), (.loadName "a", ["s"]), (.writeTop, [])]
    = .ok [(.jump 2, []), (.writePath ["a"], ["s"])] := by decide

/-- A jump beyond that panics (the only panic of the pass). -/
example : optimize [(.jump 2, [])]
    = .panic "instructions.rs:329 index_map[*target]: index out of bounds" := by decide

/-- The magic dump variable is never fused. -/
example : optimize [(.loadName MAGICAL_DUMP_VAR, ["s"]), (.loadAttr "a", ["t"]), (.writeTop, [])]
    = .ok [(.loadName MAGICAL_DUMP_VAR, ["s"]), (.loadAttr "a", ["t"]), (.writeTop, [])] := by decide

/-! ### The semantic hypotheses are satisfiable -/

/-- A tiny instance: values are numbers, 0 is undefined, the variable `x` holds 1 and every other
variable 14, even values are "safe", escaping adds 1000, attribute access decrements (so the chain eventually reaches a field holding undefined). -/
def exEnv : Env Nat (List Nat) where
  undef := 0
  isUndef v := v == 0
  getValue _ n := if n = "x" then 1 else 14
  dumpContext _ := 99
  getAttr v _ := if v = 0 then none else some (v - 1)
  isSafe v := v % 2 == 0
  autoescape := true
  emit esc v s := some ((if esc then 1000 + v else v) :: s)

example : exEnv.isUndef exEnv.undef = true := rfl
example : ∀ v a, exEnv.isUndef v = true → exEnv.getAttr v a = none := by
  intro v a h; simp [exEnv] at h ⊢; exact h

/-- F3's shape: the last field exists and holds undefined — the fused write is an error, as the
unfused sequence is (before the `fix:` commit the fused instruction printed an empty string). -/
example : (match writePath exEnv ["x", "k"] ["s0", "s1"] [] [] with | .err => true | _ => false) = true := by
  simp [writePath, walkWrite, exEnv, needSpan, spanOrPanic, MAGICAL_DUMP_VAR]

example : (match runSeq exEnv [(.loadName "x", ["s0"]), (.loadAttr "k", ["s1"]), (.writeTop, [])] [] [] with
    | some .err => true | _ => false) = true := by
  simp [runSeq, step?, PathVm.loadName, loadAttr, writeTop, exEnv, spanOrPanic, MAGICAL_DUMP_VAR]

/-- The optimiser's guard is needed: with the magic dump variable as root a `LoadPath` reads the
variable table, not the dump, so it would not equal the unfused sequence. -/
example : (match loadPath exEnv [MAGICAL_DUMP_VAR, "k"] ["s0", "s1"] [] [] with
    | .ok [(v, _)] _ => v | _ => 0) = 13 := by
  simp [loadPath, walkLoad, exEnv, MAGICAL_DUMP_VAR]

example : (match runSeq exEnv [(.loadName MAGICAL_DUMP_VAR, ["s0"]), (.loadAttr "k", ["s1"])] [] [] with
    | some (.ok [(v, _)] _) => v | _ => 0) = 98 := by
  simp [runSeq, step?, PathVm.loadName, loadAttr, exEnv]

/-- A tiny semantics on top of `exEnv`: the hypotheses of `optimize_preserves` hold for it and
runs do end (the premise "not out of fuel" is satisfiable), e.g. `{{ y and x.k }}`: `y` = 14 is
truthy and `x.k` = 0 is undefined, so the original and the optimised code both end in an error. -/
def exSem : Sem Nat (List Nat) where
  env := exEnv
  truthy v := v != 0
  isOver _ := true
  advance _ s := s
  other _ _ st s := .ok st s

def exChunk : List Entry :=
  [(.loadName "y", ["s0"]), (.jumpIfFalseOrPop 4, []), (.loadName "x", ["s1"]),
   (.loadAttr "k", ["s2"]), (.writeTop, [])]

example : optimize exChunk = .ok [(.loadName "y", ["s0"]), (.jumpIfFalseOrPop 3, []),
    (.loadPath ["x", "k"], ["s1", "s2"]), (.writeTop, [])] := by decide

example : (match run exSem exChunk 5 0 ⟨[], [], []⟩ with | .err => true | _ => false) = true := by
  decide

example : (match run exSem [(.loadName "y", ["s0"]), (.jumpIfFalseOrPop 3, []),
    (.loadPath ["x", "k"], ["s1", "s2"]), (.writeTop, [])] 4 0 ⟨[], [], []⟩ with
    | .err => true | _ => false) = true := by decide

/-- and a run that writes: `{{ y.k }}` — the root `y` = 14 is "safe", the leaf 13 is not: the
escape decision is taken on the leaf, on both sides (13 goes through the escape function) -/
example : (match run exSem [(.loadName "y", ["s0"]), (.loadAttr "k", ["s1"]), (.writeTop, [])] 3 0
    ⟨[], [], []⟩ with | .done cfg => cfg.s | _ => []) = [1013] := by decide

example : (match run exSem [(.writePath ["y", "k"], ["s0", "s1"])] 1 0 ⟨[], [], []⟩ with
    | .done cfg => cfg.s | _ => []) = [1013] := by decide

end Tera.C09
