/-
C08 — "Template text is reproduced verbatim except for whitespace next to `-` markers", END TO END
on the composed whole-engine model (Model/Pipeline.lean): from the Content tokens of the filtered
lexer to the text `render` returns.

Property theorems only (lemmas: Lemmas/PipelineC08.lean).  The stages compose as follows.
* lexer + whitespace filter: Props/C08.lean (bB_lexer) characterises the Content tokens — the
  source slice between tags byte for byte (`content_is_source_slice`), trimmed exactly next to `-`
  markers (`ws_filter_spec`, `trim_*_exact`), comments replaced by an empty text
  (`comments_produce_nothing`), raw bodies verbatim (`raw_verbatim`);
* parser: every non-empty Content token becomes a `Node.content` with the same text, in order,
  empty ones are dropped (parser.rs:1661-1666) — PROVED by bG1_parser, Props/C08Parser.lean
  `content_tokens_are_ast_texts` (with the fully deep walk `Node.allTextsList`); the statement
  first written here, `content_tokens_are_ast_texts_full` below, used a walk that is too shallow
  and is FALSE (refuted there; kept only because the refutation refers to it);
* all stages composed, source bytes to stored chunks: Props/C08E2E.lean
  `source_text_reaches_chunks`;
* compiler + optimiser + stored chunk: `text_reaches_output_verbatim` — PROVED for every parsed
  template: the `WriteText` payloads of every stored chunk are exactly the texts of the content
  nodes compiled into that chunk, in order;
* VM: `write_text_is_verbatim` — a `WriteText` turn appends exactly its payload to the current
  sink, never escaped (p2_vmprops' `C01Vm.vm_sink_rule` is the exhaustive sink characterisation);
* all stages on a source without any start delimiter: `text_only_template_renders_itself`.
-/
import TeraModel.Lemmas.PipelineC08
import TeraModel.Props.C01Vm
namespace Tera.C08Pipeline
open Tera Tera.Pipeline Tera.Compiler

/-! ## (1) the texts of the AST reach the stored chunks verbatim, in order -/

/-- the non-empty Content payloads of a parser token list, in order -/
def contentPayloads : List Tok → List String
  | [] => []
  | .content s :: rest => if s.isEmpty then contentPayloads rest else s :: contentPayloads rest
  | _ :: rest => contentPayloads rest

mutual
/-- (too shallow, see `content_tokens_are_ast_texts_full`) the literal texts of a node list, block
bodies included only where the block is an element of the list -/
def deepTexts : List Node → List String
  | [] => []
  | n :: rest => deepText n ++ deepTexts rest
def deepText : Node → List String
  | .block _ body => deepTexts body
  | n => nodeTexts n
end

/-- REFUTED — do not use.  The parser link as first stated, with the walk `deepTexts`, which
descends into a block only where the block is an element of the list it walks: FALSE
(`C08Parser.not_content_tokens_are_ast_texts_full`, `C08E2E.shallow_walk_statement_is_false`; a
block inside a filter section / set block / component-call body is accepted by the parser).  The
true statement, proved, is `C08Parser.content_tokens_are_ast_texts` (walk `Node.allTextsList`);
the composition with the compiler is `C08E2E.chunk_texts_are_ast_texts`. -/
def content_tokens_are_ast_texts_full : Prop :=
  ∀ (maxDepth : Nat) (toks : List Tok) (t : Template) (s : TParser.TState),
    TParser.shaped .tpl toks = true → TParser.parse maxDepth toks = .ok t s →
    t.componentDefinitions = [] → deepTexts t.nodes = contentPayloads toks

/-- **(1) `text_reaches_output_verbatim`.**  For EVERY template the parser model accepts and every
template name: the compiler model answers, every chunk is stored, and
* the `WriteText` payloads of the stored MAIN chunk, in order, are exactly `nodesTexts t.nodes`:
  the texts of the content nodes of the template body in source order — through `if` / `for` /
  `else` bodies, set-block and filter-section bodies and component-call bodies (also those inside
  expressions), and NOT through `{% block %}` bodies, which are compiled into chunks of their own;
* every block chunk is the compilation of a node list whose texts are exactly its stored
  `WriteText` payloads, in order;
* the stored chunk of every component definition writes exactly the texts of its body, in order.
Nothing is merged, dropped, duplicated or reordered by the compiler (`texts_nodes`), by the
optimiser (`etexts_optimized`: the pass only fuses variable paths) or by the decoding
(`vtexts_decodeAll`).  By design, BEFORE this stage: an empty Content (what a comment becomes, or a
text trimmed to nothing) is dropped by the parser; the body of a raw block is an ordinary Content. -/
theorem text_reaches_output_verbatim (maxDepth : Nat) (toks : List Tok) (t : Template)
    (s : TParser.TState) (h : TParser.parse maxDepth toks = .ok t s) (name : String) :
    ∃ c, compileTemplate t = .ok c ∧
      (∃ main, storeChunk name c.main = .ok main ∧
        vtexts main.code = (nodesTexts t.nodes).map String.toList) ∧
      (∀ p ∈ c.blocks, ∃ body ch, p.2 = nodesCode 0 none body ∧ storeChunk name p.2 = .ok ch ∧
        vtexts ch.code = (nodesTexts body).map String.toList) ∧
      (∀ d ∈ t.componentDefinitions, ∃ ch, storeChunk name (nodesCode 0 none d.body) = .ok ch ∧
        vtexts ch.code = (nodesTexts d.body).map String.toList) := by
  obtain ⟨h1, h2⟩ := TParser.parse_scoped maxDepth toks t s h
  obtain ⟨c, hc⟩ := compile_ok_of_scoped t h1 h2
  obtain ⟨hmain, hblocks, _⟩ := chunks_are_nodes t c hc
  refine ⟨c, hc, ?_, ?_, ?_⟩
  · obtain ⟨ch, hch⟩ := storeChunk_nodes name t.nodes
    refine ⟨ch, by rw [hmain]; exact hch, ?_⟩
    rw [storeChunk_texts name _ ch hch, texts_nodes]
  · intro p hp
    obtain ⟨body, hb⟩ := hblocks p hp
    obtain ⟨ch, hch⟩ := storeChunk_nodes name body
    refine ⟨body, ch, hb, by rw [hb]; exact hch, ?_⟩
    rw [storeChunk_texts name _ ch hch, texts_nodes]
  · intro d _
    obtain ⟨ch, hch⟩ := storeChunk_nodes name d.body
    refine ⟨ch, hch, ?_⟩
    rw [storeChunk_texts name _ ch hch, texts_nodes]

/-! ## (2) `WriteText` appends its payload, never escaped -/

/-- **(2) `write_text_is_verbatim`.**  One turn of the interpreter loop on `WriteText t` — in any
environment, for any template (autoescape on or off), any nested-call function, any state —
continues at the next instruction with `t` appended, character for character, to the innermost
capture buffer when there is one and to the output otherwise; nothing else changes.  The text
does not pass through the escaper (only `WriteTop` / `WritePath` call it).  This is the
`WriteText` row of the exhaustive sink characterisation `C01Vm.vm_sink_rule` (p2_vmprops): no
other instruction writes literal text, and every other write goes through `emitValue`. -/
theorem write_text_is_verbatim (rec : Vm.VmCtx → Vm.Chunk → Vm.State → Vm.RunRes) (env : Vm.Env)
    (vm : Vm.VmCtx) (c : Vm.Chunk) (t : List Char) (spans : List Span) (pc : Nat) (st : Vm.State) :
    Vm.step rec env vm c (.writeText t, spans) pc st = .next (pc + 1) (st.write t) ∧
    (st.captures = [] → (st.write t).out = st.out ++ t ∧ (st.write t).captures = []) ∧
    (∀ b bs, st.captures = b :: bs → (st.write t).captures = (b ++ t) :: bs ∧ (st.write t).out = st.out) ∧
    (st.write t).stack = st.stack := by
  refine ⟨rfl, ?_, ?_, ?_⟩
  · intro h; simp [Vm.State.write, h]
  · intro b bs h; simp [Vm.State.write, h]
  · unfold Vm.State.write; split <;> rfl

/-! ## (3) a source without any start delimiter renders to itself -/

/-- **(3) `text_only_template_renders_itself`.**  Let `cs` be any text and `d` ANY delimiter set
(validated or not) none of whose three start delimiters occurs in the UTF-8 of `cs` (end
delimiters, lone braces, any Unicode, any whitespace are allowed).  Registered alone under any
name, with any autoescape suffixes, fallback prefixes, registered names and built-ins, and rendered
under EVERY context and global context with any fuel of at least one nested call and one turn, the
composed engine — lexer, whitespace filter, parser, compiler, optimiser, `finalize_templates`,
VM, no checker run — returns exactly `cs`: not trimmed, not escaped, whatever the autoescape
setting.  Each stage is computed: one Content token holding the source
(`C08.no_start_delim_identity`), one content node, one `WriteText`, one registered template with
no parents, one turn of the interpreter. -/
theorem text_only_template_renders_itself (cfg : Config) (name : String) (cs : List Char)
    (h : Lexer.NoStart cfg.delims (Wire.utf8Encode cs)) (depth steps : Nat) (ctx : Ctx) :
    renderSourcesT cfg [(name, Wire.utf8Encode cs)] ⟨depth + 1, steps + 1⟩ name ctx = .ok (.ok cs) := by
  unfold renderSourcesT
  rw [addTemplatesT_text cfg name cs h]
  simp only [Pipeline.render]
  rw [render_text cfg name cs depth steps none rfl ctx []]

/-- the same for `render_block`-free `render` with a global context -/
theorem text_only_template_renders_itself_global (cfg : Config) (name : String) (cs : List Char)
    (h : Lexer.NoStart cfg.delims (Wire.utf8Encode cs)) (depth steps : Nat) (ctx g : Ctx) :
    ∃ env, addTemplatesT cfg [(name, Wire.utf8Encode cs)] = .ok env ∧
      Pipeline.render ⟨depth + 1, steps + 1⟩ env name ctx g = .ok cs :=
  ⟨_, addTemplatesT_text cfg name cs h, render_text cfg name cs depth steps none rfl ctx g⟩

/-- with the default delimiters, a text without the byte `{` has no start delimiter -/
theorem noStart_default_of_no_brace (s : Bytes) (h : 0x7B ∉ s) :
    Lexer.NoStart Generated.defaultDelims s := by
  have key : ∀ x, ¬ Lexer.Occurs [0x7B, x] s := by
    rintro x ⟨pre, post, rfl⟩
    exact h (by simp)
  exact ⟨key _, key _, key _⟩

/-- corollary under the default delimiters: a text in which `{` does not occur renders to itself -/
theorem text_without_brace_renders_itself (cfg : Config) (hd : cfg.delims = Generated.defaultDelims)
    (name : String) (cs : List Char) (h : 0x7B ∉ Wire.utf8Encode cs) (depth steps : Nat) (ctx : Ctx) :
    renderSourcesT cfg [(name, Wire.utf8Encode cs)] ⟨depth + 1, steps + 1⟩ name ctx = .ok (.ok cs) :=
  text_only_template_renders_itself cfg name cs (by rw [hd]; exact noStart_default_of_no_brace _ h)
    depth steps ctx

/-- the hypothesis is satisfiable: `a}} b %} é <p>` (end delimiters, markup, non-ASCII) -/
example : 0x7B ∉ Wire.utf8Encode "a}} b %} é <p>".toList := by decide

end Tera.C08Pipeline
