/-
C18 on the REAL VM model — output channels agree, write failures surface, rendering is pure:
the statements of Props/C18.lean (`render_eq_render_to`, `write_failure_prefix`,
`io_iff_writer_refused`, `render_pure`), which are about the abstract program trees of
Model/Writer.lean, re-proved for the value-level VM of Model/Vm.lean, i.e. for EVERY bytecode
listing, every environment (templates, components, built-ins), every context and every fuel.
(`cvm` ties Model/Vm.lean to the engine by running the real stored listings.)

Property theorems only; helper lemmas are in Lemmas/VmWriterOut.lean (one lemma per instruction
arm), Lemmas/VmWriterTrace.lean (the ghost trace: a thin wrapper around the REAL `step`) and
Lemmas/VmWriterFeed.lean (`runW`, `renderToW`: the run under an arbitrary writer of
Model/Writer.lean), Lemmas/VmWriterExact.lean (`interpW`: the writer threaded through the loop; the
two writer families of the harness).

Not in the model, hence still only covered by harness/src/bin/c18.rs: that each write site of the
Rust propagates the error with `?` (here: "the run stops at the first refused call" is how `feed`
is defined), thread schedules, `Send`/`Sync`.
-/
import TeraModel.Lemmas.VmWriterExact
namespace Tera.C18Vm
open Tera Tera.Vm
open Tera.W (Writer Sink NeverFails failAtCall acceptBytes trickle recorder userDev)

/-! ## W1 — the output only grows -/

/-- W1, one turn: whatever the instruction, the state and the operands, a turn of the interpreter
loop that continues leaves an output that has the output before the turn as a prefix — captures
do not touch it, a block that `render_block` captures and `super()` put it back, an include appends
to it — provided the nested `interpret` calls (`rec`) behave likewise. -/
theorem vm_output_only_grows (rec : VmCtx → Chunk → State → RunRes) (hrec : OutGrows rec) (env : Env)
    (vm : VmCtx) (c : Chunk) (e : VEntry) (pc pc' : Nat) (st st' : State)
    (h : step rec env vm c e pc st = .next pc' st') : st.out <+: st'.out :=
  step_out_grows hrec e h

/-- W1, a whole `interpret` call with everything it calls (induction on both fuels): no
hypothesis left. -/
theorem vm_run_output_only_grows (fuel : Fuel) (env : Env) (vm : VmCtx) (c : Chunk) (st st' : State)
    (h : run fuel env vm c st = .done st') : st.out <+: st'.out :=
  interp_out_grows env fuel.steps fuel.depth vm c st st' h

/-- W1, every intermediate point: if the interpreter loop of a successful `interpret` call passes
through `(pc1, st1)` (`Reach`: any number of turns from the start), then the output at that point
extends the initial output and is a prefix of the final output. -/
theorem vm_output_prefix_at_every_point (env : Env) (steps depth : Nat) (vm : VmCtx) (c : Chunk)
    (st stf : State) (pc1 : Nat) (st1 : State)
    (hrun : interp env steps (depth + 1) vm c st = .done stf)
    (hreach : Reach (interp env steps depth) env vm c (0, st) (pc1, st1)) :
    st.out <+: st1.out ∧ st1.out <+: stf.out :=
  reach_out_prefix (interp_out_grows env steps depth) hreach steps stf hrun

/-! ## The ghost trace is faithful -/

/-- The traced run is the run: same result, for every listing, state and fuel; and when the run
succeeds, the chunks of the trace, concatenated, are exactly what it appended to its output. -/
theorem vm_trace_faithful (fuel : Fuel) (env : Env) (vm : VmCtx) (c : Chunk) (st : State) :
    (traceRun noGuard fuel env vm c st).1 = run fuel env vm c st ∧
    ∀ st', run fuel env vm c st = .done st' →
      st'.out = st.out ++ (traceRun noGuard fuel env vm c st).2.text := by
  refine ⟨tInterp_fst env fuel.steps fuel.depth vm c st, ?_⟩
  intro st' h
  have h' : (tInterp noGuard env fuel.steps fuel.depth vm c st).1 = .done st' := by
    rw [tInterp_fst]; exact h
  exact tInterp_out noGuard env fuel.steps fuel.depth vm c st st' h'

/-- What `render` returns is what the trace of its run spells (`renderBytes`: every byte handed to
a writer that refuses nothing). -/
theorem vm_render_ok_bytes (fuel : Fuel) (env : Env) (name : String) (block : Option String)
    (ctx globalCtx : Ctx) (text : List Char)
    (h : render fuel env name block ctx globalCtx = .ok text) :
    renderBytes fuel env name block ctx globalCtx = toBytes text := by
  unfold render at h
  unfold renderBytes
  cases htpl : env.template name with
  | none => rw [htpl] at h; cases h
  | some tpl =>
    rw [htpl] at h
    simp only at h ⊢
    split
    · rename_i hl; rw [if_pos hl] at h; cases h
    · rename_i hl
      rw [if_neg hl] at h
      cases hc : entryChunk env tpl with
      | none => rw [hc] at h; cases h
      | some chunk =>
        rw [hc] at h
        simp only at h ⊢
        obtain ⟨h1, h2⟩ := vm_trace_faithful fuel env
          { template := tpl, autoescapeOverride := none, depth := 0 } chunk (entryState block ctx globalCtx)
        cases hr : run fuel env { template := tpl, autoescapeOverride := none, depth := 0 } chunk
            (entryState block ctx globalCtx) with
        | done st' =>
          rw [hr] at h
          simp only [outcomeOf, Outcome.ok.injEq] at h
          cases block with
          | none =>
            simp only [Option.isSome_none, Bool.false_eq_true, ↓reduceIte] at h
            simp only [renderCalls, callsOf_flatten]
            have hout : (entryState none ctx globalCtx).out = [] := rfl
            have := h2 st' hr
            rw [hout, List.nil_append] at this
            rw [← this, h]
          | some b =>
            simp only [Option.isSome_some, ↓reduceIte] at h
            simp only [renderCalls, h1, hr, h, List.flatten_cons, List.flatten_nil, List.append_nil]
        | err e => rw [hr] at h; cases h
        | panic s => rw [hr] at h; cases h
        | unmodelled w => rw [hr] at h; cases h
        | outOfFuel => rw [hr] at h; cases h

/-! ## W2 — a failing writer sees a prefix; `Io` iff it refused; `render` = `render_to` -/

/-- **Write failures surface, and what was accepted is a prefix** — one `interpret` call on any
listing, under ANY writer and any cutting of chunks into `write_all` calls.  Either the writer never
refused, and then the call ended exactly like `run` with exactly the run's chunks accepted; or it
refused, and then the call returned the I/O error (not `Ok`, not another error, not a panic) and
what it accepted is a prefix of what the run writes. -/
theorem vm_failing_writer_prefix {σ : Type} (W : Writer σ) (sp : Split) (fuel : Fuel) (env : Env)
    (vm : VmCtx) (c : Chunk) (st : State) (s0 : σ) :
    ((runW W sp fuel env vm c st s0).2.failed = false ∧
      (runW W sp fuel env vm c st s0).1 = .fin (run fuel env vm c st) ∧
      (runW W sp fuel env vm c st s0).2.accepted = toBytes (traceRun noGuard fuel env vm c st).2.text) ∨
    ((runW W sp fuel env vm c st s0).2.failed = true ∧
      (runW W sp fuel env vm c st s0).1 = .io ∧
      (runW W sp fuel env vm c st s0).2.accepted <+: toBytes (traceRun noGuard fuel env vm c st).2.text) := by
  have hf := (vm_trace_faithful fuel env vm c st).1
  unfold runW
  simp only
  rw [← callsOf_flatten sp, ← hf]
  exact feed_spec W s0 _ _ _

/-- The same for the entry points `Tera::render_to` / `render_block_to` (`write_failure_prefix` of
Props/C18.lean, on the real VM model): every template, block, context, fuel, writer and cut. -/
theorem vm_render_failing_writer_prefix {σ : Type} (W : Writer σ) (sp : Split) (fuel : Fuel)
    (env : Env) (name : String) (block : Option String) (ctx globalCtx : Ctx) (s0 : σ) :
    ((renderToW W sp fuel env name block ctx globalCtx s0).2.failed = false ∧
      (renderToW W sp fuel env name block ctx globalCtx s0).1
        = .fin (render fuel env name block ctx globalCtx) ∧
      (renderToW W sp fuel env name block ctx globalCtx s0).2.accepted
        = renderBytes fuel env name block ctx globalCtx) ∨
    ((renderToW W sp fuel env name block ctx globalCtx s0).2.failed = true ∧
      (renderToW W sp fuel env name block ctx globalCtx s0).1 = .io ∧
      (renderToW W sp fuel env name block ctx globalCtx s0).2.accepted
        <+: renderBytes fuel env name block ctx globalCtx) := by
  unfold renderToW render renderBytes
  cases htpl : env.template name with
  | none => left; simp [Sink.fresh]
  | some tpl =>
    simp only
    split
    · left; simp [Sink.fresh]
    · cases hc : entryChunk env tpl with
      | none => left; simp [Sink.fresh]
      | some chunk =>
        simp only
        have hf := (vm_trace_faithful fuel env
          { template := tpl, autoescapeOverride := none, depth := 0 } chunk (entryState block ctx globalCtx)).1
        rw [← renderCalls_flatten sp, ← hf]
        exact feed_spec W s0 _ _ _

/-- **`render_to` returns the I/O error exactly when the writer refused a call** — never `Ok`
(or a rendering error, or a panic) after a refusal, never an I/O error without one. -/
theorem vm_io_iff_writer_refused {σ : Type} (W : Writer σ) (sp : Split) (fuel : Fuel)
    (env : Env) (name : String) (block : Option String) (ctx globalCtx : Ctx) (s0 : σ) :
    (renderToW W sp fuel env name block ctx globalCtx s0).1 = .io ↔
    (renderToW W sp fuel env name block ctx globalCtx s0).2.failed = true := by
  rcases vm_render_failing_writer_prefix W sp fuel env name block ctx globalCtx s0 with
    ⟨h1, h2, _⟩ | ⟨h1, h2, _⟩
  · constructor
    · intro h; rw [h2] at h; cases h
    · intro h; rw [h1] at h; cases h
  · exact ⟨fun _ => h1, fun _ => h2⟩

/-- **`render` = `render_to`** (whole template and single block).  Under a writer that never
refuses (whole or short writes alike, any cut): `render_to` ends with the outcome of `render`, the
writer has accepted every byte of the run, and when `render` succeeds those bytes are the UTF-8
of the text it returns. -/
theorem vm_render_eq_render_to {σ : Type} (W : Writer σ) (hW : NeverFails W) (sp : Split)
    (fuel : Fuel) (env : Env) (name : String) (block : Option String) (ctx globalCtx : Ctx) (s0 : σ) :
    (renderToW W sp fuel env name block ctx globalCtx s0).1
      = .fin (render fuel env name block ctx globalCtx) ∧
    (renderToW W sp fuel env name block ctx globalCtx s0).2.failed = false ∧
    (renderToW W sp fuel env name block ctx globalCtx s0).2.accepted
      = renderBytes fuel env name block ctx globalCtx ∧
    ∀ text, render fuel env name block ctx globalCtx = .ok text →
      (renderToW W sp fuel env name block ctx globalCtx s0).2.accepted = toBytes text := by
  have key : (renderToW W sp fuel env name block ctx globalCtx s0).1
        = .fin (render fuel env name block ctx globalCtx) ∧
      (renderToW W sp fuel env name block ctx globalCtx s0).2.failed = false ∧
      (renderToW W sp fuel env name block ctx globalCtx s0).2.accepted
        = renderBytes fuel env name block ctx globalCtx := by
    unfold renderToW render renderBytes
    cases htpl : env.template name with
    | none => simp [Sink.fresh]
    | some tpl =>
      simp only
      split
      · simp [Sink.fresh]
      · cases hc : entryChunk env tpl with
        | none => simp [Sink.fresh]
        | some chunk =>
          simp only
          have hf := (vm_trace_faithful fuel env
            { template := tpl, autoescapeOverride := none, depth := 0 } chunk (entryState block ctx globalCtx)).1
          rw [← renderCalls_flatten sp, ← hf]
          obtain ⟨a, b, c⟩ := feed_neverFails W hW s0
            (renderCalls sp block (traceRun noGuard fuel env
              { template := tpl, autoescapeOverride := none, depth := 0 } chunk (entryState block ctx globalCtx)))
            WOutcome.io (WOutcome.fin (outcomeOf block (traceRun noGuard fuel env
              { template := tpl, autoescapeOverride := none, depth := 0 } chunk (entryState block ctx globalCtx)).1))
          exact ⟨b, a, c⟩
  refine ⟨key.1, key.2.1, key.2.2, ?_⟩
  intro text h
  rw [key.2.2, vm_render_ok_bytes fuel env name block ctx globalCtx text h]

/-- A failing writer cannot make the engine panic or change the error it reports: whatever
`render_to` returns under some writer other than the I/O error is what `render` returns. -/
theorem vm_writer_cannot_change_outcome {σ : Type} (W : Writer σ) (sp : Split) (fuel : Fuel)
    (env : Env) (name : String) (block : Option String) (ctx globalCtx : Ctx) (s0 : σ) (o : Outcome)
    (h : (renderToW W sp fuel env name block ctx globalCtx s0).1 = .fin o) :
    render fuel env name block ctx globalCtx = o := by
  rcases vm_render_failing_writer_prefix W sp fuel env name block ctx globalCtx s0 with
    ⟨_, h2, _⟩ | ⟨_, h2, _⟩
  · rw [h2] at h; simp only [WOutcome.fin.injEq] at h; exact h
  · rw [h2] at h; cases h

/-- **Stopping early = stopping afterwards.**  `interpW` threads the writer through the interpreter
loop: after every turn the `write_all` calls of that turn are made, and at the first refusal the
loop returns the I/O error without looking at the next instruction (what the `?` after each
`write_all` does).  It computes exactly `runW`, which feeds the trace of the complete run: the VM
never reads its output, so the two cannot be told apart — result and writer state. -/
theorem vm_writer_threaded_eq {σ : Type} (W : Writer σ) (sp : Split) (fuel : Fuel) (env : Env)
    (vm : VmCtx) (c : Chunk) (st : State) (s0 : σ) :
    interpW W sp fuel env vm c st s0 = runW W sp fuel env vm c st s0 :=
  interpW_eq_runW W sp fuel env vm c st s0

/-- **The byte-budget writer of the harness, exactly** (`acceptBytes_accepted_exact` of
Props/C18.lean on the real VM model).  A writer that accepts `n` bytes in total (splitting the last
buffer: a partial write) and then refuses has accepted, when `render_to` returns, exactly the first
`n` bytes of everything the render writes — every listing, both entry modes, every cut. -/
theorem vm_acceptBytes_accepted_exact (n : Nat) (sp : Split) (fuel : Fuel) (env : Env) (name : String)
    (block : Option String) (ctx globalCtx : Ctx) :
    (renderToW acceptBytes sp fuel env name block ctx globalCtx n).2.accepted
      = (renderBytes fuel env name block ctx globalCtx).take n := by
  unfold renderToW renderBytes
  cases htpl : env.template name with
  | none => simp [Sink.fresh]
  | some tpl =>
    simp only
    split
    · simp [Sink.fresh]
    · cases hc : entryChunk env tpl with
      | none => simp [Sink.fresh]
      | some chunk =>
        simp only
        rw [← renderCalls_flatten sp]
        exact feed_acceptBytes_exact n _ _ _

/-- **The call-index writer of the harness, exactly** (`failAtCall_exact` of Props/C18.lean on the
real VM model).  A writer that refuses its `k`-th `write` call (0-based) and every later one:
when `render_to` returns it has accepted exactly the first `k` non-empty `write_all` calls of the
render, and `render_to` returns the I/O error iff there was a `k`-th call. -/
theorem vm_failAtCall_exact (k : Nat) (sp : Split) (fuel : Fuel) (env : Env) (name : String)
    (ctx globalCtx : Ctx) (tpl : TemplateInfo) (chunk : Chunk) (htpl : env.template name = some tpl)
    (hc : entryChunk env tpl = some chunk) :
    let calls := nonEmpty (callsOf sp (traceRun noGuard fuel env
      { template := tpl, autoescapeOverride := none, depth := 0 } chunk (entryState none ctx globalCtx)).2)
    (renderToW (failAtCall k) sp fuel env name none ctx globalCtx 0).2.accepted = (calls.take k).flatten ∧
    ((∃ s, renderToW (failAtCall k) sp fuel env name none ctx globalCtx 0 = (.io, s)) ↔ k < calls.length) := by
  intro calls
  unfold renderToW
  simp only [htpl, hc, lineageMissing, Bool.false_eq_true, ↓reduceIte, renderCalls]
  -- the two results of `feed` are told apart by a Bool so that `feed_failAtCall_exact` applies
  have key := feed_failAtCall_exact k (callsOf sp (traceRun noGuard fuel env
    { template := tpl, autoescapeOverride := none, depth := 0 } chunk (entryState none ctx globalCtx)).2)
    true false (by decide)
  unfold feed at key ⊢
  cases hw : (userDev (failAtCall k)).writeChunks (Sink.fresh 0) (callsOf sp (traceRun noGuard fuel env
    { template := tpl, autoescapeOverride := none, depth := 0 } chunk (entryState none ctx globalCtx)).2) with
  | mk s ok =>
    rw [hw] at key
    cases ok with
    | true =>
      simp only at key ⊢
      refine ⟨key.1, ?_⟩
      constructor
      · rintro ⟨s', h⟩; cases h
      · intro h; exact absurd (key.2.2 h) (by decide)
    | false =>
      simp only at key ⊢
      exact ⟨key.1, fun _ => key.2.1 trivial, fun _ => ⟨s, rfl⟩⟩

/-! ## W3 — rendering is pure -/

/-- **Rendering is pure.**  In the model this is immediate, and it is the point: `render` is a
Lean function of the environment (the `Tera` instance: templates, components, built-ins), the
template and block names and the two contexts; the environment is an argument that is passed
unchanged to every nested `interpret` (`interp env`, `step rec env`) and is not part of any
result, so there is nothing a render could change for the next one.  Hence what two writers
receive — whatever their own states, whatever was rendered in between — is the same as long as
neither refuses. -/
theorem vm_render_pure {σ τ : Type} (W : Writer σ) (V : Writer τ) (hW : NeverFails W)
    (hV : NeverFails V) (sp sp' : Split) (fuel : Fuel) (env : Env) (name : String)
    (block : Option String) (ctx globalCtx : Ctx) (s0 : σ) (t0 : τ) :
    (renderToW W sp fuel env name block ctx globalCtx s0).1
      = (renderToW V sp' fuel env name block ctx globalCtx t0).1 ∧
    (renderToW W sp fuel env name block ctx globalCtx s0).2.accepted
      = (renderToW V sp' fuel env name block ctx globalCtx t0).2.accepted := by
  obtain ⟨a1, _, a3, _⟩ := vm_render_eq_render_to W hW sp fuel env name block ctx globalCtx s0
  obtain ⟨b1, _, b3, _⟩ := vm_render_eq_render_to V hV sp' fuel env name block ctx globalCtx t0
  exact ⟨a1.trans b1.symm, a3.trans b3.symm⟩

/-! ## The hypotheses are satisfiable, and the statements bite (kernel-evaluated) -/

def exOps : FloatOps :=
  { add := fun a _ => a, sub := fun a _ => a, mul := fun a _ => a, div := fun a _ => a,
    remEuclid := fun a _ => a, divEuclid := fun a _ => a, powf := fun a _ => a, neg := fun a => a }

/-- `<p>{% set y %}{{ x }}{% endset %}{{ y }}{% include "i" %}</p>` and `i` = `[{{ x }}]` -/
def exMain : Chunk :=
  { name := "t",
    code := [(.writeText "<p>".toList, []), (.capture, []), (.writePath ["x"], ["s"]), (.endCapture, []),
             (.set "y" false, []), (.loadName "y", ["s"]), (.writeTop, []), (.include_ "i", ["s"]),
             (.writeText "</p>".toList, [])] }

def exIncl : Chunk :=
  { name := "i", code := [(.writeText "[".toList, []), (.writePath ["x"], ["s"]), (.writeText "]".toList, [])] }

def exEnv : Env :=
  { templates := [("t", { name := "t", chunk := exMain, autoescape := true, parents := [],
                          blockLineage := [], components := [] }),
                  ("i", { name := "i", chunk := exIncl, autoescape := true, parents := [],
                          blockLineage := [], components := [] })],
    components := [],
    hasFilter := fun _ => false, hasTest := fun _ => false, hasFunction := fun _ => false,
    callFilter := fun _ _ _ => .err, filterIsSafe := fun _ => false,
    callTest := fun _ _ _ => .err, callFunction := fun _ _ => .err, functionIsSafe := fun _ => false,
    F := exOps, fmtF64 := fun _ => [] }

def exCtx : Ctx := [("x", .str false "<a".toList)]

/-- the model renders it: the captured write is escaped once, the capture is printed as is -/
example : (match render ⟨3, 100⟩ exEnv "t" none exCtx [] with
    | .ok text => text == "<p>&lt;a[&lt;a]</p>".toList
    | _ => false) = true := by decide +kernel

/-- the trace: the captured write is not in it; the include's chunks are, one by one -/
example : (traceRun noGuard ⟨3, 100⟩ exEnv
      { template := ⟨"t", exMain, true, [], [], []⟩, autoescapeOverride := none, depth := 0 } exMain
      (entryState none exCtx [])).2
    = [(.lit, "<p>".toList), (.sink, []), (.sink, []), (.sink, []), (.sink, []), (.sink, []),
       (.sink, "&lt;a".toList), (.lit, "[".toList), (.sink, "&lt;a".toList), (.lit, "]".toList),
       (.lit, "</p>".toList)] := by decide +kernel

/-- refusing the fourth non-empty `write_all` (inside the include): I/O error, and the writer holds
`<p>&lt;a[` — a prefix that ends in the middle of the included template -/
example : (match renderToW (failAtCall 3) wholeSplit ⟨3, 100⟩ exEnv "t" none exCtx [] 0 with
    | (.io, s) => s.failed && s.accepted == toBytes "<p>&lt;a[".toList
    | _ => false) = true := by decide +kernel

/-- the same with the writer threaded through the loop (`interpW`): it stops at that turn -/
example : (match interpW (failAtCall 3) wholeSplit ⟨3, 100⟩ exEnv
      { template := ⟨"t", exMain, true, [], [], []⟩, autoescapeOverride := none, depth := 0 } exMain
      (entryState none exCtx []) 0 with
    | (.io, s) => s.failed && s.accepted == toBytes "<p>&lt;a[".toList
    | _ => false) = true := by decide +kernel

/-- a byte budget that ends inside an entity: partial write, I/O error, exact prefix -/
example : (match renderToW acceptBytes byteSplit ⟨3, 100⟩ exEnv "t" none exCtx [] 5 with
    | (.io, s) => s.failed && s.accepted == toBytes "<p>&l".toList
    | _ => false) = true := by decide +kernel

/-- a writer that accepts one byte per call never refuses: same outcome, all bytes -/
example : (match renderToW trickle wholeSplit ⟨3, 100⟩ exEnv "t" none exCtx [] () with
    | (.fin (.ok text), s) => !s.failed && s.accepted == toBytes text
    | _ => false) = true := by decide +kernel

/-- a rendering error after output was written: the writer has the text written before it -/
example : (match renderToW recorder wholeSplit ⟨3, 100⟩ exEnv "t" none [] [] () with
    | (.fin (.err .undefinedVariable), s) => s.accepted == toBytes "<p>".toList
    | _ => false) = true := by decide +kernel

/-- … and a writer failing before the error point reports the I/O error instead -/
example : (match renderToW (failAtCall 0) wholeSplit ⟨3, 100⟩ exEnv "t" none [] [] 0 with
    | (.io, s) => s.accepted == []
    | _ => false) = true := by decide +kernel

example : NeverFails trickle := fun _ _ _ => ⟨0, rfl⟩

end Tera.C18Vm
