/-
The last mile: the evaluator (Model/Eval.lean, AST semantics) against the chunk the engine model
STORES and RUNS, `storeChunk = decode ∘ Chunk::optimize ∘ encode ∘ compile` (Model/Pipeline.lean).

Composition of
* Props/Refine.lean (p2_refine_expr): evaluator = VM on the UNOPTIMISED typed compiled chunk, and
* Props/C09Vm.lean (bC_opt): the optimised typed chunk renders what the original renders
  (`optimize_preserves_output`, nesting fuel 1: no assumption on nested calls), whose hypotheses
  `DecOK` / `OtherNoTarget` / `TargetsInRange` / `PathSpans` p2_pipeline discharged for compiled
  chunks with the positional decoder of `storeChunk` (Lemmas/PipelineVerify.lean, PipelineStore.lean).
-/
import TeraModel.Props.Refine
import TeraModel.Props.C09Vm
import TeraModel.Lemmas.RefineOpt
import TeraModel.Lemmas.PipelineT
namespace Tera.RefineE2E
open Tera Tera.Vm Tera.Compiler Tera.Refine

/-- what `storeChunk` answered, taken apart -/
theorem storeChunk_inv (cname : String) (code : Code) (ch : Chunk)
    (h : Pipeline.storeChunk cname code = .ok ch) :
    ∃ c' code', Optimize.optimize (Pipeline.encode code) = .ok c' ∧
      Pipeline.decodeAll code c' = some code' ∧ ch = ⟨cname, code'⟩ := by
  unfold Pipeline.storeChunk at h
  cases hopt : Optimize.optimize (Pipeline.encode code) with
  | panic s => rw [hopt] at h; cases h
  | ok c' =>
    rw [hopt] at h
    simp only at h
    cases hd : Pipeline.decodeAll code c' with
    | none => rw [hd] at h; cases h
    | some code' =>
      rw [hd] at h
      simp only [Pipeline.Stored.ok.injEq] at h
      exact ⟨c', code', rfl, hd, h.symm⟩

/-- One `interpret` call on the STORED chunk of an include-free in-domain statement list, from the
state `render` starts in: the evaluator's text, or a rendering error when the evaluator fails. -/
theorem stored_run (venv : Vm.Env) (eenv : Tera.Env) (hE : EnvRel venv eenv)
    (hB : BuiltinsRel venv eenv) (vm : VmCtx) (hov : vm.autoescapeOverride = none)
    (nodes : List Node) (hcheck : nodesInCore [] false nodes = true) (ch : Chunk)
    (hst : Pipeline.storeChunk vm.template.name (nodesCode 0 none nodes) = .ok ch)
    (ctx g : Ctx) (fuel : Nat) :
    (∀ est', execNodes fuel eenv vm.autoescape
        { scope := Scope.root ctx g, out := [], captures := [] } nodes = .ok (est', .normal) →
      ∃ N, ∀ steps, N ≤ steps → ∃ st', Vm.run ⟨1, steps⟩ venv vm ch (entryState none ctx g) = .done st'
        ∧ st'.out = est'.out)
    ∧ (∀ err, execNodes fuel eenv vm.autoescape
        { scope := Scope.root ctx g, out := [], captures := [] } nodes = .error err →
      reportable err = true →
      ∃ N, ∀ steps, N ≤ steps → ∃ re, Vm.run ⟨1, steps⟩ venv vm ch (entryState none ctx g) = .err re) := by
  obtain ⟨c', code', hopt, hd, rfl⟩ := storeChunk_inv _ _ ch hst
  obtain ⟨tcode, htyped⟩ := typedCode_nodes nodes
  have hemb : embed (nodesCode 0 none nodes) = some tcode := htyped
  have hno := noInclude_nodes false nodes hcheck tcode htyped
  have hlen := embed_length hemb
  have hcode := codeAt_of_embed (name := vm.template.name) (pre := []) (post := []) hemb
  simp only [List.nil_append, List.append_nil, List.length_nil] at hcode
  have ht : reportTargetOk venv vm ⟨vm.template.name, tcode⟩ = true := by simp [reportTargetOk]
  have hsim : NodeOutcome venv vm ⟨vm.template.name, tcode⟩ false none
      (execNodes fuel eenv vm.autoescape { scope := Scope.root ctx g, out := [], captures := [] } nodes)
      0 (nodesCode 0 none nodes).length (entryState none ctx g) :=
    nodes_sim (Inc := (· ∈ ([] : List String))) hE hB ⟨fun _ h => (List.not_mem_nil h).elim⟩ ht hov
      fuel false nodes (nodesInCore_sound [] false nodes hcheck) 0 none
      (entryState none ctx g) { scope := Scope.root ctx g, out := [], captures := [] }
      ⟨ScopeSim.refl _, rfl, rfl⟩ (fun h => by cases h) hcode
  -- the optimiser bridge, for every step fuel
  have hbridge := fun (steps : Nat) =>
    C09Vm.optimize_preserves_output (Pipeline.decodeInstr (nodesCode 0 none nodes))
      (Pipeline.decOK_decodeInstr _) (Pipeline.encode (nodesCode 0 none nodes)) c' tcode code'
      vm.template.name (Pipeline.encode_targetsInRange nodes) (Pipeline.pathSpans_encode nodes)
      (Pipeline.otherNoTarget_encode _) (by rw [Pipeline.mapM_encode]; exact htyped) hopt
      (by rw [← Pipeline.decodeAll_eq_mapM]; exact hd) ⟨1, steps⟩ venv vm (entryState none ctx g) rfl rfl
      (by
        intro d hd1
        have : d = 0 := by simp at hd1; omega
        subst this
        exact ⟨fun _ _ _ _ => True.intro, fun _ _ _ _ => True.intro⟩)
  have hrunEq : ∀ steps, Vm.run ⟨1, steps⟩ venv vm ⟨vm.template.name, tcode⟩ (entryState none ctx g)
      = runLoop (interp venv steps 0) venv vm ⟨vm.template.name, tcode⟩ steps 0 (entryState none ctx g) :=
    fun _ => rfl
  constructor
  · intro est' hv
    rw [hv] at hsim
    obtain ⟨tr, sc', _, _, hrun, _, _⟩ := hsim
    have hrun' : RunI venv vm ⟨vm.template.name, tcode⟩ 0 (entryState none ctx g) tr
        (0 + (nodesCode 0 none nodes).length) (withSc (entryState none ctx g) est' sc') := hrun
    have hrun'' := hrun'.toRun hno
    refine ⟨tr.length, fun steps hsteps => ?_⟩
    have hdone : Vm.run ⟨1, steps⟩ venv vm ⟨vm.template.name, tcode⟩ (entryState none ctx g)
        = .done (withSc (entryState none ctx g) est' sc') := by
      rw [hrunEq]
      have := hrun''.runLoop (interp venv steps 0) (steps - tr.length)
      rw [show tr.length + (steps - tr.length) = steps by omega] at this
      rw [this, ← hlen]
      exact runLoop_off_end _ _ _ _ _ _ _ (by simp)
    have hb := hbridge steps (by rw [hdone]; intro h; cases h)
    rw [hdone] at hb
    cases hr' : Vm.run ⟨1, steps⟩ venv vm ⟨vm.template.name, code'⟩ (entryState none ctx g) with
    | done b => rw [hr'] at hb; exact ⟨b, rfl, hb.1⟩
    | err e => rw [hr'] at hb; exact hb.elim
    | panic s => rw [hr'] at hb; exact hb.elim
    | unmodelled w => rw [hr'] at hb; exact hb.elim
    | outOfFuel => rw [hr'] at hb; exact hb.elim
  · intro err hv hrep
    rw [hv] at hsim
    obtain ⟨tr, re, hf, _, _, _⟩ := hsim hrep
    have hf' := hf.toFails hno
    refine ⟨tr.length, fun steps hsteps => ?_⟩
    have herr : Vm.run ⟨1, steps⟩ venv vm ⟨vm.template.name, tcode⟩ (entryState none ctx g) = .err re := by
      rw [hrunEq]
      have := hf'.runLoop (interp venv steps 0) (steps - tr.length)
      rw [show tr.length + (steps - tr.length) = steps by omega] at this
      exact this
    have hb := hbridge steps (by rw [herr]; intro h; cases h)
    rw [herr] at hb
    cases hr' : Vm.run ⟨1, steps⟩ venv vm ⟨vm.template.name, code'⟩ (entryState none ctx g) with
    | err e => exact ⟨e, rfl⟩
    | done b => rw [hr'] at hb; exact hb.elim
    | panic s => rw [hr'] at hb; exact hb.elim
    | unmodelled w => rw [hr'] at hb; exact hb.elim
    | outOfFuel => rw [hr'] at hb; exact hb.elim

/-- **`render_correct_optimized`** (the original `vm_refines_spec`, include-free): for every
template body in the checked domain with no includable template (`nodesInCore []`), when the VM's
table holds under `name` a template without parents whose chunk IS what the pipeline stores —
`storeChunk tpl.name (compile body)` = decode (optimize (encode (compile body))) — and the
evaluator's table holds the body with the same autoescape flag, then what `Tera.render`
(the evaluator) gives, `Vm.render` gives on the optimised chunk: the same text; and when the
evaluator fails with a reportable error, a rendering error (not a panic, not `unmodelled`, not out
of fuel).  Nesting fuel 1 (nothing is nested in an include-free template), any step fuel `≥ N`.
The error CLASS is not carried across the optimiser: `C09Vm` relates "a rendering error" to "a
rendering error" (a fused load names a missing root differently); on the unoptimised chunk the
class is the evaluator's (`Refine.render_correct_core`). -/
theorem render_correct_optimized (venv : Vm.Env) (eenv : Tera.Env) (hE : EnvRel venv eenv)
    (hB : BuiltinsRel venv eenv) (name : String) (tpl : TemplateInfo) (nodes : List Node)
    (hv : venv.template name = some tpl) (hpar : tpl.parents = [])
    (hst : Pipeline.storeChunk tpl.name (nodesCode 0 none nodes) = .ok tpl.chunk)
    (he : eenv.template name = some ⟨nodes, tpl.autoescape⟩)
    (hcheck : nodesInCore [] false nodes = true) (ctx g : Ctx) (fuel : Nat) :
    (∀ text, Tera.render fuel eenv name ctx g = .ok text →
      ∃ N, ∀ steps, N ≤ steps → Vm.render ⟨1, steps⟩ venv name none ctx g = .ok text)
    ∧ (∀ err, Tera.render fuel eenv name ctx g = .error err → reportable err = true →
      ∃ N, ∀ steps, N ≤ steps → ∃ re, Vm.render ⟨1, steps⟩ venv name none ctx g = .err re) := by
  have hS := stored_run venv eenv hE hB { template := tpl, autoescapeOverride := none, depth := 0 } rfl
    nodes hcheck tpl.chunk hst ctx g fuel
  have hae : ({ template := tpl, autoescapeOverride := none, depth := 0 } : VmCtx).autoescape
      = tpl.autoescape := rfl
  rw [hae] at hS
  have hrender : ∀ steps, Vm.render ⟨1, steps⟩ venv name none ctx g
      = outcomeOf none (Vm.run ⟨1, steps⟩ venv { template := tpl, autoescapeOverride := none, depth := 0 }
          tpl.chunk (entryState none ctx g)) := by
    intro steps
    simp only [Vm.render, hv, lineageMissing, Bool.false_eq_true, if_false, entryChunk, hpar,
      List.head?_nil]
  constructor
  · intro text htext
    simp only [Tera.render, he] at htext
    cases hr : execNodes fuel eenv tpl.autoescape
        { scope := Scope.root ctx g, out := [], captures := [] } nodes with
    | error err => simp [hr] at htext
    | ok p =>
      obtain ⟨est', sig⟩ := p
      cases sig with
      | normal =>
        simp only [hr, Except.ok.injEq] at htext
        obtain ⟨N, hN⟩ := hS.1 est' hr
        refine ⟨N, fun steps hsteps => ?_⟩
        obtain ⟨st', hrun, hout⟩ := hN steps hsteps
        rw [hrender, hrun]
        simp only [outcomeOf, Option.isSome_none, Bool.false_eq_true, if_false, hout, htext]
      | brk => simp [hr] at htext
      | cont => simp [hr] at htext
  · intro err herr hrep
    simp only [Tera.render, he] at herr
    cases hr : execNodes fuel eenv tpl.autoescape
        { scope := Scope.root ctx g, out := [], captures := [] } nodes with
    | ok p =>
      obtain ⟨est', sig⟩ := p
      cases sig <;> simp only [hr] at herr
      · cases herr
      · cases herr; simp [reportable] at hrep
      · cases herr; simp [reportable] at hrep
    | error err' =>
      simp only [hr, Except.error.injEq] at herr
      subst herr
      obtain ⟨N, hN⟩ := hS.2 err' hr hrep
      refine ⟨N, fun steps hsteps => ?_⟩
      obtain ⟨re, hrun⟩ := hN steps hsteps
      exact ⟨re, by rw [hrender, hrun]; rfl⟩

/-! ## From source text -/

/-- `Template::new` on a source that parses to `t`: the stored main chunk is
`storeChunk name (compile t.nodes)` -/
theorem newTemplate_main (d : Delims) (name : String) (src : Tera.Bytes) (t : Template)
    (td : Pipeline.TemplateData) (hf : Pipeline.front d src = .ok t)
    (h : Pipeline.newTemplate d name src = .ok td) :
    td.name = name ∧ Pipeline.storeChunk name (nodesCode 0 none t.nodes) = .ok td.main := by
  unfold Pipeline.newTemplate at h
  rw [hf] at h
  simp only at h
  cases hc : compileTemplate t with
  | error site => rw [hc] at h; cases h
  | ok c =>
    rw [hc] at h
    simp only at h
    have hmain := (Pipeline.chunks_are_nodes t c hc).1
    split at h
    case h_1 main blocks comps h1 h2 h3 =>
      simp only [Pipeline.NewRes.ok.injEq] at h
      subst h
      rw [hmain] at h1
      exact ⟨rfl, h1⟩
    all_goals cases h

/-- the entry of the VM's template table for the only template of a one-source batch -/
theorem single_template_entry (cfg : Pipeline.Config) (name : String) (src : Tera.Bytes)
    (t : Template) (env : Pipeline.Env) (hf : Pipeline.front cfg.delims src = .ok t)
    (hadd : Pipeline.addTemplatesT cfg [(name, src)] = .ok env) (tpl : TemplateInfo)
    (htpl : env.template name = some tpl) :
    tpl.name = name ∧ Pipeline.storeChunk tpl.name (nodesCode 0 none t.nodes) = .ok tpl.chunk := by
  obtain ⟨tds, st, hnew, _, hbuild⟩ := Pipeline.addTemplatesT_inv cfg [(name, src)] env hadd
  -- the batch is the one template
  obtain ⟨td, rfl, htd⟩ : ∃ td, tds = [td] ∧ Pipeline.newTemplate cfg.delims name src = .ok td := by
    simp only [Pipeline.newAll] at hnew
    cases hn : Pipeline.newTemplate cfg.delims name src with
    | ok td =>
      rw [hn] at hnew
      simp only [Except.ok.injEq] at hnew
      exact ⟨td, hnew.symm, rfl⟩
    | «syntax» => rw [hn] at hnew; cases hnew
    | panic s => rw [hn] at hnew; cases hnew
    | outOfFuel => rw [hn] at hnew; cases hnew
    | internal w => rw [hn] at hnew; cases hnew
  obtain ⟨hname, hmain⟩ := newTemplate_main cfg.delims name src t td hf htd
  -- the table of the environment
  unfold Pipeline.buildEnv at hbuild
  cases hi : Pipeline.infosOf (Pipeline.namedOf [td]) st.templates with
  | none => rw [hi] at hbuild; simp at hbuild
  | some tpls =>
    cases hg : Pipeline.globalComponents (Pipeline.namedOf [td]) st.comps with
    | none => rw [hi, hg] at hbuild; simp at hbuild
    | some comps =>
      rw [hi, hg] at hbuild
      simp only [Option.some.injEq] at hbuild
      subst hbuild
      have hassoc : Vm.assoc name (tpls ++ Pipeline.includeAliases cfg.prefixes (st.templates.map (·.tpl)) tpls
          ((st.templates.map (·.tpl)).flatMap (·.includeCalls))) = some tpl := htpl
      obtain ⟨k, hmem⟩ := Pipeline.assoc_mem hassoc
      -- in either half of the table the entry comes from `infoOf`
      obtain ⟨r, hr⟩ : ∃ r, (r, tpl) ∈ tpls := by
        rcases List.mem_append.mp hmem with h | h
        · exact ⟨k, h⟩
        · obtain ⟨r, hr⟩ := Pipeline.includeAliases_mem _ _ _ _ _ h
          obtain ⟨r', hr'⟩ := Pipeline.assoc_mem hr
          exact ⟨r', hr'⟩
      obtain ⟨e, _, hinfo⟩ := (Pipeline.infosOf_spec _ st.templates tpls hi).2 _ hr
      unfold Pipeline.infoOf at hinfo
      cases hl : Pipeline.lookupLast e.tpl.name (Pipeline.namedOf [td]) with
      | none => rw [hl] at hinfo; cases hinfo
      | some td' =>
        rw [hl] at hinfo
        simp only at hinfo
        cases hlin : Pipeline.lineagesOf (Pipeline.namedOf [td]) e.lineage with
        | none => rw [hlin] at hinfo; cases hinfo
        | some lin =>
          rw [hlin] at hinfo
          simp only [Option.some.injEq, Prod.mk.injEq] at hinfo
          obtain ⟨_, htplEq⟩ := hinfo
          have hmem' := Pipeline.lookupLast_mem _ _ _ hl
          simp only [Pipeline.namedOf, List.map_cons, List.map_nil, List.mem_singleton,
            Prod.mk.injEq] at hmem'
          obtain ⟨hen, rfl⟩ := hmem'
          subst htplEq
          simp only
          rw [hen, hname]
          exact ⟨rfl, hmain⟩

/-- **`source_to_output_semantics`**: the whole engine model — `Pipeline.renderSourcesT`: lexer,
whitespace filter, parser, compiler, optimiser, registry, VM — computes the AST semantics.  For a
single source that the front end parses to `t`, whose body passes the domain check
(`nodesInCore []`: no include, block, component call) and which the registry files without
parents, rendering it through the pipeline gives the text the evaluator gives on `t.nodes` (with
the autoescape flag the registry derived); when the evaluator fails with a reportable error the
pipeline answers a rendering error (never a panic, `unmodelled`, out of fuel, or an add-time
error).  Nesting fuel 1, any step fuel `≥ N`.  `eenv` is any evaluator environment that agrees
with the configuration's built-ins (`EnvRel`, `BuiltinsRel`) and holds the parsed body. -/
theorem source_to_output_semantics (cfg : Pipeline.Config) (name : String) (src : Tera.Bytes)
    (t : Template) (env : Pipeline.Env) (hf : Pipeline.front cfg.delims src = .ok t)
    (hadd : Pipeline.addTemplatesT cfg [(name, src)] = .ok env)
    (hcheck : nodesInCore [] false t.nodes = true) (tpl : TemplateInfo)
    (htpl : env.template name = some tpl) (hpar : tpl.parents = [])
    (eenv : Tera.Env) (hE : EnvRel env eenv) (hB : BuiltinsRel env eenv)
    (he : eenv.template name = some ⟨t.nodes, tpl.autoescape⟩) (ctx : Ctx) (fuel : Nat) :
    (∀ text, Tera.render fuel eenv name ctx [] = .ok text →
      ∃ N, ∀ steps, N ≤ steps →
        Pipeline.renderSourcesT cfg [(name, src)] ⟨1, steps⟩ name ctx = .ok (.ok text))
    ∧ (∀ err, Tera.render fuel eenv name ctx [] = .error err → reportable err = true →
      ∃ N, ∀ steps, N ≤ steps → ∃ re,
        Pipeline.renderSourcesT cfg [(name, src)] ⟨1, steps⟩ name ctx = .ok (.err re)) := by
  obtain ⟨_, hst⟩ := single_template_entry cfg name src t env hf hadd tpl htpl
  have h := render_correct_optimized env eenv hE hB name tpl t.nodes htpl hpar hst he hcheck ctx [] fuel
  have hrs : ∀ fl, Pipeline.renderSourcesT cfg [(name, src)] fl name ctx
      = .ok (Vm.render fl env name none ctx []) := by
    intro fl
    simp only [Pipeline.renderSourcesT, hadd, Pipeline.render]
  refine ⟨fun text ht => ?_, fun err herr hrep => ?_⟩
  · obtain ⟨N, hN⟩ := h.1 text ht
    exact ⟨N, fun steps hs => by rw [hrs, hN steps hs]⟩
  · obtain ⟨N, hN⟩ := h.2 err herr hrep
    refine ⟨N, fun steps hs => ?_⟩
    obtain ⟨re, hre⟩ := hN steps hs
    exact ⟨re, by rw [hrs, hre]⟩

end Tera.RefineE2E
